// dsimgen builds the -overlay file used by every dsim binary.
//
//	dsimgen -repo /repo -goroot /opt/veriftools/go1.26.8 -patch /verif/sim/patch -out /verif/build/overlay
//
// It (1) renames hooked entry points of package os to dsimReal<Name> and adds the wrapper file,
// (2) injects the white-box files found under patch/inject (first line: "//dsim:target <path
// relative to repo>"), (3) applies the mechanical rewrites listed in rewrites() to copies of repo
// files computed from their CURRENT content. Any anchor that cannot be found is a hard error
// (exit 2): the checks then report a build problem, never a violation.
package main

import (
	"encoding/json"
	"flag"
	"fmt"
	"go/ast"
	"go/parser"
	"go/token"
	"os"
	"os/exec"
	"path/filepath"
	"regexp"
	"sort"
	"strings"
)

type rename struct {
	file, recv, name, to string
	pkg string // package directory below GOROOT/src ("" = os)
}

var osRenames = []rename{
	{"file.go", "File", "Read", "dsimRealRead", ""},
	{"file.go", "File", "ReadAt", "dsimRealReadAt", ""},
	{"file.go", "File", "ReadFrom", "dsimRealReadFrom", ""},
	{"file.go", "File", "Write", "dsimRealWrite", ""},
	{"file.go", "File", "WriteAt", "dsimRealWriteAt", ""},
	{"file.go", "File", "WriteTo", "dsimRealWriteTo", ""},
	{"file.go", "", "Mkdir", "dsimRealMkdir", ""},
	{"file.go", "", "OpenFile", "dsimRealOpenFile", ""},
	{"file.go", "", "Rename", "dsimRealRename", ""},
	{"file_posix.go", "File", "Close", "dsimRealClose", ""},
	{"file_posix.go", "File", "Truncate", "dsimRealTruncate", ""},
	{"file_posix.go", "File", "Sync", "dsimRealSync", ""},
	{"file_posix.go", "", "Chtimes", "dsimRealChtimes", ""},
	{"file_unix.go", "", "Truncate", "dsimRealTruncate", ""},
	{"file_unix.go", "", "Remove", "dsimRealRemove", ""},
	{"file_unix.go", "", "Link", "dsimRealLink", ""},
	{"stat.go", "", "Stat", "dsimRealStat", ""},
	{"stat.go", "", "Lstat", "dsimRealLstat", ""},
	{"stat_unix.go", "File", "Stat", "dsimRealStat", ""},
	{"dir.go", "", "ReadDir", "dsimRealReadDir", ""},
	{"path.go", "", "RemoveAll", "dsimRealRemoveAll", ""},
	{"tempfile.go", "", "nextRandom", "dsimRealnextRandom", ""},
	{"root.go", "Root", "OpenFile", "dsimRealOpenFile", ""},
	{"zsyscall_linux_amd64.go", "", "Flock", "dsimRealFlock", "syscall"},
}

// textRewrite is a regexp rewrite of one repo file. min is the number of matches required.
type textRewrite struct {
	file string // relative to repo
	re   string
	repl string
	min  int
}

func rewrites() []textRewrite {
	return []textRewrite{
		// tuning constants become variables so a run can randomise them (typed so arithmetic with
		// them keeps compiling).
		{"go/store/nbs/journal_writer.go", `(?m)^\tjournalMaybeSyncThreshold = 64 \* 1024 \* 1024$`, "\tjournalMaybeSyncThresholdDsimConst = 64 * 1024 * 1024", 1},
		{"go/store/nbs/journal_writer.go", `(?m)^var \(\n\tjournalAddr = `, "var journalMaybeSyncThreshold uint64 = journalMaybeSyncThresholdDsimConst\n\nvar (\n\tjournalAddr = ", 1},
		{"go/store/nbs/journal_writer.go", `wr\.maxNovel = journalIndexDefaultMaxNovel`, "wr.maxNovel = DsimJournalMaxNovel", 1},
		// scheduling points inside the auto-increment tracker's read-modify-write, and a keyed mutex
		// whose waiters park instead of blocking (C28, sub-statement interleaving)
		{"go/libraries/doltcore/sqle/dsess/mutexmap/mutexmap.go", `(?m)^\tkeyedMutex\.mu\.Lock\(\)$`, "\tdsimLock(&keyedMutex.mu)", 1},
		{"go/libraries/doltcore/sqle/dsess/sequence_tracker.go", `(?m)^(\tcurrState, ok := loadSequenceState\(a\.sequences, relationName\)\n\tif !ok \{\n\t\t// Missing tracker state)`, "\tdsimSeqYield(\"seq.before-load\")\n$1", 1},
		{"go/libraries/doltcore/sqle/dsess/sequence_tracker.go", `(?m)^(\t+)(a\.sequences\.Store\(relationName, (?:nextState|givenState)\))$`, "${1}dsimSeqYield(\"seq.before-store\")\n${1}${2}", 2},
		// a scheduling point before every git subprocess of the git-backed blobstore (C42)
		{"go/store/blobstore/internal/git/runner.go", `(?m)^(func \(r \*Runner\) (?:Run|Start)\(ctx context\.Context, opts RunOptions, args \.\.\.string\) \([^)]*\) \{)$`, "$1\n\tdsimGitYield(args)", 2},
		// the sealer's clock: sealer and unsealer can be given different ones (C39)
		{"go/libraries/doltcore/remotesrv/sealer.go", `time\.Now\(\)`, "dsimSealerNow()", 4},
		// the manifest lock time-out becomes a knob (a run may lengthen it so that a lock holder that is
		// descheduled for a while does not turn every contended update into a time-out)
		{"go/store/nbs/file_manifest.go", `(?m)^\tlockFileTimeout  = time\.Millisecond \* 100$`, "\tlockFileTimeoutDsimConst = time.Millisecond * 100", 1},
		{"go/store/nbs/file_manifest.go", `(?m)^var ErrUnreadableManifest = `, "var lockFileTimeout = lockFileTimeoutDsimConst\n\nvar ErrUnreadableManifest = ", 1},
		// the puller's table-file size: one transfer becomes many files when a run lowers it
		{"go/libraries/doltcore/doltdb/doltdb.go", `defaultTargetFileSize, srcCS`, "DsimPullTargetFileSize, srcCS", 1},
	}
}

func die(format string, a ...any) {
	fmt.Fprintf(os.Stderr, "dsimgen: "+format+"\n", a...)
	os.Exit(2)
}

func main() {
	repo := flag.String("repo", "/repo", "dolt repository root")
	goroot := flag.String("goroot", "/opt/veriftools/go1.26.8", "GOROOT of the toolchain used for simulation builds")
	patch := flag.String("patch", "", "directory with os_zz_dsim.go.txt and inject/")
	out := flag.String("out", "", "output directory (overlay.json is written there)")
	canary := flag.String("canary", "", "unified diff (relative to the repo root) applied to overlay copies of the files it touches: a deliberate property-breaking change for sensitivity self-tests; /repo itself is not modified")
	flag.Parse()
	if *patch == "" || *out == "" {
		die("need -patch and -out")
	}
	if err := os.MkdirAll(*out, 0o755); err != nil {
		die("%v", err)
	}
	replace := map[string]string{}

	// 1. package os
	osDir := filepath.Join(*goroot, "src", "os")
	byFile := map[string][]rename{}
	for _, r := range osRenames {
		k := r.file
		if r.pkg != "" {
			k = "../" + r.pkg + "/" + r.file
		}
		byFile[k] = append(byFile[k], r)
	}
	files := make([]string, 0, len(byFile))
	for f := range byFile {
		files = append(files, f)
	}
	sort.Strings(files)
	for _, f := range files {
		src := filepath.Join(osDir, f)
		b, err := os.ReadFile(src)
		if err != nil {
			die("%v", err)
		}
		nb, err := renameFuncs(src, b, byFile[f])
		if err != nil {
			die("%v", err)
		}
		src = filepath.Clean(src)
		dst := filepath.Join(*out, "os_"+strings.ReplaceAll(strings.TrimPrefix(f, "../"), "/", "_")+".txt")
		writeIfChanged(dst, nb)
		replace[src] = dst
	}
	zz, err := os.ReadFile(filepath.Join(*patch, "os_zz_dsim.go.txt"))
	if err != nil {
		die("%v", err)
	}
	dst := filepath.Join(*out, "os_zz_dsim.go.txt")
	writeIfChanged(dst, zz)
	replace[filepath.Join(osDir, "zz_dsim.go")] = dst

	sz, err := os.ReadFile(filepath.Join(*patch, "syscall_zz_dsim.go.txt"))
	if err != nil {
		die("%v", err)
	}
	dst = filepath.Join(*out, "syscall_zz_dsim.go.txt")
	writeIfChanged(dst, sz)
	replace[filepath.Join(*goroot, "src", "syscall", "zz_dsim.go")] = dst

	rz, err := os.ReadFile(filepath.Join(*patch, "runtime_zz_dsim.go.txt"))
	if err != nil {
		die("%v", err)
	}
	dst = filepath.Join(*out, "runtime_zz_dsim.go.txt")
	writeIfChanged(dst, rz)
	replace[filepath.Join(*goroot, "src", "runtime", "zz_dsim.go")] = dst

	// 2. injected white-box files
	inj, _ := filepath.Glob(filepath.Join(*patch, "inject", "*.txt"))
	sort.Strings(inj)
	for _, p := range inj {
		b, err := os.ReadFile(p)
		if err != nil {
			die("%v", err)
		}
		first, _, _ := strings.Cut(string(b), "\n")
		const pfx = "//dsim:target "
		if !strings.HasPrefix(first, pfx) {
			die("%s: first line must be %q<path>", p, pfx)
		}
		target := filepath.Join(*repo, strings.TrimSpace(strings.TrimPrefix(first, pfx)))
		if _, err := os.Stat(filepath.Dir(target)); err != nil {
			// a virtual package: allowed, nothing to check
		}
		dst := filepath.Join(*out, "inj_"+filepath.Base(p))
		writeIfChanged(dst, b)
		replace[target] = dst
	}

	// 2b. transplants: a file of a dolt command (package main, not importable) compiled, unchanged but
	// for its package clause, as part of a harness-side package, so that the harness runs the real code
	// instead of a copy of it
	simDir := filepath.Dir(filepath.Clean(*patch))
	for _, tp := range []struct{ src, dstDir, pkg string }{
		{"go/utils/remotesrv/cscache.go", "realcs", "realcs"},
	} {
		b, err := os.ReadFile(filepath.Join(*repo, tp.src))
		if err != nil {
			die("transplant: %v", err)
		}
		re := regexp.MustCompile(`(?m)^package main$`)
		if len(re.FindAllIndex(b, -1)) != 1 {
			die("transplant %s: package clause not found", tp.src)
		}
		nb := re.ReplaceAll(b, []byte("package "+tp.pkg))
		dst := filepath.Join(*out, "tp_"+strings.ReplaceAll(tp.src, "/", "_")+".txt")
		writeIfChanged(dst, nb)
		replace[filepath.Join(simDir, tp.dstDir, "zz_"+filepath.Base(tp.src))] = dst
	}

	// 3. rewrites of repo files, computed from the current tree
	cur := map[string][]byte{}
	var order []string
	if *canary != "" {
		files, err := applyCanary(*repo, *canary, filepath.Join(*out, "canary"))
		if err != nil {
			die("canary %s: %v", *canary, err)
		}
		for rel, b := range files {
			cur[rel] = b
			order = append(order, rel)
		}
		sort.Strings(order)
	}
	for _, rw := range rewrites() {
		if _, ok := cur[rw.file]; !ok {
			b, err := os.ReadFile(filepath.Join(*repo, rw.file))
			if err != nil {
				die("%v", err)
			}
			cur[rw.file] = b
			order = append(order, rw.file)
		}
		re := regexp.MustCompile(rw.re)
		n := len(re.FindAllIndex(cur[rw.file], -1))
		if n < rw.min {
			die("rewrite anchor not found in %s: %s (found %d, need %d)", rw.file, rw.re, n, rw.min)
		}
		cur[rw.file] = re.ReplaceAll(cur[rw.file], []byte(rw.repl))
	}
	for _, f := range order {
		dst := filepath.Join(*out, "rw_"+strings.ReplaceAll(f, "/", "_")+".txt")
		writeIfChanged(dst, cur[f])
		replace[filepath.Join(*repo, f)] = dst
	}

	ob, _ := json.MarshalIndent(map[string]any{"Replace": replace}, "", " ")
	writeIfChanged(filepath.Join(*out, "overlay.json"), ob)
}

// applyCanary copies the files named in the diff into dir and applies the diff there with patch(1).
func applyCanary(repo, diff, dir string) (map[string][]byte, error) {
	b, err := os.ReadFile(diff)
	if err != nil {
		return nil, err
	}
	os.RemoveAll(dir)
	var rels []string
	for _, line := range strings.Split(string(b), "\n") {
		if strings.HasPrefix(line, "+++ b/") {
			name, _, _ := strings.Cut(strings.TrimPrefix(line, "+++ b/"), "\t") // diff -u appends a timestamp
			rels = append(rels, strings.TrimSpace(name))
		}
	}
	if len(rels) == 0 {
		return nil, fmt.Errorf("no '+++ b/<path>' headers")
	}
	for _, rel := range rels {
		src, err := os.ReadFile(filepath.Join(repo, rel))
		if err != nil {
			return nil, err
		}
		dst := filepath.Join(dir, rel)
		if err := os.MkdirAll(filepath.Dir(dst), 0o755); err != nil {
			return nil, err
		}
		if err := os.WriteFile(dst, src, 0o644); err != nil {
			return nil, err
		}
	}
	cmd := exec.Command("patch", "-p1", "--no-backup-if-mismatch", "-s", "-d", dir, "-i", diff)
	if outp, err := cmd.CombinedOutput(); err != nil {
		return nil, fmt.Errorf("patch failed: %v\n%s", err, outp)
	}
	res := map[string][]byte{}
	for _, rel := range rels {
		nb, err := os.ReadFile(filepath.Join(dir, rel))
		if err != nil {
			return nil, err
		}
		res[rel] = nb
	}
	return res, nil
}

// writeIfChanged keeps mtimes stable so the go build cache stays warm.
func writeIfChanged(path string, b []byte) {
	if old, err := os.ReadFile(path); err == nil && string(old) == string(b) {
		return
	}
	if err := os.WriteFile(path, b, 0o644); err != nil {
		die("%v", err)
	}
}

func renameFuncs(name string, src []byte, rs []rename) ([]byte, error) {
	fset := token.NewFileSet()
	f, err := parser.ParseFile(fset, name, src, parser.SkipObjectResolution)
	if err != nil {
		return nil, err
	}
	type edit struct {
		off, end int
		to       string
	}
	var edits []edit
	for _, r := range rs {
		found := false
		for _, d := range f.Decls {
			fd, ok := d.(*ast.FuncDecl)
			if !ok || fd.Name.Name != r.name {
				continue
			}
			recv := ""
			if fd.Recv != nil && len(fd.Recv.List) == 1 {
				t := fd.Recv.List[0].Type
				if s, ok := t.(*ast.StarExpr); ok {
					t = s.X
				}
				if id, ok := t.(*ast.Ident); ok {
					recv = id.Name
				}
			}
			if recv != r.recv {
				continue
			}
			edits = append(edits, edit{fset.Position(fd.Name.Pos()).Offset, fset.Position(fd.Name.End()).Offset, r.to})
			found = true
		}
		if !found {
			return nil, fmt.Errorf("%s: func (%s) %s not found", name, r.recv, r.name)
		}
	}
	sort.Slice(edits, func(i, j int) bool { return edits[i].off > edits[j].off })
	out := append([]byte(nil), src...)
	for _, e := range edits {
		out = append(out[:e.off], append([]byte(e.to), out[e.end:]...)...)
	}
	return out, nil
}
