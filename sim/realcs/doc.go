// Package realcs holds utils/remotesrv/cscache.go of the repository under test (the database cache of
// the stand-alone remote server, a package main that cannot be imported): the overlay generator adds
// the file to this package with nothing but its package clause rewritten, so the C39 harness serves
// requests through the real LocalCSCache.
package realcs
