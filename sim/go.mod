module dsim

go 1.26.2

require (
	github.com/dolthub/dolt/go v0.0.0
	github.com/dolthub/fslock v0.0.5
	github.com/dolthub/go-mysql-server v0.20.1-0.20260819200441-c0b22e21d5fc
)

require (
	github.com/Azure/azure-sdk-for-go/sdk/azidentity v1.13.1 // indirect
	github.com/AzureAD/microsoft-authentication-library-for-go v1.6.0 // indirect
	github.com/HdrHistogram/hdrhistogram-go v1.1.2 // indirect
	github.com/apache/thrift v0.13.1-0.20201008052519-daf620915714 // indirect
	github.com/aws/aws-sdk-go-v2/config v1.29.8 // indirect
	github.com/aws/aws-sdk-go-v2/credentials v1.17.61 // indirect
	github.com/aws/aws-sdk-go-v2/feature/ec2/imds v1.16.30 // indirect
	github.com/aws/aws-sdk-go-v2/internal/ini v1.8.3 // indirect
	github.com/aws/aws-sdk-go-v2/service/sso v1.25.0 // indirect
	github.com/aws/aws-sdk-go-v2/service/ssooidc v1.29.0 // indirect
	github.com/aws/aws-sdk-go-v2/service/sts v1.33.16 // indirect
	github.com/bcicen/jstream v1.0.0 // indirect
	github.com/cockroachdb/apd/v3 v3.2.3 // indirect
	github.com/denisbrodbeck/machineid v1.0.1 // indirect
	github.com/dolthub/aws-sdk-go-ini-parser v0.0.0-20250305001723-2821c37f6c12 // indirect
	github.com/dolthub/eventsapi_schema v0.0.0-20260715220557-d9b4a1c6b4d4 // indirect
	github.com/dolthub/flatbuffers/v23 v23.3.3-dh.2 // indirect
	github.com/dolthub/go-icu-regex v0.0.0-20260610153742-72563bc7ca83 // indirect
	github.com/dolthub/jsonpath v0.0.2-0.20260807003725-336cd89c1c76 // indirect
	github.com/dolthub/vitess v0.0.0-20260819175407-19559ab533b7 // indirect
	github.com/esote/minmaxheap v1.0.0 // indirect
	github.com/fatih/color v1.13.0 // indirect
	github.com/goccy/go-json v0.10.2 // indirect
	github.com/gocraft/dbr/v2 v2.7.2 // indirect
	github.com/golang-jwt/jwt/v5 v5.3.0 // indirect
	github.com/google/btree v1.1.2 // indirect
	github.com/hashicorp/golang-lru v0.5.4 // indirect
	github.com/kch42/buzhash v0.0.0-20160816060738-9bdec3dec7c6 // indirect
	github.com/klauspost/compress v1.18.0 // indirect
	github.com/klauspost/cpuid/v2 v2.0.12 // indirect
	github.com/kylelemons/godebug v1.1.0 // indirect
	github.com/lestrrat-go/strftime v1.2.0 // indirect
	github.com/mattn/go-colorable v0.1.13 // indirect
	github.com/mattn/go-isatty v0.0.17 // indirect
	github.com/mattn/go-runewidth v0.0.13 // indirect
	github.com/mohae/uvarint v0.0.0-20160208145430-c3f9e62bf2b0 // indirect
	github.com/pierrec/lz4/v4 v4.1.6 // indirect
	github.com/pkg/browser v0.0.0-20240102092130-5ac0b6a4141c // indirect
	github.com/pmezard/go-difflib v1.0.1-0.20181226105442-5d4384ee4fb2 // indirect
	github.com/prometheus/procfs v0.16.1 // indirect
	github.com/rivo/uniseg v0.2.0 // indirect
	github.com/sergi/go-diff v1.1.0 // indirect
	github.com/vbauerster/mpb/v8 v8.0.2 // indirect
	github.com/xitongsys/parquet-go v1.6.1 // indirect
	github.com/xitongsys/parquet-go-source v0.0.0-20211010230925-397910c5e371 // indirect
	github.com/xtaci/smux v1.5.56 // indirect
	github.com/zeebo/xxh3 v1.0.2 // indirect
	golang.org/x/exp v0.0.0-20230522175609-2e198f4a06a1 // indirect
	golang.org/x/term v0.43.0 // indirect
	golang.org/x/tools v0.45.0 // indirect
	gopkg.in/go-jose/go-jose.v2 v2.6.3 // indirect
	gopkg.in/yaml.v2 v2.4.0 // indirect
)

require (
	cel.dev/expr v0.25.1 // indirect
	cloud.google.com/go v0.120.0 // indirect
	cloud.google.com/go/auth v0.16.2 // indirect
	cloud.google.com/go/auth/oauth2adapt v0.2.8 // indirect
	cloud.google.com/go/compute/metadata v0.9.0 // indirect
	cloud.google.com/go/iam v1.5.2 // indirect
	cloud.google.com/go/monitoring v1.24.2 // indirect
	cloud.google.com/go/storage v1.50.0 // indirect
	github.com/Azure/azure-sdk-for-go/sdk/azcore v1.21.0 // indirect
	github.com/Azure/azure-sdk-for-go/sdk/internal v1.11.2 // indirect
	github.com/Azure/azure-sdk-for-go/sdk/storage/azblob v1.6.4 // indirect
	github.com/GoogleCloudPlatform/opentelemetry-operations-go/detectors/gcp v1.32.0 // indirect
	github.com/GoogleCloudPlatform/opentelemetry-operations-go/exporter/metric v0.50.0 // indirect
	github.com/GoogleCloudPlatform/opentelemetry-operations-go/internal/resourcemapping v0.50.0 // indirect
	github.com/aliyun/aliyun-oss-go-sdk v2.2.5+incompatible // indirect
	github.com/anishathalye/porcupine v1.3.0
	github.com/aws/aws-sdk-go-v2 v1.41.5 // indirect
	github.com/aws/aws-sdk-go-v2/aws/protocol/eventstream v1.7.8 // indirect
	github.com/aws/aws-sdk-go-v2/feature/s3/manager v1.17.64 // indirect
	github.com/aws/aws-sdk-go-v2/internal/configsources v1.4.21 // indirect
	github.com/aws/aws-sdk-go-v2/internal/endpoints/v2 v2.7.21 // indirect
	github.com/aws/aws-sdk-go-v2/internal/v4a v1.4.22 // indirect
	github.com/aws/aws-sdk-go-v2/service/dynamodb v1.41.0 // indirect
	github.com/aws/aws-sdk-go-v2/service/internal/accept-encoding v1.13.7 // indirect
	github.com/aws/aws-sdk-go-v2/service/internal/checksum v1.9.13 // indirect
	github.com/aws/aws-sdk-go-v2/service/internal/endpoint-discovery v1.10.15 // indirect
	github.com/aws/aws-sdk-go-v2/service/internal/presigned-url v1.13.21 // indirect
	github.com/aws/aws-sdk-go-v2/service/internal/s3shared v1.19.21 // indirect
	github.com/aws/aws-sdk-go-v2/service/s3 v1.97.3 // indirect
	github.com/aws/smithy-go v1.24.2 // indirect
	github.com/cenkalti/backoff/v4 v4.1.3 // indirect
	github.com/cespare/xxhash/v2 v2.3.0 // indirect
	github.com/cncf/xds/go v0.0.0-20260202195803-dba9d589def2 // indirect
	github.com/dolthub/gozstd v0.0.0-20240423170813-23a2903bca63 // indirect
	github.com/dustin/go-humanize v1.0.1 // indirect
	github.com/edsrzf/mmap-go v1.2.0 // indirect
	github.com/envoyproxy/go-control-plane/envoy v1.37.0 // indirect
	github.com/envoyproxy/protoc-gen-validate v1.3.3 // indirect
	github.com/felixge/httpsnoop v1.0.4 // indirect
	github.com/go-jose/go-jose/v4 v4.1.4 // indirect
	github.com/go-logr/logr v1.4.3 // indirect
	github.com/go-logr/stdr v1.2.2 // indirect
	github.com/gofrs/flock v0.8.1 // indirect
	github.com/golang/snappy v0.0.4 // indirect
	github.com/google/s2a-go v0.1.9 // indirect
	github.com/google/uuid v1.6.0 // indirect
	github.com/googleapis/enterprise-certificate-proxy v0.3.6 // indirect
	github.com/googleapis/gax-go/v2 v2.14.2 // indirect
	github.com/hashicorp/golang-lru/v2 v2.0.2 // indirect
	github.com/juju/gnuflag v0.0.0-20171113085948-2ce1bb71843d // indirect
	github.com/oracle/oci-go-sdk/v65 v65.55.0 // indirect
	github.com/pkg/errors v0.9.1 // indirect
	github.com/sirupsen/logrus v1.8.3
	github.com/sony/gobreaker v0.5.0 // indirect
	github.com/spiffe/go-spiffe/v2 v2.6.0 // indirect
	go.opentelemetry.io/auto/sdk v1.2.1 // indirect
	go.opentelemetry.io/contrib/detectors/gcp v1.43.0 // indirect
	go.opentelemetry.io/contrib/instrumentation/google.golang.org/grpc/otelgrpc v0.61.0 // indirect
	go.opentelemetry.io/contrib/instrumentation/net/http/otelhttp v0.61.0 // indirect
	go.opentelemetry.io/otel v1.43.0 // indirect
	go.opentelemetry.io/otel/metric v1.43.0 // indirect
	go.opentelemetry.io/otel/sdk v1.43.0 // indirect
	go.opentelemetry.io/otel/sdk/metric v1.43.0 // indirect
	go.opentelemetry.io/otel/trace v1.43.0 // indirect
	go.uber.org/multierr v1.10.0 // indirect
	go.uber.org/zap v1.27.0 // indirect
	golang.org/x/crypto v0.52.0 // indirect
	golang.org/x/net v0.55.0 // indirect
	golang.org/x/oauth2 v0.36.0 // indirect
	golang.org/x/sync v0.20.0 // indirect
	golang.org/x/sys v0.45.0 // indirect
	golang.org/x/text v0.37.0 // indirect
	golang.org/x/time v0.12.0 // indirect
	google.golang.org/api v0.241.0 // indirect
	google.golang.org/genproto v0.0.0-20250505200425-f936aa4a68b2 // indirect
	google.golang.org/genproto/googleapis/api v0.0.0-20260414002931-afd174a4e478 // indirect
	google.golang.org/genproto/googleapis/rpc v0.0.0-20260414002931-afd174a4e478 // indirect
	google.golang.org/grpc v1.82.1
	google.golang.org/protobuf v1.36.11
	gopkg.in/src-d/go-errors.v1 v1.0.0 // indirect
)

replace github.com/dolthub/dolt/go => /repo/go
