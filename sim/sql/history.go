package sqlh

import (
	"context"
	"encoding/json"
	"fmt"
	"sort"
	"strconv"
	"strings"
	"testing"

	"dsim/core"
	"dsim/simos"
	dstore "dsim/store"
)

// C33 — historical reads return the committed data. Two branches are edited (rows, added and
// dropped column, rename, drop and re-create of the table); every dolt commit records what the
// table held; later - after more commits, tags, branches created from old commits, uncommitted
// changes, dolt_gc and clean restarts - each recorded commit is read back AS OF its hash, a tag or a
// branch pointing at it, through the revision database name, and through the history table filtered
// to that commit, and must return exactly the recorded rows (or "no such table" where it was absent).

type HIST struct{}

type HistOp struct {
	Kind string `json:"kind"`
	Br   int    `json:"br,omitempty"` // 0 = main, 1 = b1
	PK   int    `json:"pk,omitempty"`
	Val  int    `json:"val,omitempty"`
	Pick int    `json:"pick,omitempty"` // which recorded commit
	Ref  int    `json:"ref,omitempty"`  // 0 hash, 1 tag, 2 branch, 3 ancestor of a live branch (main~2)
	Form int    `json:"form,omitempty"` // 0 AS OF, 1 revision database, 2 history table
}

type HistBody struct {
	Ops []HistOp `json:"ops"`
	// Crash: the run ends with one more dolt_commit that the server does not survive (crash images
	// at the structural file-system events of the statement and after it, crash.go).
	Crash bool      `json:"crash,omitempty"`
	Only  *SQLCrash `json:"only,omitempty"`
}

func (HIST) Generate(seed uint64, tier string) *core.Scenario {
	r := core.NewRand(seed)
	var b HistBody
	n := r.Range(30, 90)
	if tier == "thorough" && r.Chance(1, 3) {
		n = r.Range(80, 200)
	}
	for len(b.Ops) < n {
		br := r.Intn(2)
		switch x := r.Intn(100); {
		case x < 18:
			b.Ops = append(b.Ops, HistOp{Kind: "ins", Br: br, PK: r.Intn(8), Val: r.Intn(50)})
		case x < 26:
			b.Ops = append(b.Ops, HistOp{Kind: "upd", Br: br, PK: r.Intn(8), Val: r.Intn(50)})
		case x < 32:
			b.Ops = append(b.Ops, HistOp{Kind: "del", Br: br, PK: r.Intn(8)})
		case x < 36:
			b.Ops = append(b.Ops, HistOp{Kind: "addcol", Br: br})
		case x < 39:
			b.Ops = append(b.Ops, HistOp{Kind: "dropcol", Br: br})
		case x < 42:
			b.Ops = append(b.Ops, HistOp{Kind: "rename", Br: br})
		case x < 44:
			b.Ops = append(b.Ops, HistOp{Kind: "droptable", Br: br})
		case x < 47:
			b.Ops = append(b.Ops, HistOp{Kind: "createtable", Br: br})
		case x < 62:
			b.Ops = append(b.Ops, HistOp{Kind: "dcommit", Br: br})
		case x < 66:
			tg := HistOp{Kind: "tag", Pick: r.Intn(1000)}
			if r.Chance(1, 3) {
				tg.Kind, tg.Val = "retag", r.Intn(1000) // an existing tag is deleted and made again on another commit
			}
			b.Ops = append(b.Ops, tg)
		case x < 69:
			b.Ops = append(b.Ops, HistOp{Kind: "branch", Pick: r.Intn(1000)})
		case x < 72:
			b.Ops = append(b.Ops, HistOp{Kind: "gc"})
		case x < 74:
			b.Ops = append(b.Ops, HistOp{Kind: "restart"})
		default:
			rd := HistOp{Kind: "read", Br: br, Pick: r.Intn(1000), Ref: r.Intn(4), Form: r.Intn(3)}
			if rd.Ref == 3 && r.Chance(1, 2) {
				rd.Form = 1 // ancestor names mostly through the revision database name
			}
			b.Ops = append(b.Ops, rd)
		}
	}
	b.Crash = r.Chance(1, 3)
	raw, _ := json.Marshal(b)
	return &core.Scenario{Property: "C33", Harness: "C33", Seed: seed, Tier: tier, Body: raw}
}

type hstate struct {
	exists bool
	name   string // kv | kv2
	hasD   bool
	rows   map[int][3]string // pk -> a, c, d
}

func (s hstate) clone() hstate {
	c := s
	c.rows = map[int][3]string{}
	for k, v := range s.rows {
		c.rows[k] = v
	}
	return c
}

func (s hstate) render(withD bool) string {
	var ls []string
	for pk, r := range s.rows {
		l := fmt.Sprintf("%d|%s|%s", pk, r[0], r[1])
		if withD {
			l += "|" + r[2]
		}
		ls = append(ls, l)
	}
	sort.Strings(ls)
	return strings.Join(ls, "\n")
}

type hcommit struct {
	hash   string
	branch int
	st     hstate
	tags   []string
	heads  []string // branches created at this commit (never moved afterwards)
}

func (HIST) Execute(t *testing.T, sc *core.Scenario) *core.Result {
	res := &core.Result{}
	var b HistBody
	if err := json.Unmarshal(sc.Body, &b); err != nil {
		res.Panic = "bad scenario body: " + err.Error()
		return res
	}
	ctx := context.Background()
	root := dstore.NewScratch("sqlhist")
	sos, err := simos.New(root)
	if err != nil {
		res.Panic = err.Error()
		return res
	}
	defer simos.RemoveTree(root)
	sos.Install()
	defer simos.Uninstall()
	w, err := NewWorld(ctx, root)
	if err != nil {
		res.Panic = "world: " + err.Error()
		return res
	}
	defer w.Close()
	setup, err := w.NewSession(ctx, true)
	if err != nil {
		res.Panic = err.Error()
		return res
	}
	const createKV = "CREATE TABLE kv (pk INT PRIMARY KEY, a INT, c VARCHAR(16))"
	var commits []*hcommit
	first, err := setup.Exec(ctx, createKV)
	_ = first
	if err == nil {
		var rows [][]string
		if rows, err = setup.Exec(ctx, "CALL dolt_commit('-Am', 'schema')"); err == nil {
			commits = append(commits, &hcommit{hash: rows[0][0], branch: 0, st: hstate{exists: true, name: "kv", rows: map[int][3]string{}}})
			err = setup.MustExec(ctx, "CALL dolt_branch('b1')")
		}
	}
	if err != nil {
		res.Panic = "setup: " + err.Error()
		return res
	}
	wk := [2]hstate{commits[0].st.clone(), commits[0].st.clone()}
	var ss [2]*Sess
	open := func() bool {
		for i, br := range []string{"main", "b1"} {
			s, err := w.NewSession(ctx, true)
			if err == nil && i == 1 {
				err = s.MustExec(ctx, "CALL dolt_checkout('"+br+"')")
			}
			if err != nil {
				res.Panic = "sessions: " + err.Error()
				return false
			}
			ss[i] = s
		}
		return true
	}
	if !open() {
		return res
	}
	sig := core.NewSig()
	nTags, nHeads, afterGC, schemaVariants := 0, 0, 0, 0
	gcDone := false
	for step, op := range b.Ops {
		sig.Add(op.Kind, strconv.Itoa(op.Br), strconv.Itoa(op.Form))
		s := ss[op.Br]
		st := &wk[op.Br]
		switch op.Kind {
		case "ins":
			if !st.exists {
				continue
			}
			if _, err := s.Exec(ctx, fmt.Sprintf("INSERT INTO %s (pk, a, c) VALUES (%d, %d, 'v%d')", st.name, op.PK, op.Val, step)); err == nil {
				st.rows[op.PK] = [3]string{strconv.Itoa(op.Val), fmt.Sprintf("v%d", step), "NULL"}
			}
		case "upd":
			if !st.exists {
				continue
			}
			col, idx := "a", 0
			if st.hasD && op.Val%2 == 1 {
				col, idx = "d", 2
			}
			if _, err := s.Exec(ctx, fmt.Sprintf("UPDATE %s SET %s = %d WHERE pk = %d", st.name, col, op.Val, op.PK)); err == nil {
				if r, ok := st.rows[op.PK]; ok {
					r[idx] = strconv.Itoa(op.Val)
					st.rows[op.PK] = r
				}
			}
		case "del":
			if !st.exists {
				continue
			}
			if _, err := s.Exec(ctx, fmt.Sprintf("DELETE FROM %s WHERE pk = %d", st.name, op.PK)); err == nil {
				delete(st.rows, op.PK)
			}
		case "addcol":
			if !st.exists || st.hasD {
				continue
			}
			if _, err := s.Exec(ctx, "ALTER TABLE "+st.name+" ADD COLUMN d INT"); err == nil {
				st.hasD = true
				for k, r := range st.rows {
					r[2] = "NULL"
					st.rows[k] = r
				}
				res.Fault("add-column")
			}
		case "dropcol":
			if !st.exists || !st.hasD {
				continue
			}
			if _, err := s.Exec(ctx, "ALTER TABLE "+st.name+" DROP COLUMN d"); err == nil {
				st.hasD = false
				res.Fault("drop-column")
			}
		case "rename":
			if !st.exists {
				continue
			}
			to := map[string]string{"kv": "kv2", "kv2": "kv"}[st.name]
			if _, err := s.Exec(ctx, "RENAME TABLE "+st.name+" TO "+to); err == nil {
				st.name = to
				res.Fault("rename-table")
			}
		case "droptable":
			if !st.exists {
				continue
			}
			if _, err := s.Exec(ctx, "DROP TABLE "+st.name); err == nil {
				*st = hstate{rows: map[int][3]string{}}
				res.Fault("drop-table")
			}
		case "createtable":
			if st.exists {
				continue
			}
			if _, err := s.Exec(ctx, createKV); err == nil {
				*st = hstate{exists: true, name: "kv", rows: map[int][3]string{}}
			}
		case "dcommit":
			rows, err := s.Exec(ctx, fmt.Sprintf("CALL dolt_commit('-Am', 'commit at step %d')", step))
			if err == nil && len(rows) == 1 {
				commits = append(commits, &hcommit{hash: rows[0][0], branch: op.Br, st: st.clone()})
				res.Probe("commits")
			}
		case "tag":
			c := commits[op.Pick%len(commits)]
			name := fmt.Sprintf("t%d", nTags)
			if _, err := ss[0].Exec(ctx, fmt.Sprintf("CALL dolt_tag('%s', '%s')", name, c.hash)); err == nil {
				c.tags = append(c.tags, name)
				nTags++
			}
		case "retag":
			// the same name, another commit: whoever resolved the name before must not keep the old answer
			var holders []*hcommit
			for _, x := range commits {
				if len(x.tags) > 0 {
					holders = append(holders, x)
				}
			}
			if len(holders) == 0 {
				continue
			}
			from := holders[op.Val%len(holders)]
			name := from.tags[op.Val%len(from.tags)]
			to := commits[op.Pick%len(commits)]
			if to == from {
				continue
			}
			if _, err := ss[0].Exec(ctx, fmt.Sprintf("CALL dolt_tag('-d', '%s')", name)); err != nil {
				res.Probe("tag_delete_refused")
				continue
			}
			var keep []string
			for _, t := range from.tags {
				if t != name {
					keep = append(keep, t)
				}
			}
			from.tags = keep
			if _, err := ss[0].Exec(ctx, fmt.Sprintf("CALL dolt_tag('%s', '%s')", name, to.hash)); err == nil {
				to.tags = append(to.tags, name)
				res.Probe("tag_moved")
			}
		case "branch":
			c := commits[op.Pick%len(commits)]
			name := fmt.Sprintf("old%d", nHeads)
			if _, err := ss[0].Exec(ctx, fmt.Sprintf("CALL dolt_branch('%s', '%s')", name, c.hash)); err == nil {
				c.heads = append(c.heads, name)
				nHeads++
			}
		case "gc":
			if _, err := ss[0].Exec(ctx, "CALL dolt_gc()"); err == nil {
				res.Fault("gc")
				gcDone = true
			} else {
				res.Probe("gc_error:" + firstLine(err)[:min(50, len(firstLine(err)))])
			}
			// a collection may invalidate open connections: reconnect
			for _, x := range ss {
				x.End()
			}
			w.Sess = nil
			if !open() {
				return res
			}
		case "restart":
			if err := w.Restart(ctx); err != nil {
				res.Panic = "restart: " + err.Error()
				return res
			}
			if !open() {
				return res
			}
			res.Fault("clean-restart")
		case "read":
			c := commits[op.Pick%len(commits)]
			ref, how := c.hash, "hash"
			if op.Ref == 1 && len(c.tags) > 0 {
				ref, how = c.tags[op.Pick%len(c.tags)], "tag"
			} else if op.Ref == 2 && len(c.heads) > 0 {
				ref, how = c.heads[op.Pick%len(c.heads)], "branch"
			} else if op.Ref == 3 {
				// as the 1st..3rd ancestor of the reader's own branch: a name that means another commit
				// every time the branch moves, and that the same session uses again and again
				chain := []*hcommit{commits[0]}
				for _, x := range commits[1:] {
					if x.branch == op.Br {
						chain = append(chain, x)
					}
				}
				k := 1 + op.Pick%3
				if len(chain)-1-k >= 0 {
					c = chain[len(chain)-1-k]
					ref, how = fmt.Sprintf("%s~%d", []string{"main", "b1"}[op.Br], k), "ancestor"
				}
			}
			name := c.st.name
			if !c.st.exists {
				name = "kv" // absent in that commit under any name
			}
			var q, form string
			switch op.Form {
			case 0:
				q, form = fmt.Sprintf("SELECT * FROM %s AS OF '%s'", name, ref), "as-of"
			case 1:
				q, form = fmt.Sprintf("SELECT * FROM `test/%s`.%s", ref, name), "revision-db"
			default:
				// the history table of the reader's branch: only commits of that branch, and only while
				// the table still goes by the name it had in that commit
				if c.branch != op.Br || !wk[op.Br].exists || !c.st.exists || wk[op.Br].name != c.st.name {
					continue
				}
				q, form = fmt.Sprintf("SELECT pk, a, c FROM dolt_history_%s WHERE commit_hash = '%s'", name, c.hash), "history-table"
			}
			got, err := s.Exec(ctx, q)
			res.Evaluations++
			if gcDone {
				afterGC++
			}
			if c.st.hasD || c.st.name != "kv" || !c.st.exists {
				schemaVariants++
			}
			key := "form=" + form + ";ref=" + how
			switch {
			case !c.st.exists:
				if err == nil {
					res.Violate("historical-read-of-absent-table-returned-rows", key, step, "%s returned %d rows although the table did not exist in commit %s", q, len(got), c.hash)
				} else {
					res.Probe("absent_table_refused")
				}
			case err != nil:
				res.Violate("historical-read-failed", key, step, "%s: %s (commit %s held %d rows)", q, firstLine(err), c.hash, len(c.st.rows))
			default:
				want := c.st.render(c.st.hasD && op.Form != 2)
				if op.Form == 2 {
					want = c.st.render(false)
				}
				if rowsKey(got) != want {
					res.Violate("historical-read-differs", key, step, "%s returned\n%s\nbut commit %s (made at branch %d) held\n%s", q, indent(rowsKey(got)), c.hash, c.branch, indent(want))
				} else {
					res.Probe("historical_read_ok:" + form)
					res.Probe("addressed_by:" + how)
				}
			}
		}
		if len(res.Violations) >= 3 {
			break
		}
	}
	if b.Crash && !res.Violated() && res.Panic == "" {
		// one more commit on main, and the server dies in it
		s, st := ss[0], &wk[0]
		ready := true
		if !st.exists {
			if _, err := s.Exec(ctx, createKV); err == nil {
				*st = hstate{exists: true, name: "kv", rows: map[int][3]string{}}
			} else {
				ready = false
			}
		}
		if ready {
			if _, err := s.Exec(ctx, fmt.Sprintf("INSERT INTO %s (pk, a, c) VALUES (900, 9, 'crash')", st.name)); err == nil {
				st.rows[900] = [3]string{"9", "crash", "NULL"}
			} else {
				ready = false
			}
		}
		var before [][]string
		if ready {
			var err error
			if before, err = s.Exec(ctx, "SELECT hashof('HEAD')"); err != nil || len(before) != 1 {
				ready = false
			}
		}
		if ready {
			start := sos.LogLen()
			rows, cerr := s.Exec(ctx, "CALL dolt_commit('-Am', 'the commit the server dies in')")
			end := sos.LogLen()
			acked := cerr == nil && len(rows) == 1
			oldHead, newHead := before[0][0], ""
			if acked {
				newHead = rows[0][0]
			}
			final := st.clone()
			log := append([]simos.Event(nil), sos.Log()...)
			w.Close()
			simos.Uninstall()
			cases := sqlCrashCases(log, start, end, "test", 8, int(sc.Seed%5), b.Only)
			forEachCrashImage(ctx, res, log, sc.Seed, cases, "a dolt_commit", func(w2 *World, c sqlCrashCase, desc string, pin func(*core.Violation)) {
				s2, err := w2.NewSession(ctx, true)
				if err != nil {
					pin(res.Violate("server-unusable-after-crash", "what=session", 0, "%s: %s", desc, firstLine(err)))
					return
				}
				hr, err := s2.Exec(ctx, "SELECT hashof('HEAD')")
				if err != nil || len(hr) != 1 {
					pin(res.Violate("server-unusable-after-crash", "what=head", 0, "%s: %v", desc, err))
					return
				}
				head := hr[0][0]
				st2, _ := s2.Exec(ctx, "SELECT COUNT(*) FROM dolt_status")
				dirty := len(st2) == 1 && st2[0][0] != "0"
				switch {
				case acked && head == newHead:
					res.Probe("recovered_with_the_commit")
					// the commit and its working-set update land together
					if dirty {
						pin(res.Violate("commit-and-working-set-torn-by-crash", "head=new;working-set=old", 0, "%s: HEAD is the new commit %s but the working set still differs from it (dolt_status is not empty)", desc, head))
					}
					got, err := s2.Exec(ctx, "SELECT * FROM "+final.name)
					if err != nil || rowsKey(got) != final.render(final.hasD) {
						pin(res.Violate("historical-read-differs", "form=head-after-crash", 0, "%s: table %s at the recovered HEAD holds\n%s\nthe commit was made of\n%s (%v)", desc, final.name, indent(rowsKey(got)), indent(final.render(final.hasD)), err))
					}
				case head == oldHead && !(c.End && acked):
					res.Probe("recovered_without_the_commit")
					if !dirty {
						pin(res.Violate("commit-and-working-set-torn-by-crash", "head=old;working-set=new", 0, "%s: HEAD is still %s but the working set is clean: the acknowledged INSERT before the commit is gone or the working set was moved without the head", desc, head))
					}
				case head == oldHead:
					pin(res.Violate("acknowledged-commit-lost-in-crash", "variant="+c.Variant.Name, 0, "%s: dolt_commit had returned %s, the recovered HEAD is the old %s", desc, newHead, oldHead))
				default:
					pin(res.Violate("recovered-head-is-neither-before-nor-after-the-commit", "variant="+c.Variant.Name, 0, "%s: HEAD is %s (before: %s, the commit: %q)", desc, head, oldHead, newHead))
				}
				// every commit recorded during the run is still there, with its data
				stride := 1 + len(commits)/6
				for i := int(sc.Seed % uint64(stride)); i < len(commits); i += stride {
					cm := commits[i]
					if !cm.st.exists {
						continue
					}
					q := fmt.Sprintf("SELECT * FROM %s AS OF '%s'", cm.st.name, cm.hash)
					got, err := s2.Exec(ctx, q)
					res.Evaluations++
					if err != nil {
						pin(res.Violate("historical-read-failed", "form=as-of;after=crash", 0, "%s: %s: %s", desc, q, firstLine(err)))
					} else if rowsKey(got) != cm.st.render(cm.st.hasD) {
						pin(res.Violate("historical-read-differs", "form=as-of;after=crash", 0, "%s: %s returned\n%s\nbut the commit held\n%s", desc, q, indent(rowsKey(got)), indent(cm.st.render(cm.st.hasD))))
					} else {
						res.Probe("historical_read_ok:after-crash")
					}
				}
			}, func(c SQLCrash) []byte {
				b2 := b
				b2.Only = &c
				raw, _ := json.Marshal(b2)
				return raw
			})
		}
	}
	res.Ops = len(b.Ops)
	res.LogHash = sig.Sum()
	if len(commits) > 3 {
		res.CaseHashes = append(res.CaseHashes, core.Hash64(sig.Sum(), fmt.Sprint(sc.Seed)))
	} else {
		res.Trivial = 1
	}
	res.ProbeN("reads_after_gc", afterGC)
	res.ProbeN("reads_of_commits_with_other_schema_or_name", schemaVariants)
	res.Sample = map[string]any{"statements": len(b.Ops), "commits": len(commits), "tags": nTags, "branches_at_old_commits": nHeads, "reads_after_gc": afterGC}
	return res
}

func (HIST) Shrinks(sc *core.Scenario) []*core.Scenario {
	var b HistBody
	if json.Unmarshal(sc.Body, &b) != nil {
		return nil
	}
	var out []*core.Scenario
	n := len(b.Ops)
	for w := n / 2; w >= 1; w /= 2 {
		for i := 0; i+w <= n; i += w {
			nb := b
			nb.Ops = append(append([]HistOp(nil), b.Ops[:i]...), b.Ops[i+w:]...)
			raw, _ := json.Marshal(nb)
			c := *sc
			c.Body = raw
			out = append(out, &c)
		}
		if len(out) > 150 {
			break
		}
	}
	return out
}
