package sqlh

import (
	"context"
	"fmt"
	"os"
	"path/filepath"
	"strings"

	"dsim/core"
	"dsim/simos"
	dstore "dsim/store"

	"github.com/dolthub/dolt/go/libraries/doltcore/dbfactory"
	"github.com/dolthub/dolt/go/libraries/doltcore/doltdb"
	"github.com/dolthub/dolt/go/libraries/doltcore/env"
	"github.com/dolthub/dolt/go/libraries/utils/filesys"
)

// Crash images for the SQL harnesses: the server process dies at a file-system event inside a
// statement; the directory tree as the simulated disk would hold it (persistence model of simos) is
// materialised somewhere else and a fresh engine is started on it - the real recovery path of the
// journal, the manifest and the engine's start-up.

// SQLCrash names one crash image: the ordinal of a structural event of the statement (create, rename,
// unlink, fsync, journal / manifest write), before or after it, or the end of the statement, and the
// persistence variant.
type SQLCrash struct {
	Ord     int           `json:"ord"`
	Before  bool          `json:"before,omitempty"`
	End     bool          `json:"end,omitempty"` // the statement had returned
	Variant simos.Variant `json:"variant"`
}

type sqlCrashCase struct {
	SQLCrash
	pos int
}

var sqlCrashVariants = []simos.Variant{
	{Name: "lose-all-unsynced", Dirs: "durable", Default: simos.FileVariant{Mode: "durable"}},
	{Name: "keep-all", Dirs: "all", Default: simos.FileVariant{Mode: "all"}},
	{Name: "names-only", Dirs: "all", Default: simos.FileVariant{Mode: "durable"}},
}

// sqlCrashCases lists the crash images of the statement whose events are log[start:end]; at most max
// of the in-statement ones are kept (evenly spread, rotated by salt), the end-of-statement ones always.
func sqlCrashCases(log []simos.Event, start, end int, underRel string, max, salt int, only *SQLCrash) []sqlCrashCase {
	under := func(p string) bool { return p == underRel || strings.HasPrefix(p, underRel+"/") }
	var mid []sqlCrashCase
	ord := 0
	for i := start; i < end && i < len(log); i++ {
		e := &log[i]
		if e.Kind == simos.EvMarker || e.Kind == simos.EvFault || !(under(e.Path) || under(e.Path2)) {
			continue
		}
		if e.Kind == simos.EvWrite {
			fc := dstore.FileClass(e.Path, "")
			if fc != "manifest" && fc != "temp-manifest" && fc != "journal" {
				continue
			}
		}
		for _, v := range sqlCrashVariants {
			mid = append(mid, sqlCrashCase{SQLCrash{Ord: ord, Before: true, Variant: v}, i}, sqlCrashCase{SQLCrash{Ord: ord, Variant: v}, i + 1})
		}
		ord++
	}
	var out []sqlCrashCase
	if only != nil {
		if only.End {
			return []sqlCrashCase{{*only, end}}
		}
		for _, c := range mid {
			if c.Ord == only.Ord && c.Before == only.Before && c.Variant.Name == only.Variant.Name {
				return []sqlCrashCase{c}
			}
		}
		return nil
	}
	if len(mid) > max {
		stride := (len(mid) + max - 1) / max
		off := salt % stride
		for i, c := range mid {
			if i%stride == off {
				out = append(out, c)
			}
		}
	} else {
		out = mid
	}
	for _, v := range sqlCrashVariants {
		out = append(out, sqlCrashCase{SQLCrash{End: true, Variant: v}, end})
	}
	return out
}

// crashImagesMayLackRootDB: the harness drops databases, the root database of the server directory
// among them; an image without it is a legal one (the server then runs on the nested databases).
var crashImagesMayLackRootDB bool

// OpenWorld starts an engine on an existing server directory (a materialised crash image).
func OpenWorld(ctx context.Context, root string) (*World, error) {
	w := &World{Root: root, nextCon: 1}
	os.Setenv("DOLT_ROOT_PATH", root)
	var dEnv *env.DoltEnv
	if crashImagesMayLackRootDB {
		fs, err := filesys.LocalFilesysWithWorkingDir(root)
		if err == nil {
			fs, err = fs.WithWorkingDir("test")
		}
		if err != nil {
			return nil, err
		}
		dEnv = env.Load(ctx, homeFunc(root), fs, doltdb.LocalDirDoltDB, "test")
		if dEnv.DBLoadError != nil && dEnv.HasDoltDataDir() {
			return nil, fmt.Errorf("loading the database: %w", dEnv.DBLoadError)
		}
	} else {
		var err error
		if dEnv, err = loadEnv(ctx, root, false); err != nil {
			return nil, err
		}
	}
	w.Env = dEnv
	if err := w.startEngine(ctx); err != nil {
		dbfactory.CloseAllLocalDatabases()
		return nil, err
	}
	return w, nil
}

// forEachCrashImage materialises the image of every case and calls check with an engine running on
// it. The caller must have closed its own world (one engine at a time) and removed the OS hooks.
func forEachCrashImage(ctx context.Context, res *core.Result, log []simos.Event, seed uint64, cases []sqlCrashCase, what string,
	check func(w2 *World, c sqlCrashCase, desc string, pin func(*core.Violation)), pinBody func(c SQLCrash) []byte) {
	imgRoot := dstore.NewScratch("sqlimg")
	os.Mkdir(imgRoot, 0o755)
	defer simos.RemoveTree(imgRoot)
	seen := map[string]bool{}
	m := simos.Replay(log, 0)
	at := 0
	for ci, c := range cases {
		if c.pos < at {
			m = simos.Replay(log, 0)
			at = 0
		}
		for at < c.pos && at < len(log) {
			m.Apply(&log[at])
			at++
		}
		img := m.Build(c.Variant, seed)
		ih := dstore.ImageHash(img)
		if seen[ih] && len(cases) > 1 {
			continue
		}
		seen[ih] = true
		dir := filepath.Join(imgRoot, fmt.Sprintf("i%d", ci))
		if err := img.Materialize(dir); err != nil {
			res.Panic = "materialising a crash image: " + err.Error()
			return
		}
		where := fmt.Sprintf("after structural event %d", c.Ord)
		if c.Before {
			where = fmt.Sprintf("before structural event %d", c.Ord)
		}
		if c.End {
			where = "after the statement had returned"
		}
		desc := fmt.Sprintf("crash %s of %s (%s)", where, what, c.Variant.Name)
		pin := func(v *core.Violation) {
			if v != nil && pinBody != nil {
				v.Pinned = pinBody(c.SQLCrash)
			}
		}
		res.Evaluations++
		res.Fault("crash:" + c.Variant.Name)
		w2, err := OpenWorld(ctx, dir)
		if err != nil {
			pin(res.Violate("server-does-not-start-after-crash", "variant="+c.Variant.Name, ci, "%s: the server does not come up again: %s", desc, firstLine(err)))
		} else {
			check(w2, c, desc, pin)
			w2.Close()
		}
		simos.RemoveTree(dir)
		if res.Violated() || res.Panic != "" {
			return
		}
	}
}
