package sqlh

import (
	"context"
	"encoding/json"
	"fmt"
	"strings"
	"testing"

	"dsim/core"
	"dsim/simos"
	dstore "dsim/store"
)

// C47 — a dropped database can be restored intact until it is purged. Databases (the root database
// of the server directory and nested ones) are created, filled with tables, commits, branches,
// tags, staged and unstaged changes, dropped, re-created under the same name, undropped (also with
// another letter case), purged, with clean restarts in between. A logical fingerprint (branches,
// tags, commit logs, every table of every branch's working set, dolt_status) taken just before
// DROP DATABASE must be what dolt_undrop brings back; an undrop onto a live name must fail and
// leave the live database untouched; after a purge nothing may come back.

type UND struct{}

type UndOp struct {
	Kind string `json:"kind"` // create | fill | drop | undrop | purge | restart
	DB   int    `json:"db"`
	N    int    `json:"n,omitempty"`
	Case int    `json:"case,omitempty"`
}

type UndBody struct {
	Ops []UndOp `json:"ops"`
}

var undNames = []string{"test", "d1", "d2"}

func (UND) Generate(seed uint64, tier string) *core.Scenario {
	r := core.NewRand(seed)
	var b UndBody
	n := r.Range(12, 40)
	if tier == "thorough" && r.Chance(1, 3) {
		n = r.Range(40, 90)
	}
	for len(b.Ops) < n {
		db := r.Intn(3)
		switch x := r.Intn(100); {
		case x < 14:
			// the directory a database gets keeps the spelling of its CREATE: sometimes another letter case
			// than the one it (or a dropped namesake) had before
			b.Ops = append(b.Ops, UndOp{Kind: "create", DB: db, Case: []int{0, 0, 1, 2}[r.Intn(4)]})
		case x < 50:
			b.Ops = append(b.Ops, UndOp{Kind: "fill", DB: db, N: r.Intn(1000)})
		case x < 68:
			b.Ops = append(b.Ops, UndOp{Kind: "drop", DB: db})
		case x < 90:
			b.Ops = append(b.Ops, UndOp{Kind: "undrop", DB: db, Case: r.Intn(3)})
		case x < 94:
			b.Ops = append(b.Ops, UndOp{Kind: "purge"})
		default:
			b.Ops = append(b.Ops, UndOp{Kind: "restart"})
		}
	}
	raw, _ := json.Marshal(b)
	return &core.Scenario{Property: "C47", Harness: "C47", Seed: seed, Tier: tier, Body: raw}
}

// fingerprint renders everything a user can see of database db.
func fingerprint(ctx context.Context, s *Sess, db string) (string, error) {
	var sb strings.Builder
	q := func(label, query string) ([][]string, error) {
		rows, err := s.Exec(ctx, query)
		if err != nil {
			return nil, fmt.Errorf("%s: %w", query, err)
		}
		sb.WriteString("## " + label + "\n" + rowsKey(rows) + "\n")
		return rows, nil
	}
	branches, err := q("branches", fmt.Sprintf("SELECT name, hash FROM `%s`.dolt_branches", db))
	if err != nil {
		return "", err
	}
	if _, err := q("tags", fmt.Sprintf("SELECT tag_name, tag_hash FROM `%s`.dolt_tags", db)); err != nil {
		return "", err
	}
	for _, br := range branches {
		rdb := db + "/" + br[0]
		if _, err := q("log "+br[0], fmt.Sprintf("SELECT commit_hash, message FROM `%s`.dolt_log", rdb)); err != nil {
			return "", err
		}
		if _, err := q("status "+br[0], fmt.Sprintf("SELECT table_name, staged, status FROM `%s`.dolt_status", rdb)); err != nil {
			return "", err
		}
		tables, err := q("tables "+br[0], fmt.Sprintf("SHOW TABLES FROM `%s`", rdb))
		if err != nil {
			return "", err
		}
		for _, t := range tables {
			if _, err := q("rows "+br[0]+"."+t[0], fmt.Sprintf("SELECT * FROM `%s`.`%s`", rdb, t[0])); err != nil {
				return "", err
			}
		}
	}
	return sb.String(), nil
}

func (UND) Execute(t *testing.T, sc *core.Scenario) *core.Result {
	res := &core.Result{}
	var b UndBody
	if err := json.Unmarshal(sc.Body, &b); err != nil {
		res.Panic = "bad scenario body: " + err.Error()
		return res
	}
	ctx := context.Background()
	root := dstore.NewScratch("sqlund")
	sos, err := simos.New(root)
	if err != nil {
		res.Panic = err.Error()
		return res
	}
	defer simos.RemoveTree(root)
	sos.Install()
	defer simos.Uninstall()
	w, err := NewWorld(ctx, root)
	if err != nil {
		res.Panic = "world: " + err.Error()
		return res
	}
	defer w.Close()
	live := map[string]bool{"test": true}
	dropped := map[string]string{} // name -> fingerprint of the most recently dropped database of that name
	sig := core.NewSig()
	restored := 0
	sess := func() *Sess {
		s, err := w.NewSessionNoDB(ctx)
		if err != nil {
			res.Panic = "session: " + err.Error()
			return nil
		}
		return s
	}
	for step, op := range b.Ops {
		name := undNames[op.DB]
		sig.Add(op.Kind, name)
		s := sess()
		if s == nil {
			return res
		}
		switch op.Kind {
		case "restart":
			if err := w.RestartAnyDB(ctx); err != nil {
				res.Panic = "restart: " + err.Error()
				return res
			}
			res.Fault("clean-restart")
			// what was live stays live, what was dropped stays restorable: checked by later steps
		case "create":
			spelled := name
			switch op.Case {
			case 1:
				spelled = strings.ToUpper(name)
			case 2:
				spelled = strings.ToUpper(name[:1]) + name[1:]
			}
			if spelled != name {
				res.Probe("created_with_other_letter_case")
			}
			_, err := s.Exec(ctx, "CREATE DATABASE `"+spelled+"`")
			if err == nil {
				if live[name] {
					res.Violate("create-over-live-database", "-", step, "CREATE DATABASE %s succeeded although it exists", name)
				}
				live[name] = true
				res.Probe("created")
			}
		case "fill":
			if !live[name] {
				continue
			}
			if err := s.MustExec(ctx, "USE `"+name+"`"); err != nil {
				res.Probe("use_failed")
				continue
			}
			k := op.N
			stmts := [][]string{
				{fmt.Sprintf("CREATE TABLE IF NOT EXISTS t%d (pk INT PRIMARY KEY, v VARCHAR(20))", k%3), fmt.Sprintf("INSERT IGNORE INTO t%d VALUES (%d, 'v%d')", k%3, k%7, step)},
				{fmt.Sprintf("CALL dolt_commit('-Am', 'step %d')", step)},
				{fmt.Sprintf("CALL dolt_branch('b%d')", k%3)},
				{fmt.Sprintf("CALL dolt_tag('tag%d')", k%4)},
				{fmt.Sprintf("CALL dolt_checkout('b%d')", k%3), fmt.Sprintf("CREATE TABLE IF NOT EXISTS u (pk INT PRIMARY KEY)"), fmt.Sprintf("INSERT IGNORE INTO u VALUES (%d)", step)},
				{"CALL dolt_add('-A')"},
				{fmt.Sprintf("CREATE TABLE IF NOT EXISTS t%d (pk INT PRIMARY KEY, v VARCHAR(20))", k%3), fmt.Sprintf("REPLACE INTO t%d VALUES (%d, 'w%d')", k%3, k%5, step)},
			}[k%7]
			for _, q := range stmts {
				if _, err := s.Exec(ctx, q); err != nil {
					res.Probe("fill_statement_refused")
				}
			}
		case "drop":
			if !live[name] {
				continue
			}
			fp, err := fingerprint(ctx, s, name)
			if err != nil {
				res.Violate("fingerprint-failed", "when=before-drop", step, "%s", firstLine(err))
				continue
			}
			if _, err := s.Exec(ctx, "DROP DATABASE `"+name+"`"); err != nil {
				res.Probe("drop_refused:" + firstLine(err)[:min(50, len(firstLine(err)))])
				continue
			}
			delete(live, name)
			dropped[name] = fp
			res.Fault("drop-database")
			if _, err := s.Exec(ctx, fmt.Sprintf("SELECT name FROM `%s`.dolt_branches", name)); err == nil {
				res.Violate("dropped-database-still-visible", "-", step, "database %s answers queries after DROP DATABASE", name)
			}
		case "undrop":
			arg := name
			switch op.Case {
			case 1:
				arg = strings.ToUpper(name)
			case 2:
				arg = strings.ToUpper(name[:1]) + name[1:]
			}
			var before string
			if live[name] {
				if before, err = fingerprint(ctx, s, name); err != nil {
					res.Violate("fingerprint-failed", "when=before-undrop", step, "%s", firstLine(err))
					continue
				}
			}
			_, uerr := s.Exec(ctx, "CALL dolt_undrop('"+arg+"')")
			fp, inTrash := dropped[name]
			res.Evaluations++
			switch {
			case live[name]:
				// never overwrite an existing database of the same name
				if uerr == nil {
					res.Violate("undrop-onto-live-database-succeeded", "-", step, "dolt_undrop('%s') succeeded although database %s exists", arg, name)
				}
				s2 := sess()
				after, err := fingerprint(ctx, s2, name)
				if err != nil || after != before {
					res.Violate("live-database-changed-by-undrop", "-", step, "database %s differs after a refused dolt_undrop('%s'):\nbefore:\n%s\nafter (%v):\n%s", name, arg, indent(before), err, indent(after))
				} else {
					res.Fault("undrop-refused-name-in-use")
				}
			case inTrash:
				if uerr != nil {
					res.Violate("undrop-failed", "-", step, "dolt_undrop('%s') failed although %s was dropped and not purged: %s", arg, name, firstLine(uerr))
					continue
				}
				live[name] = true
				delete(dropped, name)
				s2 := sess()
				after, err := fingerprint(ctx, s2, name)
				if err != nil {
					res.Violate("restored-database-unreadable", "-", step, "after dolt_undrop('%s'): %s", arg, firstLine(err))
				} else if after != fp {
					res.Violate("restored-database-differs", "-", step, "database %s after dolt_undrop('%s') differs from what it held before DROP DATABASE:\nbefore:\n%s\nafter:\n%s", name, arg, indent(fp), indent(after))
				} else {
					restored++
					res.Fault("undrop-restored")
				}
			default:
				if uerr == nil {
					// an older dropped copy of that name may legitimately exist under a suffixed name
					// only; the plain name must not resolve
					res.Violate("undrop-of-nothing-succeeded", "-", step, "dolt_undrop('%s') succeeded although no dropped database of that name is left", arg)
					live[name] = true
				} else {
					res.Probe("undrop_nothing_refused")
				}
			}
		case "purge":
			if _, err := s.Exec(ctx, "CALL dolt_purge_dropped_databases()"); err == nil {
				dropped = map[string]string{}
				res.Fault("purge")
			} else {
				res.Probe("purge_refused:" + firstLine(err)[:min(50, len(firstLine(err)))])
			}
		}
		s.End()
		if len(res.Violations) >= 3 {
			break
		}
	}
	res.Ops = len(b.Ops)
	res.LogHash = sig.Sum()
	if restored > 0 {
		res.CaseHashes = append(res.CaseHashes, core.Hash64(sig.Sum(), fmt.Sprint(sc.Seed)))
	} else {
		res.Trivial = 1
	}
	res.ProbeN("restored_and_compared", restored)
	res.Sample = map[string]any{"steps": len(b.Ops), "restored_and_compared": restored}
	return res
}

func (UND) Shrinks(sc *core.Scenario) []*core.Scenario {
	var b UndBody
	if json.Unmarshal(sc.Body, &b) != nil {
		return nil
	}
	var out []*core.Scenario
	n := len(b.Ops)
	for w := n / 2; w >= 1; w /= 2 {
		for i := 0; i+w <= n; i += w {
			nb := b
			nb.Ops = append(append([]UndOp(nil), b.Ops[:i]...), b.Ops[i+w:]...)
			raw, _ := json.Marshal(nb)
			c := *sc
			c.Body = raw
			out = append(out, &c)
		}
		if len(out) > 150 {
			break
		}
	}
	return out
}
