package sqlh

import (
	"context"
	"encoding/json"
	"fmt"
	"os"
	"sort"
	"strings"
	"testing"
	"time"

	"dsim/core"
	"dsim/simos"
	dstore "dsim/store"
)

// C47 — a dropped database can be restored intact until it is purged. Databases (the root database
// of the server directory and nested ones) are created, filled with tables, commits, branches,
// tags, staged and unstaged changes, dropped, re-created under the same name, undropped (also with
// another letter case), purged, with clean restarts in between. A logical fingerprint (branches,
// tags, commit logs, every table of every branch's working set, dolt_status) taken just before
// DROP DATABASE must be what dolt_undrop brings back; an undrop onto a live name must fail and
// leave the live database untouched; after a purge nothing may come back.

type UND struct{}

type UndOp struct {
	Kind string `json:"kind"` // create | fill | drop | undrop | purge | restart
	DB   int    `json:"db"`
	N    int    `json:"n,omitempty"`
	Case int    `json:"case,omitempty"`
}

type UndBody struct {
	Ops []UndOp `json:"ops"`
	// Crash: the run ends with one more DROP DATABASE (or, when nothing is live, dolt_undrop) that the
	// server does not survive: on every crash image the database is either still there or can be
	// brought back by dolt_undrop, with the fingerprint it had; the other databases are untouched
	Crash bool      `json:"crash,omitempty"`
	Only  *SQLCrash `json:"only,omitempty"`
}

var undNames = []string{"test", "d1", "d2"}

func (UND) Generate(seed uint64, tier string) *core.Scenario {
	r := core.NewRand(seed)
	var b UndBody
	n := r.Range(12, 40)
	if tier == "thorough" && r.Chance(1, 3) {
		n = r.Range(40, 90)
	}
	for len(b.Ops) < n {
		db := r.Intn(3)
		switch x := r.Intn(100); {
		case x < 14:
			// the directory a database gets keeps the spelling of its CREATE: sometimes another letter case
			// than the one it (or a dropped namesake) had before
			b.Ops = append(b.Ops, UndOp{Kind: "create", DB: db, Case: []int{0, 0, 1, 2}[r.Intn(4)]})
		case x < 50:
			b.Ops = append(b.Ops, UndOp{Kind: "fill", DB: db, N: r.Intn(1000)})
		case x < 68:
			b.Ops = append(b.Ops, UndOp{Kind: "drop", DB: db})
		case x < 90:
			b.Ops = append(b.Ops, UndOp{Kind: "undrop", DB: db, Case: r.Intn(3)})
		case x < 94:
			b.Ops = append(b.Ops, UndOp{Kind: "purge"})
		default:
			b.Ops = append(b.Ops, UndOp{Kind: "restart"})
		}
	}
	b.Crash = r.Chance(1, 2)
	raw, _ := json.Marshal(b)
	return &core.Scenario{Property: "C47", Harness: "C47", Seed: seed, Tier: tier, Body: raw}
}

// fingerprint renders everything a user can see of database db.
func fingerprint(ctx context.Context, s *Sess, db string) (string, error) {
	var sb strings.Builder
	q := func(label, query string) ([][]string, error) {
		rows, err := s.Exec(ctx, query)
		if err != nil {
			return nil, fmt.Errorf("%s: %w", query, err)
		}
		sb.WriteString("## " + label + "\n" + rowsKey(rows) + "\n")
		return rows, nil
	}
	branches, err := q("branches", fmt.Sprintf("SELECT name, hash FROM `%s`.dolt_branches", db))
	if err != nil {
		return "", err
	}
	if _, err := q("tags", fmt.Sprintf("SELECT tag_name, tag_hash FROM `%s`.dolt_tags", db)); err != nil {
		return "", err
	}
	for _, br := range branches {
		rdb := db + "/" + br[0]
		if _, err := q("log "+br[0], fmt.Sprintf("SELECT commit_hash, message FROM `%s`.dolt_log", rdb)); err != nil {
			return "", err
		}
		if _, err := q("status "+br[0], fmt.Sprintf("SELECT table_name, staged, status FROM `%s`.dolt_status", rdb)); err != nil {
			return "", err
		}
		tables, err := q("tables "+br[0], fmt.Sprintf("SHOW TABLES FROM `%s`", rdb))
		if err != nil {
			return "", err
		}
		for _, t := range tables {
			if _, err := q("rows "+br[0]+"."+t[0], fmt.Sprintf("SELECT * FROM `%s`.`%s`", rdb, t[0])); err != nil {
				return "", err
			}
		}
	}
	return sb.String(), nil
}

func (UND) Execute(t *testing.T, sc *core.Scenario) *core.Result {
	res := &core.Result{}
	var b UndBody
	if err := json.Unmarshal(sc.Body, &b); err != nil {
		res.Panic = "bad scenario body: " + err.Error()
		return res
	}
	ctx := context.Background()
	root := dstore.NewScratch("sqlund")
	sos, err := simos.New(root)
	if err != nil {
		res.Panic = err.Error()
		return res
	}
	defer simos.RemoveTree(root)
	sos.Install()
	defer simos.Uninstall()
	w, err := NewWorld(ctx, root)
	if err != nil {
		res.Panic = "world: " + err.Error()
		return res
	}
	defer w.Close()
	// live: lower-case name -> the spelling of its directory; dropped: the trash as dolt keeps it, exact
	// spelling -> fingerprint (on a case-sensitive file system "d1" and "D1" lie side by side; a second
	// database of the very same spelling pushes the older one aside under a suffixed name)
	live := map[string]string{"test": "test"}
	dropped := map[string]string{}
	sig := core.NewSig()
	restored := 0
	sess := func() *Sess {
		s, err := w.NewSessionNoDB(ctx)
		if err != nil {
			res.Panic = "session: " + err.Error()
			return nil
		}
		return s
	}
	for step, op := range b.Ops {
		// The simulated clock stands still while the run computes; dolt stamps a dropped database that
		// has to make room for a namesake with the current millisecond (.backup.<ms>), and two of those
		// in one millisecond collide - which no real server does. Let a little time pass per step.
		time.Sleep(3 * time.Millisecond)
		name := undNames[op.DB]
		sig.Add(op.Kind, name)
		s := sess()
		if s == nil {
			return res
		}
		switch op.Kind {
		case "restart":
			if err := w.RestartAnyDB(ctx); err != nil {
				res.Panic = "restart: " + err.Error()
				return res
			}
			res.Fault("clean-restart")
			// what was live stays live, what was dropped stays restorable: checked by later steps
		case "create":
			spelled := name
			switch op.Case {
			case 1:
				spelled = strings.ToUpper(name)
			case 2:
				spelled = strings.ToUpper(name[:1]) + name[1:]
			}
			if spelled != name {
				res.Probe("created_with_other_letter_case")
			}
			_, err := s.Exec(ctx, "CREATE DATABASE `"+spelled+"`")
			if err == nil {
				if live[name] != "" {
					res.Violate("create-over-live-database", "-", step, "CREATE DATABASE %s succeeded although it exists", name)
				}
				live[name] = spelled
				res.Probe("created")
			}
		case "fill":
			if live[name] == "" {
				continue
			}
			if err := s.MustExec(ctx, "USE `"+name+"`"); err != nil {
				res.Probe("use_failed")
				continue
			}
			k := op.N
			stmts := [][]string{
				{fmt.Sprintf("CREATE TABLE IF NOT EXISTS t%d (pk INT PRIMARY KEY, v VARCHAR(20))", k%3), fmt.Sprintf("INSERT IGNORE INTO t%d VALUES (%d, 'v%d')", k%3, k%7, step)},
				{fmt.Sprintf("CALL dolt_commit('-Am', 'step %d')", step)},
				{fmt.Sprintf("CALL dolt_branch('b%d')", k%3)},
				{fmt.Sprintf("CALL dolt_tag('tag%d')", k%4)},
				{fmt.Sprintf("CALL dolt_checkout('b%d')", k%3), fmt.Sprintf("CREATE TABLE IF NOT EXISTS u (pk INT PRIMARY KEY)"), fmt.Sprintf("INSERT IGNORE INTO u VALUES (%d)", step)},
				{"CALL dolt_add('-A')"},
				{fmt.Sprintf("CREATE TABLE IF NOT EXISTS t%d (pk INT PRIMARY KEY, v VARCHAR(20))", k%3), fmt.Sprintf("REPLACE INTO t%d VALUES (%d, 'w%d')", k%3, k%5, step)},
			}[k%7]
			for _, q := range stmts {
				if _, err := s.Exec(ctx, q); err != nil {
					res.Probe("fill_statement_refused")
				}
			}
		case "drop":
			if live[name] == "" {
				continue
			}
			fp, err := fingerprint(ctx, s, name)
			if err != nil {
				res.Violate("fingerprint-failed", "when=before-drop", step, "%s", firstLine(err))
				continue
			}
			if _, err := s.Exec(ctx, "DROP DATABASE `"+name+"`"); err != nil {
				res.Probe("drop_refused:" + firstLine(err)[:min(50, len(firstLine(err)))])
				continue
			}
			if _, side := undCandidates(dropped, live[name]); len(side) > 0 && dropped[live[name]] == "" {
				res.Probe("trash_holds_two_spellings_of_one_name")
			}
			dropped[live[name]] = fp
			delete(live, name)
			res.Fault("drop-database")
			if _, err := s.Exec(ctx, fmt.Sprintf("SELECT name FROM `%s`.dolt_branches", name)); err == nil {
				res.Violate("dropped-database-still-visible", "-", step, "database %s answers queries after DROP DATABASE", name)
			}
		case "undrop":
			arg := name
			switch op.Case {
			case 1:
				arg = strings.ToUpper(name)
			case 2:
				arg = strings.ToUpper(name[:1]) + name[1:]
			}
			var before string
			if live[name] != "" {
				if before, err = fingerprint(ctx, s, name); err != nil {
					res.Violate("fingerprint-failed", "when=before-undrop", step, "%s", firstLine(err))
					continue
				}
			}
			_, uerr := s.Exec(ctx, "CALL dolt_undrop('"+arg+"')")
			// what the call names: the dropped database of exactly that spelling, else the one that differs
			// in letter case only; with several of those and no exact one the choice is dolt's
			exact, cands := undCandidates(dropped, arg)
			res.Evaluations++
			switch {
			case live[name] != "":
				// never overwrite an existing database of the same name
				if uerr == nil {
					res.Violate("undrop-onto-live-database-succeeded", "-", step, "dolt_undrop('%s') succeeded although database %s exists", arg, name)
				}
				s2 := sess()
				after, err := fingerprint(ctx, s2, name)
				if err != nil || after != before {
					res.Violate("live-database-changed-by-undrop", "-", step, "database %s differs after a refused dolt_undrop('%s'):\nbefore:\n%s\nafter (%v):\n%s", name, arg, indent(before), err, indent(after))
				} else {
					res.Fault("undrop-refused-name-in-use")
				}
			case len(cands) > 0:
				if uerr != nil {
					res.Violate("undrop-failed", "-", step, "dolt_undrop('%s') failed although %v was dropped and not purged: %s", arg, cands, firstLine(uerr))
					continue
				}
				s2 := sess()
				after, err := fingerprint(ctx, s2, name)
				if err != nil {
					res.Violate("restored-database-unreadable", "-", step, "after dolt_undrop('%s'): %s", arg, firstLine(err))
					live[name] = cands[0]
					delete(dropped, cands[0])
					continue
				}
				want := cands
				if exact != "" {
					want = []string{exact}
				} else if len(cands) > 1 {
					res.Probe("undrop_name_ambiguous")
				}
				got := ""
				for _, c := range want {
					if dropped[c] == after {
						got = c
						break
					}
				}
				if got == "" {
					res.Violate("restored-database-differs", fmt.Sprintf("exact-spelling-in-trash=%v;spellings=%d", exact != "", len(cands)), step, "database %s after dolt_undrop('%s') differs from what %v held before DROP DATABASE (the trash held %v):\nbefore:\n%s\nafter:\n%s", name, arg, want, cands, indent(dropped[want[0]]), indent(after))
					got = want[0]
				} else {
					restored++
					res.Fault("undrop-restored")
				}
				live[name] = got
				delete(dropped, got)
			default:
				if uerr == nil {
					// an older dropped copy of that name may legitimately exist under a suffixed name
					// only; the plain name must not resolve
					res.Violate("undrop-of-nothing-succeeded", "-", step, "dolt_undrop('%s') succeeded although no dropped database of that name is left", arg)
					live[name] = arg
				} else {
					res.Probe("undrop_nothing_refused")
				}
			}
		case "purge":
			if _, err := s.Exec(ctx, "CALL dolt_purge_dropped_databases()"); err == nil {
				dropped = map[string]string{}
				res.Fault("purge")
			} else {
				res.Probe("purge_refused:" + firstLine(err)[:min(50, len(firstLine(err)))])
			}
		}
		s.End()
		if len(res.Violations) >= 3 {
			break
		}
	}
	if b.Crash && !res.Violated() && res.Panic == "" {
		restored += undCrashPhase(ctx, sc, &b, w, sos, res, live, dropped)
	}
	res.Ops = len(b.Ops)
	res.LogHash = sig.Sum()
	if restored > 0 {
		res.CaseHashes = append(res.CaseHashes, core.Hash64(sig.Sum(), fmt.Sprint(sc.Seed)))
	} else {
		res.Trivial = 1
	}
	res.ProbeN("restored_and_compared", restored)
	res.Sample = map[string]any{"steps": len(b.Ops), "restored_and_compared": restored}
	return res
}

// undCandidates returns the spelling in the trash that equals arg exactly (or "") and all spellings
// that equal it up to letter case, sorted.
func undCandidates(trash map[string]string, arg string) (exact string, all []string) {
	for k := range trash {
		if strings.EqualFold(k, arg) {
			all = append(all, k)
			if k == arg {
				exact = k
			}
		}
	}
	sort.Strings(all)
	return exact, all
}

// undCrashPhase: see UndBody.Crash. Returns the number of restorations compared.
func undCrashPhase(ctx context.Context, sc *core.Scenario, b *UndBody, w *World, sos *simos.OS, res *core.Result, live map[string]string, dropped map[string]string) int {
	s, err := w.NewSessionNoDB(ctx)
	if err != nil {
		return 0
	}
	// what every live database shows now
	want := map[string]string{}
	for _, n := range undNames {
		if live[n] != "" {
			fp, err := fingerprint(ctx, s, n)
			if err != nil {
				res.Violate("fingerprint-failed", "when=before-crash-phase", 0, "%s", firstLine(err))
				return 0
			}
			want[n] = fp
		}
	}
	// the statement the server does not survive: DROP of a live database, else dolt_undrop of a dropped
	// one (whose name is free and names one spelling only)
	target, spelled, stmt, what := "", "", "", ""
	for _, n := range []string{"d1", "d2", "test"} {
		if live[n] != "" {
			target, spelled, stmt, what = n, live[n], "DROP DATABASE `"+n+"`", "DROP DATABASE"
			break
		}
	}
	if target == "" {
		for _, n := range undNames {
			if _, cands := undCandidates(dropped, n); len(cands) == 1 {
				target, spelled, stmt, what = n, cands[0], "CALL dolt_undrop('"+cands[0]+"')", "dolt_undrop"
				want[n] = dropped[cands[0]]
				break
			}
		}
	}
	if target == "" {
		return 0
	}
	// the trash as it will be: the target's spelling aside (it is in flight), everything else stays
	trash := map[string]string{}
	for k, fp := range dropped {
		if k != spelled {
			trash[k] = fp
		}
	}
	start := sos.LogLen()
	_, serr := s.Exec(ctx, stmt)
	end := sos.LogLen()
	if serr != nil {
		res.Probe("crash_phase_statement_refused")
		return 0
	}
	res.Probe("crash_phase:" + what)
	log := append([]simos.Event(nil), sos.Log()...)
	if dbg := os.Getenv("DSIM_DEBUG_C47"); dbg != "" {
		if f, err := os.OpenFile(dbg, os.O_APPEND|os.O_CREATE|os.O_WRONLY, 0o644); err == nil {
			fmt.Fprintf(f, "== %s\n", stmt)
			for i := start; i < end; i++ {
				if e := log[i]; e.Kind != simos.EvWrite {
					fmt.Fprintf(f, "  %d %s %s %s\n", i, e.Kind, e.Path, e.Path2)
				}
			}
			f.Close()
		}
	}
	w.Close()
	simos.Uninstall()
	crashImagesMayLackRootDB = true
	defer func() { crashImagesMayLackRootDB = false }()
	compared := 0
	cases := sqlCrashCases(log, start, end, "test", 10, int(sc.Seed%7), b.Only)
	forEachCrashImage(ctx, res, log, sc.Seed, cases, what+" of "+target, func(w2 *World, c sqlCrashCase, desc string, pin func(*core.Violation)) {
		s2, err := w2.NewSessionNoDB(ctx)
		if err != nil {
			pin(res.Violate("server-unusable-after-crash", "what=session", 0, "%s: %s", desc, firstLine(err)))
			return
		}
		shown := map[string]bool{}
		if rows, err := s2.Exec(ctx, "SHOW DATABASES"); err == nil {
			for _, r := range rows {
				shown[strings.ToLower(r[0])] = true
			}
		}
		for _, n := range undNames {
			fp, ok := want[n]
			if !ok {
				continue
			}
			state := "live"
			if !shown[n] {
				// only the database the interrupted statement was moving may be away, and then it has to
				// come back (under its own spelling: the trash may hold a namesake in another letter case)
				if n != target {
					pin(res.Violate("database-lost-in-crash", "what=bystander;variant="+c.Variant.Name, 0, "%s: database %s, which the statement did not touch, is gone", desc, n))
					return
				}
				state = "undropped"
				if _, uerr := s2.Exec(ctx, "CALL dolt_undrop('"+spelled+"')"); uerr != nil {
					pin(res.Violate("database-lost-in-crash", "what=target;stmt="+what+";variant="+c.Variant.Name, 0, "%s: database %s is neither there nor restorable: dolt_undrop('%s'): %s", desc, n, spelled, firstLine(uerr)))
					return
				}
			}
			s3, err := w2.NewSessionNoDB(ctx)
			if err != nil {
				return
			}
			got, err := fingerprint(ctx, s3, n)
			if err != nil {
				pin(res.Violate("database-unreadable-after-crash", "state="+state+";variant="+c.Variant.Name, 0, "%s: database %s (%s): %s", desc, n, state, firstLine(err)))
				return
			}
			if got != fp {
				pin(res.Violate("database-differs-after-crash", "state="+state+";variant="+c.Variant.Name, 0, "%s: database %s (%s) differs from what it held before:\nbefore:\n%s\nafter:\n%s", desc, n, state, indent(fp), indent(got)))
				return
			}
			if n == target {
				res.Probe("crash_target_" + state)
				compared++
			}
			shown[n] = true
		}
		// what was in the trash before is still restorable, by its exact spelling, when its name is free
		var ks []string
		for k := range trash {
			ks = append(ks, k)
		}
		sort.Strings(ks)
		for _, k := range ks {
			n := strings.ToLower(k)
			if shown[n] {
				continue
			}
			if _, uerr := s2.Exec(ctx, "CALL dolt_undrop('"+k+"')"); uerr != nil {
				pin(res.Violate("dropped-database-lost-in-crash", "variant="+c.Variant.Name, 0, "%s: database %s, dropped earlier and not purged, cannot be restored: %s", desc, k, firstLine(uerr)))
				return
			}
			shown[n] = true
			s3, err := w2.NewSessionNoDB(ctx)
			if err != nil {
				return
			}
			if got, err := fingerprint(ctx, s3, n); err != nil || got != trash[k] {
				pin(res.Violate("database-differs-after-crash", "state=trash;variant="+c.Variant.Name, 0, "%s: database %s restored from the trash differs (%v):\nbefore:\n%s\nafter:\n%s", desc, k, err, indent(trash[k]), indent(got)))
				return
			}
			res.Probe("crash_trash_restored")
		}
	}, func(c SQLCrash) []byte {
		b2 := *b
		b2.Only = &c
		raw, _ := json.Marshal(b2)
		return raw
	})
	return compared
}

func (UND) Shrinks(sc *core.Scenario) []*core.Scenario {
	var b UndBody
	if json.Unmarshal(sc.Body, &b) != nil {
		return nil
	}
	var out []*core.Scenario
	n := len(b.Ops)
	for w := n / 2; w >= 1; w /= 2 {
		for i := 0; i+w <= n; i += w {
			nb := b
			nb.Ops = append(append([]UndOp(nil), b.Ops[:i]...), b.Ops[i+w:]...)
			raw, _ := json.Marshal(nb)
			c := *sc
			c.Body = raw
			out = append(out, &c)
		}
		if len(out) > 150 {
			break
		}
	}
	return out
}
