package sqlh

import (
	"context"
	"encoding/json"
	"fmt"
	"os"
	"path/filepath"
	"sort"
	"strings"
	"testing"

	"dsim/core"
	"dsim/simos"
	dstore "dsim/store"

	"github.com/dolthub/dolt/go/libraries/doltcore/dbfactory"
	"github.com/dolthub/dolt/go/libraries/doltcore/doltdb"
	"github.com/dolthub/dolt/go/libraries/doltcore/doltdb/durable"
	"github.com/dolthub/dolt/go/libraries/doltcore/ref"
	"github.com/dolthub/dolt/go/libraries/doltcore/schema"
	"github.com/dolthub/dolt/go/libraries/doltcore/table/editor/creation"
	"github.com/dolthub/dolt/go/libraries/utils/filesys"
	"github.com/dolthub/dolt/go/store/hash"
	"github.com/dolthub/dolt/go/store/types"
)

// C25, second mode ("vc"): secondary indexes mirror their table after version-control operations.
// Two tables - x with a unique, a plain, a two-column, a prefix and a column-plus-prefix index, and
// the keyless kl with a plain and a prefix index - are edited on two branches; the branches are
// merged (conflicts resolved with --ours / --theirs, or the merge aborted), cherry-picked, reverted
// and rebased, indexes and columns are added and dropped, changes are staged, reset and stashed.
// After every step, for every branch's working root, staged root and head commit (and for an
// unfinished rebase's working branch), every secondary index of every table is rebuilt from the
// table's rows with dolt's own index builder (the one ALTER TABLE ADD INDEX uses) and must have the
// address of the stored index: prolly trees are canonical, equal content means equal address.
// (The builder is called without its uniqueness callback: with it, it leaves out rows whose key
// holds a NULL - see DESIGN §11 - whereas the property wants one entry per row.)

type C25H struct{}

type VCOp struct {
	Kind string `json:"kind"`
	Br   int    `json:"br,omitempty"` // 0 main, 1 b1
	Tbl  int    `json:"tbl,omitempty"`
	PK   int    `json:"pk,omitempty"`
	A    int    `json:"a,omitempty"`
	B    int    `json:"b,omitempty"`
	C    int    `json:"c,omitempty"`
	D    int    `json:"d,omitempty"`
	N    int    `json:"n,omitempty"`
}

type VCBody struct {
	VC  bool   `json:"vc"`
	Ops []VCOp `json:"ops"`
}

func (C25H) Generate(seed uint64, tier string) *core.Scenario {
	r := core.NewRand(seed ^ 0x25c)
	if !r.Chance(1, 3) {
		return TXN{Prop: "C25"}.Generate(seed, tier)
	}
	b := VCBody{VC: true}
	n := r.Range(15, 45)
	if tier == "thorough" && r.Chance(1, 3) {
		n = r.Range(45, 100)
	}
	for len(b.Ops) < n {
		op := VCOp{Br: r.Intn(2), Tbl: r.Intn(3) / 2, PK: r.Intn(10), A: r.Intn(12), B: r.Intn(3), C: r.Intn(6), D: r.Intn(3), N: r.Intn(1000)}
		switch x := r.Intn(100); {
		case x < 22:
			op.Kind = "ins"
		case x < 36:
			op.Kind = "upd"
		case x < 44:
			op.Kind = "del"
		case x < 58:
			op.Kind = "commit"
		case x < 66:
			op.Kind = "merge"
		case x < 72:
			op.Kind = "resolve"
		case x < 74:
			op.Kind = "abort"
		case x < 79:
			op.Kind = "cherrypick"
		case x < 83:
			op.Kind = "revert"
		case x < 86:
			op.Kind = "rebase"
		case x < 90:
			op.Kind = []string{"addidx", "dropidx"}[r.Intn(2)]
		case x < 92:
			op.Kind = []string{"addcol", "dropcol"}[r.Intn(2)]
		case x < 94:
			op.Kind = "stage"
		case x < 96:
			op.Kind = []string{"reset", "stash", "stashpop"}[r.Intn(3)]
		case x < 98:
			op.Kind = "restart"
		default:
			op.Kind = "gc"
		}
		b.Ops = append(b.Ops, op)
	}
	if r.Chance(1, 4) {
		// directed: a row gets a NULL in a column on one branch, the other branch declares a unique key
		// over that column, the two are merged: the merge has to build the unique index from the merged
		// rows - with an entry for the row whose key holds the NULL
		x, y := r.Intn(2), 0
		y = 1 - x
		seq := []VCOp{
			{Kind: "upd", Br: x, PK: r.Intn(3), N: []int{0, 84}[r.Intn(2)]}, // N%7 == 0: NULL; N%4 == 0: column a
			{Kind: "commit", Br: x},
			{Kind: "addidx", Br: y, N: 3}, {Kind: "commit", Br: y},
			{Kind: "merge", Br: r.Intn(2), N: 1},
		}
		at := r.Intn(len(b.Ops) + 1)
		b.Ops = append(b.Ops[:at], append(seq, b.Ops[at:]...)...)
	}
	raw, _ := json.Marshal(b)
	return &core.Scenario{Property: "C25", Harness: "C25", Seed: seed, Tier: tier, Body: raw}
}

func isVC(sc *core.Scenario) bool {
	var probe struct {
		VC bool `json:"vc"`
	}
	return json.Unmarshal(sc.Body, &probe) == nil && probe.VC
}

func (C25H) Shrinks(sc *core.Scenario) []*core.Scenario {
	if !isVC(sc) {
		return TXN{Prop: "C25"}.Shrinks(sc)
	}
	var b VCBody
	if json.Unmarshal(sc.Body, &b) != nil {
		return nil
	}
	var out []*core.Scenario
	n := len(b.Ops)
	for w := n / 2; w >= 1; w /= 2 {
		for i := 0; i+w <= n; i += w {
			nb := b
			nb.Ops = append(append([]VCOp(nil), b.Ops[:i]...), b.Ops[i+w:]...)
			raw, _ := json.Marshal(nb)
			c := *sc
			c.Body = raw
			out = append(out, &c)
		}
		if len(out) > 150 {
			break
		}
	}
	return out
}

var vcWords = []string{"alpha", "alpine", "beta", "betamax", "gamma", "al"}

func (C25H) Execute(t *testing.T, sc *core.Scenario) *core.Result {
	if !isVC(sc) {
		return TXN{Prop: "C25"}.Execute(t, sc)
	}
	res := &core.Result{}
	var b VCBody
	if err := json.Unmarshal(sc.Body, &b); err != nil {
		res.Panic = "bad scenario body: " + err.Error()
		return res
	}
	ctx := context.Background()
	root := dstore.NewScratch("sqlvc")
	sos, err := simos.New(root)
	if err != nil {
		res.Panic = err.Error()
		return res
	}
	defer simos.RemoveTree(root)
	sos.Install()
	defer simos.Uninstall()
	w, err := NewWorld(ctx, root)
	if err != nil {
		res.Panic = "world: " + err.Error()
		return res
	}
	defer w.Close()
	res.Probe("mode:vc")

	var ss [2]*Sess
	open := func() bool {
		for i, br := range []string{"main", "b1"} {
			s, err := w.NewSession(ctx, true)
			if err != nil {
				res.Panic = "session: " + err.Error()
				return false
			}
			for _, q := range []string{"SET @@dolt_allow_commit_conflicts = 1", "SET @@dolt_force_transaction_commit = 1", "CALL dolt_checkout('" + br + "')"} {
				if err := s.MustExec(ctx, q); err != nil {
					res.Panic = "session setup: " + err.Error()
					return false
				}
			}
			ss[i] = s
		}
		return true
	}
	{
		s, err := w.NewSession(ctx, true)
		if err != nil {
			res.Panic = err.Error()
			return res
		}
		for _, q := range []string{
			"CREATE TABLE x (pk INT PRIMARY KEY, a INT, b INT, c VARCHAR(40), d INT, UNIQUE KEY ua (a), KEY ib (b), KEY ibc (b, c), KEY pc (c(3)), KEY idc (d, c(2)))",
			"CREATE TABLE kl (a INT, c VARCHAR(20), KEY ka (a), KEY kc (c(2)))",
			"INSERT INTO x VALUES (0, 100, 0, 'alpha', 0), (1, 101, 1, 'alpine', 1), (2, 102, 2, 'beta', 2)",
			"INSERT INTO kl VALUES (1, 'alpha'), (1, 'alpha'), (2, 'beta')",
			"CALL dolt_commit('-Am', 'base')",
			"CALL dolt_branch('b1')",
		} {
			if err := s.MustExec(ctx, q); err != nil {
				res.Panic = "setup: " + err.Error()
				return res
			}
		}
		s.End()
	}
	if !open() {
		return res
	}
	brName := []string{"main", "b1"}
	verified := map[hash.Hash]bool{}
	sig := core.NewSig()
	compared := 0

	// verify: every secondary index of every table of every root equals the index rebuilt from the rows
	verify := func(step int, after string) {
		ddb := w.Env.DoltDB(ctx)
		sctx, err := w.SE.NewContext(ctx, ss[0].ds)
		if err != nil {
			res.Panic = "context: " + err.Error()
			return
		}
		brs, err := ddb.GetBranches(ctx)
		if err != nil {
			res.Violate("branches-unreadable", "after="+after, step, "%s", firstLine(err))
			return
		}
		sort.Slice(brs, func(i, j int) bool { return brs[i].String() < brs[j].String() })
		for _, br := range brs {
			type namedRoot struct {
				what string
				r    doltdb.RootValue
			}
			var roots []namedRoot
			if cm, err := ddb.ResolveCommitRef(ctx, br); err == nil {
				if r, err := cm.GetRootValue(ctx); err == nil {
					roots = append(roots, namedRoot{"head", r})
				}
			}
			if wsRef, err := ref.WorkingSetRefForHead(br); err == nil {
				if ws, err := ddb.ResolveWorkingSet(ctx, wsRef); err == nil {
					roots = append(roots, namedRoot{"working", ws.WorkingRoot()}, namedRoot{"staged", ws.StagedRoot()})
					if ws.MergeActive() {
						res.Probe("verified_with_merge_state")
					}
				}
			}
			for _, nr := range roots {
				names, err := nr.r.GetTableNames(ctx, doltdb.DefaultSchemaName, false)
				if err != nil {
					res.Violate("root-unreadable", "after="+after, step, "%s %s: %s", br.GetPath(), nr.what, firstLine(err))
					return
				}
				sort.Strings(names)
				for _, tn := range names {
					tbl, ok, err := nr.r.GetTable(ctx, doltdb.TableName{Name: tn})
					if err != nil || !ok {
						continue
					}
					th, err := tbl.HashOf()
					if err != nil || verified[th] {
						continue
					}
					sch, err := tbl.GetSchema(ctx)
					if err != nil {
						res.Violate("root-unreadable", "after="+after, step, "%s %s table %s: %s", br.GetPath(), nr.what, tn, firstLine(err))
						return
					}
					rowData, err := tbl.GetRowData(ctx)
					if err != nil {
						continue
					}
					primary, err := durable.ProllyMapFromIndex(rowData)
					if err != nil {
						continue
					}
					good := true
					for _, idx := range sch.Indexes().AllIndexes() {
						stored, err := tbl.GetIndexRowData(ctx, idx.Name())
						if err != nil {
							res.Violate("index-unreadable", "index="+idx.Name(), step, "after %s: %s %s %s.%s: %s", after, br.GetPath(), nr.what, tn, idx.Name(), firstLine(err))
							good = false
							continue
						}
						// rebuilt without the uniqueness callback: with it the builder leaves out every row
						// that has a NULL in the key (and stops at duplicates that a merge has recorded as
						// violations); the stored index has one entry per row either way
						rebuilt, err := creation.BuildProllyIndexExternal(sctx, tbl.ValueReadWriter(), tbl.NodeStore(), sch, tn, idx, primary, nil, nil)
						if err != nil {
							res.Violate("index-not-rebuildable", "index="+idx.Name(), step, "after %s: %s %s %s.%s: %s", after, br.GetPath(), nr.what, tn, idx.Name(), firstLine(err))
							good = false
							continue
						}
						res.Evaluations++
						compared++
						h1, _ := stored.HashOf()
						h2, _ := rebuilt.HashOf()
						if h1 != h2 {
							c1, _ := stored.Count()
							c2, _ := rebuilt.Count()
							rows, _ := tbl.GetRowData(ctx)
							cr, _ := rows.Count()
							res.Violate("secondary-index-differs-from-table", "index="+vcIndexKind(tn, idx)+";after="+after, step,
								"after %s (step %d): index %s of table %s in the %s root of %s holds %d entries at %s; rebuilt from the table's %d rows it holds %d entries at %s",
								after, step, idx.Name(), tn, nr.what, br.GetPath(), c1, h1, cr, c2, h2)
							good = false
						} else {
							res.Probe("index_equals_rebuild:" + vcIndexKind(tn, idx))
						}
					}
					if good {
						verified[th] = true
					}
				}
			}
		}
	}

	verify(-1, "setup")
	for step, op := range b.Ops {
		if res.Violated() || res.Panic != "" {
			break
		}
		s := ss[op.Br]
		other := brName[1-op.Br]
		sig.Add(op.Kind, fmt.Sprint(op.Br))
		word := vcWords[op.C%len(vcWords)]
		ok := func(q string) bool {
			_, err := s.Exec(ctx, q)
			if err != nil {
				res.Probe(op.Kind + "_refused")
			}
			return err == nil
		}
		switch op.Kind {
		case "ins":
			if op.Tbl == 0 {
				ok(fmt.Sprintf("INSERT INTO x (pk, a, b, c, d) VALUES (%d, %d, %d, '%s', %d)", op.PK+10*op.Br*(op.N%2), 100+op.A, op.B, word, op.D))
			} else {
				ok(fmt.Sprintf("INSERT INTO kl VALUES (%d, '%s'), (%d, '%s')", op.A%3, word, op.A%3, word))
			}
		case "upd":
			if op.Tbl == 0 {
				col := []string{"a", "b", "c", "d"}[op.N%4]
				v := []string{fmt.Sprint(100 + op.A), fmt.Sprint(op.B), "'" + word + "'", fmt.Sprint(op.D)}[op.N%4]
				if op.N%7 == 0 {
					v = "NULL"
				}
				ok(fmt.Sprintf("UPDATE x SET %s = %s WHERE pk = %d", col, v, op.PK))
			} else {
				ok(fmt.Sprintf("UPDATE kl SET c = '%s' WHERE a = %d LIMIT 1", word, op.A%3))
			}
		case "del":
			if op.Tbl == 0 {
				ok(fmt.Sprintf("DELETE FROM x WHERE pk = %d", op.PK))
			} else {
				ok(fmt.Sprintf("DELETE FROM kl WHERE a = %d LIMIT 1", op.A%3))
			}
		case "commit":
			if ok(fmt.Sprintf("CALL dolt_commit('-Am', 'step %d')", step)) {
				res.Probe("commits")
			}
		case "merge":
			args := "'" + other + "'"
			if op.N%3 == 0 {
				args = "'--no-ff', " + args
			}
			if rows, err := s.Exec(ctx, "CALL dolt_merge("+args+")"); err == nil {
				res.Fault("merge")
				if len(rows) == 1 && len(rows[0]) >= 3 && rows[0][2] != "0" {
					res.Fault("merge-with-conflicts")
				}
			} else {
				res.Probe("merge_refused")
			}
		case "resolve":
			side := []string{"--ours", "--theirs"}[op.N%2]
			n := 0
			for _, tn := range []string{"x", "kl"} {
				if _, err := s.Exec(ctx, "CALL dolt_conflicts_resolve('"+side+"', '"+tn+"')"); err == nil {
					n++
				}
				s.Exec(ctx, "DELETE FROM dolt_constraint_violations_"+tn)
			}
			if n > 0 {
				res.Fault("conflicts-resolved:" + side)
			}
			ok(fmt.Sprintf("CALL dolt_commit('-Am', 'resolved at step %d')", step))
		case "abort":
			if _, err := s.Exec(ctx, "CALL dolt_merge('--abort')"); err == nil {
				res.Fault("merge-aborted")
			} else if _, err := s.Exec(ctx, "CALL dolt_cherry_pick('--abort')"); err == nil {
				res.Fault("cherry-pick-aborted")
			}
		case "cherrypick":
			s.Exec(ctx, fmt.Sprintf("CALL dolt_commit('-Am', 'before cherry-pick at step %d')", step))
			if rows, err := s.Exec(ctx, "CALL dolt_cherry_pick('"+other+"')"); err == nil {
				res.Fault("cherry-pick")
				if len(rows) == 1 && len(rows[0]) >= 2 && rows[0][1] != "0" {
					res.Fault("cherry-pick-with-conflicts")
				}
			} else {
				res.Probe("cherrypick_refused")
			}
		case "revert":
			s.Exec(ctx, fmt.Sprintf("CALL dolt_commit('-Am', 'before revert at step %d')", step))
			if _, err := s.Exec(ctx, fmt.Sprintf("CALL dolt_revert('HEAD~%d')", op.N%2)); err == nil {
				res.Fault("revert")
			} else {
				res.Probe("revert_refused")
			}
		case "rebase":
			// b1 onto main, plan edited in a third of the cases, then continued (or aborted on trouble)
			rb := ss[1]
			rb.Exec(ctx, fmt.Sprintf("CALL dolt_commit('-Am', 'before rebase at step %d')", step))
			if _, err := rb.Exec(ctx, "CALL dolt_rebase('-i', 'main')"); err != nil {
				res.Probe("rebase_refused")
				break
			}
			verify(step, "rebase started")
			switch op.N % 3 {
			case 0:
				rb.Exec(ctx, "UPDATE dolt_rebase SET action = 'squash' WHERE rebase_order > 1")
			case 1:
				rb.Exec(ctx, "UPDATE dolt_rebase SET action = 'drop' WHERE rebase_order = (SELECT MAX(rebase_order) FROM dolt_rebase) AND rebase_order > 1")
			}
			if _, err := rb.Exec(ctx, "CALL dolt_rebase('--continue')"); err == nil {
				res.Fault("rebase")
			} else {
				res.Probe("rebase_continue_refused")
				if _, err := rb.Exec(ctx, "CALL dolt_rebase('--abort')"); err == nil {
					res.Fault("rebase-aborted")
				}
			}
			// the session ends up on b1 again (or still on the rebase's working branch after a failed abort)
			rb.Exec(ctx, "CALL dolt_checkout('b1')")
		case "addidx":
			if ok([]string{"ALTER TABLE x ADD INDEX iad (a, d)", "ALTER TABLE x ADD INDEX pc2 (c(2), b)", "ALTER TABLE kl ADD INDEX kac (a, c(3))", "ALTER TABLE x ADD UNIQUE KEY uad (a, d)"}[op.N%4]) {
				res.Fault("add-index")
			}
		case "dropidx":
			if ok([]string{"ALTER TABLE x DROP INDEX iad", "ALTER TABLE x DROP INDEX pc2", "ALTER TABLE kl DROP INDEX kac", "ALTER TABLE x DROP INDEX ib", "ALTER TABLE x DROP INDEX uad"}[op.N%5]) {
				res.Fault("drop-index")
			}
		case "addcol":
			if ok("ALTER TABLE x ADD COLUMN e INT DEFAULT 7") {
				res.Fault("add-column")
				ok("ALTER TABLE x ADD INDEX ie (e, b)")
			}
		case "dropcol":
			if ok([]string{"ALTER TABLE x DROP COLUMN e", "ALTER TABLE x DROP COLUMN d"}[op.N%2]) {
				res.Fault("drop-column")
			}
		case "stage":
			ok("CALL dolt_add('-A')")
		case "reset":
			if ok("CALL dolt_reset('--hard')") {
				res.Fault("reset-hard")
			}
		case "stash":
			if ok("CALL dolt_stash('push', 'vc')") {
				res.Fault("stash")
			}
		case "stashpop":
			if ok("CALL dolt_stash('pop', 'vc')") {
				res.Fault("stash-pop")
			}
		case "gc":
			if _, err := ss[0].Exec(ctx, "CALL dolt_gc()"); err == nil {
				res.Fault("gc")
			}
			for _, x := range ss {
				x.End()
			}
			if !open() {
				return res
			}
		case "restart":
			if err := w.Restart(ctx); err != nil {
				res.Violate("restart-failed", "-", step, "%s%s", firstLine(err), vcDanglingRefs(ctx, root))
				return res
			}
			res.Fault("clean-restart")
			if !open() {
				return res
			}
		}
		verify(step, op.Kind)
	}
	// the engine is closed here (not only in the deferred Close) so that a panic of its shutdown path
	// is seen and counted; it is outside the property
	panicsBefore := EngineClosePanics
	w.Close()
	if EngineClosePanics > panicsBefore {
		res.Probe("engine_close_panicked")
	}
	res.Ops = len(b.Ops)
	res.LogHash = sig.Sum()
	if compared > 0 {
		res.CaseHashes = append(res.CaseHashes, core.Hash64(sig.Sum(), fmt.Sprint(sc.Seed)))
	} else {
		res.Trivial = 1
	}
	res.Sample = map[string]any{"mode": "vc", "steps": len(b.Ops), "indexes_compared": compared}
	return res
}

// vcDanglingRefs opens the root database's store on its own and lists the refs whose target is not
// in the store (diagnosis of a server that does not come up).
func vcDanglingRefs(ctx context.Context, root string) string {
	ddb, err := doltdb.LoadDoltDBWithParams(ctx, types.Format_DOLT, "file://"+filepath.ToSlash(filepath.Join(root, "test", ".dolt", "noms")), filesys.LocalFS,
		map[string]interface{}{dbfactory.DisableSingletonCacheParam: "true", dbfactory.ChunkJournalParam: struct{}{}})
	if err != nil {
		return "; (the store does not open on its own either: " + firstLine(err) + ")"
	}
	defer ddb.Close()
	out := ""
	dss, err := doltdb.ExposeDatabaseFromDoltDB(ddb).Datasets(ctx)
	if err != nil {
		return "; (datasets unreadable: " + firstLine(err) + ")"
	}
	vrw := ddb.ValueReadWriter()
	_ = dss.IterAll(ctx, func(id string, addr hash.Hash) error {
		v, err := vrw.ReadValue(ctx, addr)
		if err != nil || v == nil {
			out += fmt.Sprintf("; ref %s -> %s is not in the store", id, addr)
		}
		return nil
	})
	if out == "" {
		out = "; every ref's own target is in the store"
	}
	if b, err := os.ReadFile(filepath.Join(root, "test", ".dolt", "repo_state.json")); err == nil {
		out += "; repo_state.json: " + strings.Join(strings.Fields(string(b)), " ")
	}
	if brs, err := ddb.GetBranches(ctx); err == nil {
		var ns []string
		for _, b := range brs {
			ns = append(ns, b.GetPath())
		}
		out += "; branches: " + strings.Join(ns, ", ")
		for _, b := range brs {
			if _, err := ddb.ResolveCommitRef(ctx, b); err != nil {
				out += fmt.Sprintf("; head of %s: %s", b.GetPath(), firstLine(err))
			}
			if wsRef, err := ref.WorkingSetRefForHead(b); err == nil {
				if _, err := ddb.ResolveWorkingSet(ctx, wsRef); err != nil {
					out += fmt.Sprintf("; working set of %s: %s", b.GetPath(), firstLine(err))
				}
			}
		}
	}
	return out
}

func vcIndexKind(table string, idx schema.Index) string {
	k := "plain"
	switch {
	case table == "kl":
		k = "keyless"
	case idx.IsUnique():
		k = "unique"
	case len(idx.PrefixLengths()) > 0 && anyNonZero(idx.PrefixLengths()):
		k = "prefix"
	case idx.Count() > 1:
		k = "multi-column"
	}
	return k
}

func anyNonZero(xs []uint16) bool {
	for _, x := range xs {
		if x != 0 {
			return true
		}
	}
	return false
}

var _ = strings.TrimSpace
