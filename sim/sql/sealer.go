package sqlh

import (
	"bytes"
	"encoding/base64"
	"encoding/json"
	"fmt"
	"io"
	"net/http"
	"net/http/httptest"
	"net/url"
	"os"
	"path/filepath"
	"sort"
	"strconv"
	"strings"
	"sync"
	"testing"
	"time"

	"github.com/sirupsen/logrus"

	"dsim/core"
	"dsim/realcs"
	"dsim/simos"
	dstore "dsim/store"

	"github.com/dolthub/dolt/go/libraries/doltcore/remotesrv"
	"github.com/dolthub/dolt/go/libraries/utils/filesys"
)

// C39 — the remote server's sealed URLs cannot be forged or escape its root. Claimed for what a
// simulator owns: the two clocks (the sealer's and the unsealer's, which the overlay lets the run set
// independently: skew, jumps in both directions) and the file system under the HTTP file handler
// (every file operation of every request is observed at the simulated OS, so confinement is judged
// by what the handler touched, not by what it answered). The real singleSymmetricKeySealer, the real
// file handler and the real LocalCSCache of the stand-alone remote server run unchanged.
//
// Part seal: URLs from a generator (repository paths with dot segments, encoded separators, blanks,
// non-ASCII, queries) are sealed at sealer time S and unsealed at unsealer time U: the result must be
// the original request and must be accepted iff nbf <= U <= exp, the window written in the sealed URL
// itself; every single-field mutation (path, sealed payload, nonce, nbf, exp; a dropped field) must
// be refused at any time. Part serve: sealed GET and POST requests whose paths try to leave the
// configured root (../, encoded, absolute-looking, through the repository part or the file part), and
// unsealed / tampered ones, are served by the handler; no file operation may touch anything outside
// the root, a 200 answer to a GET must carry the bytes of the file of that name inside the root, and a
// refused request must not touch the file system at all.

type SEAL struct{}

type SealBody struct {
	Seed uint64 `json:"seed"`
	N    int    `json:"n"`
	// Only: replay one case
	Only *int `json:"only,omitempty"`
}

func (SEAL) Generate(seed uint64, tier string) *core.Scenario {
	r := core.NewRand(seed)
	b := SealBody{Seed: r.Uint64(), N: r.Range(120, 300)}
	if tier == "thorough" {
		b.N = r.Range(400, 1200)
	}
	raw, _ := json.Marshal(b)
	return &core.Scenario{Property: "C39", Harness: "C39", Seed: seed, Tier: tier, Body: raw}
}

const sealHashA = "0123456789abcdefghijklmnopqrstuv" // valid 32-character base32 table file names
const sealHashB = "vutsrqponmlkjihgfedcba9876543210"
const sealHashC = "00000000000000000000000000000001"

var sealSegments = []string{"r1", "deep/r2", "..", ".", "%2e%2e", "%2E%2E%2F", "..%2f", "%2f", "r1/..", "r 1", "rä", "//", "outside", "srv", "r1/../../outside", "....", "..;", "\\..\\", "%00", "%5c..", "r1%2F..%2F..%2Foutside"}

// genSealPath builds a request path; evil ones aim at ../outside/<decoy>.
func genSealPath(r *core.Rand, root string) string {
	file := []string{sealHashA, sealHashB, sealHashC, sealHashA + ".darc", "manifest", "LOCK", "journal.idx", sealHashA[:31], sealHashA + "x", "..", ""}[r.Intn(11)]
	switch r.Intn(10) {
	case 8:
		// an absolute path behind an encoded separator: after decoding the path begins with two
		// slashes, and stripping only one of them would leave the absolute path of a decoy
		return "/%2F" + strings.TrimPrefix(root, "/") + "/outside/" + file
	case 9:
		return "/%2f%2F" + strings.TrimPrefix(root, "/") + "/" + file
	case 0:
		return "/r1/" + file
	case 1:
		return "/deep/r2/" + file
	case 2:
		return "/../outside/" + file
	case 3:
		return "/r1/../../outside/" + file
	case 4:
		return "/r1/%2e%2e/%2e%2e/outside/" + file
	}
	n := r.Range(1, 4)
	var segs []string
	for i := 0; i < n; i++ {
		segs = append(segs, sealSegments[r.Intn(len(sealSegments))])
	}
	lead := []string{"/", "//", "", "/./"}[r.Intn(4)]
	return lead + strings.Join(segs, "/") + "/" + file
}

func (SEAL) Execute(t *testing.T, sc *core.Scenario) *core.Result {
	res := &core.Result{}
	var b SealBody
	if err := json.Unmarshal(sc.Body, &b); err != nil {
		res.Panic = "bad scenario body: " + err.Error()
		return res
	}
	root := dstore.NewScratch("seal")
	sos, err := simos.New(root)
	if err != nil {
		res.Panic = err.Error()
		return res
	}
	defer simos.RemoveTree(root)
	sos.Install()
	defer simos.Uninstall()

	srv := filepath.Join(root, "srv")
	files := map[string][]byte{} // path relative to srv -> contents
	put := func(rel string, data []byte) {
		p := filepath.Join(root, rel)
		os.MkdirAll(filepath.Dir(p), 0o755)
		if err := os.WriteFile(p, data, 0o644); err != nil {
			res.Panic = err.Error()
		}
		if strings.HasPrefix(rel, "srv/") {
			files[strings.TrimPrefix(rel, "srv/")] = data
		}
	}
	put("srv/r1/"+sealHashA, []byte("table file A of r1, inside the root"))
	put("srv/r1/"+sealHashB, bytes.Repeat([]byte("B"), 5000))
	put("srv/deep/r2/"+sealHashA, []byte("table file A of deep/r2"))
	put("srv/deep/r2/"+sealHashA+".darc", []byte("an archive"))
	put("srv/"+sealHashC, []byte("a table file directly in the root directory"))
	for _, n := range []string{sealHashA, sealHashB, sealHashC, sealHashA + ".darc"} {
		put("outside/"+n, []byte("SECRET: outside the configured root"))
		put(n, []byte("SECRET: beside the configured root"))
	}
	if res.Panic != "" {
		return res
	}
	fs, err := filesys.LocalFilesysWithWorkingDir(srv)
	if err != nil {
		res.Panic = err.Error()
		return res
	}
	sealer, err := remotesrv.NewSingleSymmetricKeySealer()
	if err != nil {
		res.Panic = err.Error()
		return res
	}
	lg := logrus.New()
	lg.SetOutput(discard{})
	cache := realcs.NewLocalCSCache(fs)
	fh := remotesrv.NewFileHandler(logrus.NewEntry(lg), cache, fs, false, sealer, false)

	// the two clocks
	base := time.Date(2031, 5, 1, 12, 0, 0, 0, time.UTC)
	now := base
	remotesrv.DsimSealerNow = func() time.Time { return now }
	defer func() { remotesrv.DsimSealerNow = nil }()

	// every file operation below the simulated root, while a request is being served
	var omu sync.Mutex
	var touched []string
	watching := false
	sos.Yield = func(c *simos.Call) {
		omu.Lock()
		defer omu.Unlock()
		if !watching {
			return
		}
		for _, p := range []string{c.Path, c.Path2} {
			if p != "" {
				touched = append(touched, c.Op+" "+p)
			}
		}
	}
	defer func() { sos.Yield = nil }()
	outsideOps := func() (bad []string, any bool) {
		omu.Lock()
		defer omu.Unlock()
		for _, t := range touched {
			_, p, _ := strings.Cut(t, " ")
			any = true
			if p == "srv" || strings.HasPrefix(p, "srv/") {
				continue
			}
			if p == "." && (strings.HasPrefix(t, "stat ") || strings.HasPrefix(t, "lstat ")) {
				continue // looking at an ancestor of the root while resolving it
			}
			bad = append(bad, t)
		}
		return bad, any
	}

	sig := core.NewSig()
	distinct := map[string]bool{}
	final := res
	for i := 0; i < b.N; i++ {
		cr := core.NewRand(b.Seed ^ uint64(i+1)*0x9e3779b97f4a7c15)
		// a pinned case is replayed after the cases before it (uploads change what the root holds),
		// whose own verdicts are not repeated
		res = final
		if b.Only != nil {
			if i > *b.Only {
				break
			}
			if i < *b.Only {
				res = &core.Result{}
			}
		}
		pin := func(v *core.Violation) {
			if v != nil {
				b2 := b
				b2.Only = &i
				v.Pinned, _ = json.Marshal(b2)
			}
		}
		rawPath := genSealPath(cr, root)
		q := ""
		if cr.Chance(1, 2) {
			q = fmt.Sprintf("num_chunks=%d&content_length=%d&split_offset=0", cr.Range(1, 9), cr.Range(1, 64))
			if cr.Chance(1, 3) {
				q += "&x=" + url.QueryEscape("a b/../c&d")
			}
		}
		u, perr := url.Parse("http://simhub:50051" + rawPath)
		if perr != nil || u == nil {
			u = &url.URL{Scheme: "http", Host: "simhub:50051", Path: rawPath}
		}
		u.RawQuery = q
		sealAt := base.Add(time.Duration(cr.Intn(100000)) * time.Second)
		now = sealAt
		sealed, serr := sealer.Seal(u)
		if serr != nil {
			res.Probe("seal_refused")
			continue
		}
		// what a client would send: the sealed URL as text, parsed by the server
		wire, werr := url.Parse(sealed.String())
		if werr != nil {
			res.Violate("sealed-url-unparsable", "-", i, "Seal(%q) gives %q, which does not parse: %v", u.String(), sealed.String(), werr)
			continue
		}
		nbf, _ := strconv.ParseInt(wire.Query().Get("nbf"), 10, 64)
		exp, _ := strconv.ParseInt(wire.Query().Get("exp"), 10, 64)
		if cr.Chance(1, 2) {
			// ---- part seal ---------------------------------------------------------------------------
			res.Evaluations++
			sig.Add("seal")
			// 1. the window, with the unsealer's clock anywhere relative to the sealer's
			var at int64
			switch cr.Intn(9) {
			case 0:
				at = nbf - 1
			case 1:
				at = nbf
			case 2:
				at = exp
			case 3:
				at = exp + 1
			case 4:
				at = nbf - int64(cr.Range(1, 7200000))
			case 5:
				at = exp + int64(cr.Range(1, 7200000))
			default:
				at = nbf + int64(cr.Intn(int(exp-nbf)+1))
			}
			now = time.UnixMilli(at)
			inWindow := at >= nbf && at <= exp
			cp := *wire
			got, uerr := sealer.Unseal(&cp)
			switch {
			case inWindow && uerr != nil:
				pin(res.Violate("sealed-url-refused-inside-its-window", "path="+pathShape(rawPath), i, "Unseal of an untouched sealed URL for %q failed at unsealer time %d (window [%d, %d]): %v", u.String(), at, nbf, exp, uerr))
			case !inWindow && uerr == nil:
				pin(res.Violate("sealed-url-accepted-outside-its-window", map[bool]string{true: "side=before-nbf", false: "side=after-exp"}[at < nbf], i, "Unseal accepted a sealed URL at unsealer time %d, outside its window [%d, %d] (sealer time %d)", at, nbf, exp, sealAt.UnixMilli()))
			case inWindow:
				res.Probe("unsealed_inside_window")
				if got.EscapedPath() != u.EscapedPath() || got.RawQuery != u.RawQuery {
					pin(res.Violate("unsealed-request-differs", "-", i, "sealed %q (path %q, query %q); unsealed to path %q, query %q", u.String(), u.EscapedPath(), u.RawQuery, got.EscapedPath(), got.RawQuery))
				}
			default:
				res.Fault(map[bool]string{true: "clock:unsealer-before-nbf", false: "clock:unsealer-after-exp"}[at < nbf])
			}
			// 2. single-field mutations, at a time inside the window
			now = time.UnixMilli(nbf + (exp-nbf)/2)
			for k := 0; k < 4; k++ {
				m := *wire
				qv := m.Query()
				field := []string{"path", "req", "nonce", "nbf", "exp", "drop"}[cr.Intn(6)]
				mutB64 := func(s string) string {
					if s == "" {
						return "A"
					}
					orig, _ := base64.RawURLEncoding.DecodeString(s)
					for {
						bs := []byte(s)
						j := cr.Intn(len(bs))
						const alpha = "ABCDEFGHIJKLMNOPQRSTUVWXYZabcdefghijklmnopqrstuvwxyz0123456789-_"
						bs[j] = alpha[cr.Intn(len(alpha))]
						// the unused low bits of the last character are not part of the value
						if dec, err := base64.RawURLEncoding.DecodeString(string(bs)); err != nil || !bytes.Equal(dec, orig) {
							return string(bs)
						}
					}
				}
				switch field {
				case "path":
					switch cr.Intn(4) {
					case 0:
						m.Path = m.Path + "x"
					case 1:
						m.Path = strings.Replace(m.Path, "/single_symmetric_key_sealed_request/", "/single_symmetric_key_sealed_request/../", 1)
					case 2:
						m.Path = m.Path + "/../" + sealHashB
					default:
						if len(m.Path) > 40 {
							m.Path = m.Path[:len(m.Path)-1]
						} else {
							m.Path += "/"
						}
					}
					m.RawPath = ""
				case "req":
					qv.Set("req", mutB64(qv.Get("req")))
				case "nonce":
					qv.Set("nonce", mutB64(qv.Get("nonce")))
				case "nbf":
					qv.Set("nbf", strconv.FormatInt(nbf-int64(cr.Range(1, 100000)), 10))
				case "exp":
					qv.Set("exp", strconv.FormatInt(exp+int64(cr.Range(1, 100000000)), 10))
				case "drop":
					qv.Del([]string{"req", "nonce", "nbf", "exp"}[cr.Intn(4)])
				}
				if field != "path" {
					m.RawQuery = qv.Encode()
				}
				if m.String() == wire.String() {
					continue
				}
				res.Evaluations++
				if got, err := sealer.Unseal(&m); err == nil {
					pin(res.Violate("tampered-sealed-url-accepted", "field="+field, i, "sealed URL for %q with its %s changed\n  from %s\n  to   %s\nwas accepted and unsealed to path %q query %q", u.String(), field, wire.String(), m.String(), got.Path, got.RawQuery))
				} else {
					res.Fault("tampered:" + field)
				}
			}
			continue
		}
		// ---- part serve --------------------------------------------------------------------------------
		now = time.UnixMilli(nbf + 1000)
		method := []string{http.MethodGet, http.MethodGet, http.MethodPost, http.MethodPut}[cr.Intn(4)]
		reqURL := wire
		tampered := false
		switch cr.Intn(6) {
		case 0:
			// not sealed at all
			reqURL, tampered = u, true
		case 1:
			m := *wire
			m.Path = strings.Replace(m.Path, "/single_symmetric_key_sealed_request/", "/single_symmetric_key_sealed_request/../outside/", 1)
			reqURL, tampered = &m, true
		}
		body := cr.Bytes(cr.Range(1, 64))
		req := httptest.NewRequest(method, "http://simhub:50051/", bytes.NewReader(body))
		ru := *reqURL
		req.URL = &ru
		req.RequestURI = ru.RequestURI()
		if method == http.MethodGet && cr.Chance(1, 3) {
			req.Header.Set("Range", fmt.Sprintf("bytes=%d-%d", cr.Intn(10), 10+cr.Intn(30)))
		}
		rec := httptest.NewRecorder()
		omu.Lock()
		touched, watching = nil, true
		omu.Unlock()
		func() {
			defer func() {
				if p := recover(); p != nil {
					pin(res.Violate("file-handler-panicked", "method="+method, i, "%s %s: %v", method, ru.String(), p))
				}
			}()
			fh.ServeHTTP(rec, req)
		}()
		omu.Lock()
		watching = false
		omu.Unlock()
		res.Evaluations++
		sig.Add("serve", method)
		bad, any := outsideOps()
		kind := "sealed"
		if tampered {
			kind = "unsealed-or-tampered"
		}
		distinct[method+"|"+kind+"|"+strconv.Itoa(rec.Code)+"|"+strconv.FormatBool(len(bad) > 0)] = true
		if len(bad) > 0 {
			sort.Strings(bad)
			pin(res.Violate("request-touched-files-outside-the-root", "method="+method+";request="+kind, i, "%s %s (inner path %q) answered %d; file operations outside the configured root srv/: %s", method, ru.String(), rawPath, rec.Code, strings.Join(uniq(bad), "; ")))
		}
		if tampered {
			if rec.Code/100 == 2 {
				pin(res.Violate("unsealed-request-served", "method="+method, i, "%s %s is not a validly sealed URL and was answered %d", method, ru.String(), rec.Code))
			} else if any {
				res.Probe("refused_request_touched_files_inside_root")
			} else {
				res.Fault("refused:unsealed-or-tampered")
			}
			continue
		}
		if method == http.MethodGet && rec.Code/100 == 2 {
			res.Probe("get_served")
			gotBody, _ := io.ReadAll(rec.Result().Body)
			// which file of the root does the path name? the handler's own cleaning is not trusted: any
			// file of the root whose bytes contain the answer is acceptable, a secret never is
			if bytes.Contains(gotBody, []byte("SECRET")) {
				pin(res.Violate("file-outside-the-root-served", "method=GET", i, "GET %s (inner path %q) answered %d with the contents of a file outside the root: %q", ru.String(), rawPath, rec.Code, string(gotBody)))
			} else {
				ok := false
				for _, k := range core.SortedKeys(files) {
					if bytes.Contains(files[k], gotBody) {
						ok = true
					}
				}
				if !ok {
					pin(res.Violate("served-bytes-are-no-file-of-the-root", "method=GET", i, "GET %s answered %d with %d bytes that are not (a range of) any file below the root", ru.String(), rec.Code, len(gotBody)))
				}
			}
		} else if rec.Code/100 == 2 {
			res.Probe("upload_accepted")
			// what the root holds has changed: the model of the root is the root
			filepath.Walk(srv, func(p string, fi os.FileInfo, err error) error {
				if err == nil && fi.Mode().IsRegular() {
					if data, rerr := os.ReadFile(p); rerr == nil {
						files[strings.TrimPrefix(p, srv+"/")] = data
					}
				}
				return nil
			})
		} else {
			res.Probe("request_refused:" + strconv.Itoa(rec.Code))
		}
	}
	res = final
	res.Ops = b.N
	res.LogHash = sig.Sum()
	for _, k := range core.SortedKeys(distinct) {
		res.CaseHashes = append(res.CaseHashes, core.Hash64(k, fmt.Sprint(sc.Seed)))
	}
	res.Sample = map[string]any{"cases": b.N, "request_outcome_classes": len(distinct)}
	return res
}

func uniq(xs []string) []string {
	var out []string
	for i, x := range xs {
		if i == 0 || x != xs[i-1] {
			out = append(out, x)
		}
	}
	if len(out) > 12 {
		out = out[:12]
	}
	return out
}

func (SEAL) Shrinks(sc *core.Scenario) []*core.Scenario { return nil }

// pathShape classifies a generated path by what makes it unusual (the key of a finding).
func pathShape(p string) string {
	var fs []string
	if strings.HasPrefix(p, "//") {
		fs = append(fs, "leading-double-slash")
	}
	if !strings.HasPrefix(p, "/") {
		fs = append(fs, "no-leading-slash")
	}
	if strings.Contains(p, "%") {
		fs = append(fs, "percent-escape")
	}
	if strings.ContainsAny(p, " ") {
		fs = append(fs, "blank")
	}
	if strings.ContainsAny(p, "\\") {
		fs = append(fs, "backslash")
	}
	for _, c := range p {
		if c > 127 {
			fs = append(fs, "non-ascii")
			break
		}
	}
	if strings.Contains(p, ";") {
		fs = append(fs, "semicolon")
	}
	if len(fs) == 0 {
		return "plain"
	}
	return strings.Join(fs, "+")
}
