package sqlh

import (
	"testing"

	"dsim/core"
)

var registry = map[string]core.Harness{
	"C22": TXN{Prop: "C22"},
	"C23": TXN{Prop: "C23"},
	"C25": C25H{},
	"C27": KL{},
	"C24": CON{},
	"C28": AI{},
	"C33": HIST{},
	"C47": UND{},
	"C08": GCX{},
	"C35": REM{},
	"C45": REP{},
	"C39": SEAL{},
}

func TestSim(t *testing.T) { core.WorkerMain(t, registry) }
