package sqlh

import (
	"context"
	"encoding/json"
	"fmt"
	"strconv"
	"strings"
	"sync"

	"dsim/core"

	"github.com/dolthub/dolt/go/libraries/doltcore/sqle/dsess"
	"github.com/dolthub/dolt/go/libraries/doltcore/sqle/dsess/mutexmap"
)

// Race mode of C28: 2-3 sessions on different branches insert into one AUTO_INCREMENT table as tasks
// of the seeded S1 scheduler. Besides the statement boundaries, the scheduling points sit inside
// SequenceTracker.Next - after the per-table lock has been taken and the sequence state is about to
// be loaded, and again before the new state is stored (an overlay rewrite of sequence_tracker.go puts
// a nil-by-default hook there) - so that another session's insert can be scheduled into the
// read-modify-write of the sequence if the code lets it. A session that waits for the per-table lock
// parks (overlay rewrite of mutexmap.go) instead of blocking in sync.Mutex.
//
// Oracle over the recorded statements (each with the scheduler step at which it began and ended):
// generated values are pairwise distinct; a generated value exceeds every value generated, and every
// explicit value accepted, by a statement that had ended before its own statement began.

type AIRace struct {
	Seed   uint64  `json:"seed"`
	Sched  []int   `json:"sched,omitempty"`
	PCT    int     `json:"pct"`
	NTasks int     `json:"ntasks"`
	Ops    [][]int `json:"ops"` // per task: >0 = explicit value offset above the high-water mark, 0 = generated, -n = n generated rows in one statement
}

func genAIRace(r *core.Rand) *AIRace {
	a := &AIRace{Seed: r.Uint64(), PCT: []int{0, 0, 2, 3}[r.Intn(4)], NTasks: r.Range(2, 3)}
	for t := 0; t < a.NTasks; t++ {
		var ops []int
		for k := r.Range(3, 7); k > 0; k-- {
			switch x := r.Intn(10); {
			case x < 5:
				ops = append(ops, 0)
			case x < 7:
				ops = append(ops, -r.Range(2, 3))
			default:
				ops = append(ops, r.Range(1, 5))
			}
		}
		a.Ops = append(a.Ops, ops)
	}
	return a
}

type aiStmt struct {
	task       int
	branch     string
	begin, end int
	generated  []int
	explicit   []int
	q          string
}

func runAIRace(ctx context.Context, w *World, a *AIRace, lockMode int, res *core.Result) {
	ch := core.NewChooser(a.Seed, a.Sched)
	s := core.NewSched(ch)
	s.PCTDepth, s.PCTSteps = a.PCT, 60
	s.KeepTrace = len(a.Sched) > 0
	inner := 0
	dsess.DsimSeqYield = func(l string) {
		if s.YieldCurrent(l) {
			inner++
		}
	}
	mutexmap.DsimBlocked = func(l string) bool { return s.YieldBlockedCurrent(l) }
	defer func() { dsess.DsimSeqYield, mutexmap.DsimBlocked = nil, nil }()

	var mu sync.Mutex
	clock := 0
	tick := func() int { mu.Lock(); defer mu.Unlock(); clock++; return clock }
	var stmts []*aiStmt
	high := 0 // highest value any statement has been seen to use (for choosing explicit values)
	tag := 0
	branches := []string{"main", "b1", "main"}
	task := func(id int) func(*core.Task) {
		return func(tk *core.Task) {
			ws, err := w.NewSession(ctx, true)
			if err != nil {
				res.Violate("session-failed", "mode=race", 0, "%s", firstLine(err))
				return
			}
			defer ws.End()
			br := branches[id%len(branches)]
			if br != "main" {
				if err := ws.MustExec(ctx, "CALL dolt_checkout('"+br+"')"); err != nil {
					res.Violate("session-failed", "mode=race", 0, "%s", firstLine(err))
					return
				}
			}
			for _, op := range a.Ops[id] {
				tk.Yield("stmt")
				st := &aiStmt{task: id, branch: br}
				var rows []string
				var tags []string
				mu.Lock()
				mk := func(idv string) {
					tag++
					tags = append(tags, strconv.Itoa(tag))
					rows = append(rows, fmt.Sprintf("(%s, %d)", idv, tag))
				}
				switch {
				case op > 0:
					e := high + op
					st.explicit = append(st.explicit, e)
					mk(strconv.Itoa(e))
				case op == 0:
					mk("NULL")
				default:
					for k := 0; k < -op; k++ {
						mk("NULL")
					}
				}
				mu.Unlock()
				st.q = "INSERT INTO ai0 (id, v) VALUES " + strings.Join(rows, ", ")
				st.begin = tick()
				_, err := ws.Exec(ctx, st.q)
				st.end = tick()
				if err != nil {
					res.Probe("insert_refused")
					continue
				}
				got, err := ws.Exec(ctx, fmt.Sprintf("SELECT id FROM ai0 WHERE v IN (%s)", strings.Join(tags, ", ")))
				if err != nil || len(got) != len(tags) {
					res.Violate("inserted-row-not-readable", "mode=race", 0, "task %d: after %s the same session reads back %d of %d rows (%v)", id, st.q, len(got), len(tags), err)
					return
				}
				isExp := map[int]bool{}
				for _, e := range st.explicit {
					isExp[e] = true
				}
				mu.Lock()
				for _, r := range got {
					v, _ := strconv.Atoi(r[0])
					if !isExp[v] {
						st.generated = append(st.generated, v)
					}
					if v > high {
						high = v
					}
				}
				stmts = append(stmts, st)
				mu.Unlock()
			}
		}
	}
	for i := 0; i < a.NTasks; i++ {
		s.Go(fmt.Sprintf("inserter%d", i), task(i))
	}
	if msg := s.Run(); msg != "" {
		res.Violate("inserters-stuck", "mode=race", 0, "scheduler: %s [%s]\n%s\n%s", msg, s.States(), strings.Join(s.Trace, "\n"), taskStacks())
		return
	}
	res.FaultN("context-switch", s.Switches)
	res.ProbeN("yields_inside_sequence_tracker", inner)
	// oracle
	// The violation key names the circumstances of the recorded finding (known_findings.txt, C28): with
	// @@innodb_autoinc_lock_mode 0 or 1 the tracker's Next takes no lock of its own and relies on the
	// statement-long lock the engine takes - which it takes only for statements that have a row to
	// generate a value for; an INSERT with explicit ids only runs Next unlocked beside the others.
	raceKey := "table=ai0;mode=race;lock-mode=interleaved"
	if lockMode != 2 {
		overlapped := "no"
		for _, e := range stmts {
			if len(e.explicit) == 0 || len(e.generated) > 0 {
				continue
			}
			for _, g := range stmts {
				if len(g.generated) > 0 && e.begin < g.end && g.begin < e.end {
					overlapped = "yes"
				}
			}
		}
		raceKey = "table=ai0;mode=race;lock-mode=statement-lock;explicit-only-statement-overlapped=" + overlapped
		res.Probe("race_with_statement_lock_mode")
	}
	owner := map[int]*aiStmt{}
	ngen := 0
	for _, st := range stmts {
		for _, g := range st.generated {
			res.Evaluations++
			ngen++
			if o, dup := owner[g]; dup {
				res.Violate("auto-increment-value-handed-out-twice", raceKey, st.begin, "task %d on branch %s got id %d (%s), which task %d on branch %s had been given too (%s)", st.task, st.branch, g, st.q, o.task, o.branch, o.q)
			}
			owner[g] = st
			for _, o := range stmts {
				if o.end >= st.begin {
					continue // not finished before this statement began: no order to demand
				}
				for _, og := range o.generated {
					if g <= og {
						res.Violate("generated-value-not-increasing", raceKey, st.begin, "task %d got id %d (%s) although %d had been generated by a statement that had finished before (%s)", st.task, g, st.q, og, o.q)
					}
				}
				for _, oe := range o.explicit {
					if g <= oe {
						res.Violate("sequence-not-moved-past-explicit-value", raceKey, st.begin, "task %d on branch %s got id %d (%s) although the explicit value %d had been inserted on branch %s by a statement that had finished before", st.task, st.branch, g, st.q, oe, o.branch)
					}
				}
			}
		}
	}
	res.ProbeN("generated_values", ngen)
	res.Ops = s.Switches + len(stmts)
	res.LogHash = s.Hash()
	if s.Switches > 0 && inner > 0 {
		res.CaseHashes = append(res.CaseHashes, core.Hash64(s.Hash()))
	} else {
		res.Trivial = 1
	}
	res.Sample = map[string]any{"mode": "race", "tasks": a.NTasks, "statements": len(stmts), "generated_values": ngen, "switches": s.Switches, "yields_inside_sequence_tracker": inner}
	if res.Violated() {
		a2 := *a
		a2.Sched = s.Decisions()
		pinned, _ := json.Marshal(AIBody{Race: &a2})
		for _, v := range res.Violations {
			if len(v.Pinned) == 0 {
				v.Pinned = pinned
			}
		}
	}
}
