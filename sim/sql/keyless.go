package sqlh

import (
	"context"
	"encoding/json"
	"fmt"
	"os"
	"sort"
	"strconv"
	"strings"
	"testing"

	"dsim/core"
	"dsim/simos"
	dstore "dsim/store"
)

// C27 — keyless tables behave as multisets. Same world as the transaction harness, one keyless
// table with a secondary index; the reference model is a multiset per session (snapshot + own
// writes) and per branch; transaction commits merge multiplicity changes row by row.

type KL struct{}

type KLOp struct {
	S    int    `json:"s"`
	Kind string `json:"kind"` // begin | commit | rollback | insert | delete | update | read | count | readidx | restart | merge
	A    int    `json:"a,omitempty"`
	B    int    `json:"b,omitempty"`
	N    int    `json:"n,omitempty"`
	To   int    `json:"to,omitempty"`
}

type KLBody struct {
	NSess      int    `json:"nsess"`
	Autocommit []bool `json:"autocommit"`
	Ops        []KLOp `json:"ops"`
}

func (KL) Generate(seed uint64, tier string) *core.Scenario {
	r := core.NewRand(seed)
	b := KLBody{NSess: r.Range(2, 3)}
	for i := 0; i < b.NSess; i++ {
		b.Autocommit = append(b.Autocommit, r.Chance(1, 4))
	}
	n := r.Range(20, 70)
	for len(b.Ops) < n {
		s := r.Intn(b.NSess)
		switch x := r.Intn(100); {
		case x < 6:
			b.Ops = append(b.Ops, KLOp{S: s, Kind: "begin"})
		case x < 30:
			b.Ops = append(b.Ops, KLOp{S: s, Kind: "insert", A: r.Intn(3), B: r.Intn(3), N: r.Range(1, 3)})
		case x < 42:
			b.Ops = append(b.Ops, KLOp{S: s, Kind: "delete", A: r.Intn(3), B: r.Intn(3), N: r.Range(1, 2)})
		case x < 52:
			b.Ops = append(b.Ops, KLOp{S: s, Kind: "update", A: r.Intn(3), B: r.Intn(3), N: r.Range(1, 2), To: r.Intn(3)})
		case x < 62:
			b.Ops = append(b.Ops, KLOp{S: s, Kind: "read"})
		case x < 67:
			b.Ops = append(b.Ops, KLOp{S: s, Kind: "count"})
		case x < 76:
			b.Ops = append(b.Ops, KLOp{S: s, Kind: "readidx", A: r.Intn(3)})
		case x < 93:
			b.Ops = append(b.Ops, KLOp{S: s, Kind: "commit"})
		case x < 97:
			b.Ops = append(b.Ops, KLOp{S: s, Kind: "rollback"})
		default:
			b.Ops = append(b.Ops, KLOp{Kind: "restart"})
		}
		// the second branch: an autocommit session checked out on b1 edits its copy, and now and
		// then b1 is merged into main
		switch x := r.Intn(100); {
		case x < 10:
			b.Ops = append(b.Ops, KLOp{Kind: "binsert", A: r.Intn(3), B: r.Intn(3), N: r.Range(1, 2)})
		case x < 15:
			b.Ops = append(b.Ops, KLOp{Kind: "bdelete", A: r.Intn(3), B: r.Intn(3), N: 1})
		case x < 21:
			b.Ops = append(b.Ops, KLOp{Kind: "merge"})
		}
	}
	for s := 0; s < b.NSess; s++ {
		b.Ops = append(b.Ops, KLOp{S: s, Kind: "commit"})
	}
	raw, _ := json.Marshal(b)
	return &core.Scenario{Property: "C27", Harness: "C27", Seed: seed, Tier: tier, Body: raw}
}

type mset map[[2]int]int

func (m mset) clone() mset {
	c := mset{}
	for k, v := range m {
		if v > 0 {
			c[k] = v
		}
	}
	return c
}

func (m mset) key() string {
	var ls []string
	for k, v := range m {
		if v > 0 {
			ls = append(ls, fmt.Sprintf("%d|%d|%d", k[0], k[1], v))
		}
	}
	sort.Strings(ls)
	return strings.Join(ls, "\n")
}

func (m mset) total() int {
	n := 0
	for _, v := range m {
		n += v
	}
	return n
}

// mergeMset: each side's change of multiplicity is applied; both sides changing the multiplicity
// of the same row differently is a conflict.
func mergeMset(base, theirs, mine mset) (mset, [][2]int) {
	out := mset{}
	keys := map[[2]int]bool{}
	for k := range base {
		keys[k] = true
	}
	for k := range theirs {
		keys[k] = true
	}
	for k := range mine {
		keys[k] = true
	}
	var conflict [][2]int
	for k := range keys {
		b, t, m := base[k], theirs[k], mine[k]
		switch {
		case m == b:
			out[k] = t
		case t == b:
			out[k] = m
		case m == t:
			out[k] = m
		default:
			conflict = append(conflict, k)
		}
	}
	return out.clone(), conflict
}

// convergent: some row's multiplicity was changed by both sides to the same value.
func convergent(base, theirs, mine mset) bool {
	for k, m := range mine {
		if m != base[k] && m == theirs[k] {
			return true
		}
	}
	for k, b := range base {
		if mine[k] != b && mine[k] == theirs[k] {
			return true
		}
	}
	return false
}

func (KL) Execute(t *testing.T, sc *core.Scenario) *core.Result {
	res := &core.Result{}
	var b KLBody
	if err := json.Unmarshal(sc.Body, &b); err != nil {
		res.Panic = "bad scenario body: " + err.Error()
		return res
	}
	ctx := context.Background()
	root := dstore.NewScratch("sqlkl")
	sos, err := simos.New(root)
	if err != nil {
		res.Panic = err.Error()
		return res
	}
	defer simos.RemoveTree(root)
	sos.Install()
	defer simos.Uninstall()
	w, err := NewWorld(ctx, root)
	if err != nil {
		res.Panic = "world: " + err.Error()
		return res
	}
	defer w.Close()
	setup, err := w.NewSession(ctx, true)
	if err != nil {
		res.Panic = err.Error()
		return res
	}
	for _, q := range []string{"CREATE TABLE kl (a INT, b INT, INDEX ka (a))", "CALL dolt_commit('-Am', 'schema')"} {
		if err := setup.MustExec(ctx, q); err != nil {
			res.Panic = "setup: " + err.Error()
			return res
		}
	}
	type ms struct {
		active, explicit bool
		start, view      mset
	}
	branch := mset{}
	var ss []*Sess
	var mm []*ms
	newSessions := func() bool {
		ss, mm = nil, nil
		for i := 0; i < b.NSess; i++ {
			s, err := w.NewSession(ctx, b.Autocommit[i])
			if err != nil {
				res.Panic = err.Error()
				return false
			}
			ss = append(ss, s)
			mm = append(mm, &ms{})
		}
		return true
	}
	if err := setup.MustExec(ctx, "CALL dolt_branch('b1')"); err != nil {
		res.Panic = "setup: " + err.Error()
		return res
	}
	var bs, mg *Sess // bs: on b1; mg: the session that runs the merges on main
	b1, mbase := mset{}, mset{}
	merges := 0
	sideSessions := func() bool {
		var err error
		if bs, err = w.NewSession(ctx, true); err == nil {
			if err = bs.MustExec(ctx, "CALL dolt_checkout('b1')"); err == nil {
				mg, err = w.NewSession(ctx, true)
			}
		}
		if err != nil {
			res.Panic = "side sessions: " + err.Error()
			return false
		}
		return true
	}
	if !newSessions() || !sideSessions() {
		return res
	}
	sig := core.NewSig()
	overlaps := 0
	ensure := func(i int) {
		if !mm[i].active {
			mm[i].active, mm[i].start, mm[i].view = true, branch.clone(), branch.clone()
		}
	}
	commitModel := func(i, step int, ok bool) {
		m := mm[i]
		if !m.active {
			return
		}
		merged, conflict := mergeMset(m.start, branch, m.view)
		if branch.key() != m.start.key() && m.view.key() != m.start.key() {
			overlaps++
		}
		switch {
		case ok && len(conflict) > 0:
			res.Violate("conflicting-multiplicity-change-committed", "-", step, "session %d committed although it and a committed transaction changed the multiplicity of row %v differently", i, conflict[0])
			branch = merged
		case ok:
			branch = merged
			res.Probe("commit_ok")
		case len(conflict) == 0:
			if convergent(m.start, branch, m.view) {
				res.Probe("commit_refused_for_convergent_change")
			} else {
				res.Probe("commit_refused_unexplained")
				if os.Getenv("DSIM_DEBUG_KL") != "" {
					res.Violate("dbg-commit-refused", "-", step, "base=%v branch=%v mine=%v", m.start, branch, m.view)
				}
			}
		default:
			res.Fault("multiplicity-conflict-refused")
		}
		m.active, m.explicit = false, false
	}
	for step, op := range b.Ops {
		if op.S >= b.NSess {
			continue
		}
		i := op.S
		s, m := ss[i], mm[i]
		sig.Add(op.Kind, strconv.Itoa(i))
		switch op.Kind {
		case "restart":
			if err := w.Restart(ctx); err != nil {
				res.Panic = "restart: " + err.Error()
				return res
			}
			if !newSessions() || !sideSessions() {
				return res
			}
			res.Fault("clean-restart")
			continue
		case "binsert", "bdelete":
			k := [2]int{op.A, op.B}
			if op.Kind == "binsert" {
				var vals []string
				for n := 0; n < op.N; n++ {
					vals = append(vals, fmt.Sprintf("(%d, %d)", op.A, op.B))
				}
				if _, err := bs.Exec(ctx, "INSERT INTO kl (a, b) VALUES "+strings.Join(vals, ", ")); err == nil {
					b1[k] += op.N
				}
			} else if _, err := bs.Exec(ctx, fmt.Sprintf("DELETE FROM kl WHERE a = %d AND b = %d LIMIT %d", op.A, op.B, op.N)); err == nil {
				b1[k] -= min(op.N, b1[k])
			}
			if got, err := bs.Exec(ctx, "SELECT a, b, COUNT(*) FROM kl GROUP BY a, b"); err == nil {
				res.Evaluations++
				if rowsKey(got) != b1.key() {
					res.Violate("multiset-differs", "read=group-by;branch=b1", step, "branch b1: GROUP BY returned\n%s\nbut its multiset holds\n%s", indent(rowsKey(got)), indent(b1.key()))
				}
			}
			continue
		case "merge":
			mg.Exec(ctx, "CALL dolt_commit('-Am', 'main before merge')")
			bs.Exec(ctx, "CALL dolt_commit('-Am', 'b1 before merge')")
			merged, conflict := mergeMset(mbase, b1, branch)
			rows, err := mg.Exec(ctx, "CALL dolt_merge('b1')")
			ok := err == nil && len(rows) == 1 && len(rows[0]) >= 3 && rows[0][2] == "0"
			switch {
			case ok && len(conflict) > 0:
				res.Violate("conflicting-multiplicity-change-merged", "via=dolt_merge", step, "dolt_merge('b1') reported no conflict although both branches changed the multiplicity of row %v differently (base %d, main %d, b1 %d)", conflict[0], mbase[conflict[0]], branch[conflict[0]], b1[conflict[0]])
				branch, mbase = merged, b1.clone()
			case ok:
				branch, mbase = merged, b1.clone()
				merges++
				res.Fault("branch-merge")
				res.Probe("merge_ok")
			case len(conflict) == 0:
				if convergent(mbase, b1, branch) {
					res.Probe("merge_refused_for_convergent_change") // both sides made the same change: dolt is conservative
				} else {
					res.Probe("merge_refused_unexplained")
					if os.Getenv("DSIM_DEBUG_KL") != "" {
						res.Violate("dbg-merge-refused", "-", step, "base=%v b1=%v main=%v err=%v", mbase, b1, branch, err)
					}
				}
				if err != nil {
					res.Probe("merge_refused:" + firstLine(err)[:min(50, len(firstLine(err)))])
				}
			default:
				res.Fault("branch-merge-conflict-reported")
			}
			// the merged table, read by a fresh transaction of the merging session
			if got, err := mg.Exec(ctx, "SELECT a, b, COUNT(*) FROM kl GROUP BY a, b"); err == nil {
				res.Evaluations++
				if rowsKey(got) != branch.key() {
					res.Violate("merged-multiplicity-wrong", "via=dolt_merge", step, "after dolt_merge('b1') main holds\n%s\nbut base, main and b1 combine to\n%s", indent(rowsKey(got)), indent(branch.key()))
				}
			}
			continue
		case "begin":
			_, err := s.Exec(ctx, "START TRANSACTION")
			if m.active {
				commitModel(i, step, err == nil)
			}
			if err == nil {
				ensure(i)
				m.explicit = true
			}
			continue
		case "commit":
			_, err := s.Exec(ctx, "COMMIT")
			commitModel(i, step, err == nil)
			continue
		case "rollback":
			s.Exec(ctx, "ROLLBACK")
			m.active, m.explicit = false, false
			continue
		}
		if op.Kind == "update" && op.To == op.B {
			continue
		}
		ensure(i)
		k := [2]int{op.A, op.B}
		switch op.Kind {
		case "insert":
			var vals []string
			for n := 0; n < op.N; n++ {
				vals = append(vals, fmt.Sprintf("(%d, %d)", op.A, op.B))
			}
			if _, err := s.Exec(ctx, "INSERT INTO kl (a, b) VALUES "+strings.Join(vals, ", ")); err == nil {
				m.view[k] += op.N
			}
		case "delete":
			if _, err := s.Exec(ctx, fmt.Sprintf("DELETE FROM kl WHERE a = %d AND b = %d LIMIT %d", op.A, op.B, op.N)); err == nil {
				d := min(op.N, m.view[k])
				m.view[k] -= d
				if d > 0 {
					res.Fault("delete-with-limit")
				}
			}
		case "update":
			if op.To == op.B {
				break
			}
			if _, err := s.Exec(ctx, fmt.Sprintf("UPDATE kl SET b = %d WHERE a = %d AND b = %d LIMIT %d", op.To, op.A, op.B, op.N)); err == nil {
				d := min(op.N, m.view[k])
				m.view[k] -= d
				m.view[[2]int{op.A, op.To}] += d
				if d > 0 {
					res.Fault("update-with-limit")
				}
			}
		case "read":
			got, err := s.Exec(ctx, "SELECT a, b, COUNT(*) FROM kl GROUP BY a, b")
			if err == nil {
				res.Evaluations++
				if rowsKey(got) != m.view.key() {
					res.Violate("multiset-differs", "read=group-by", step, "session %d: GROUP BY returned\n%s\nbut its multiset holds\n%s", i, indent(rowsKey(got)), indent(m.view.key()))
				}
			}
		case "count":
			got, err := s.Exec(ctx, "SELECT COUNT(*) FROM kl")
			if err == nil && len(got) == 1 {
				res.Evaluations++
				if got[0][0] != strconv.Itoa(m.view.total()) {
					res.Violate("multiset-differs", "read=count", step, "session %d: COUNT(*) = %s, the multiset holds %d rows", i, got[0][0], m.view.total())
				}
			}
		case "readidx":
			got, err := s.Exec(ctx, fmt.Sprintf("SELECT a, b FROM kl WHERE a = %d", op.A))
			if err == nil {
				var want [][]string
				for kk, c := range m.view {
					if kk[0] == op.A {
						for n := 0; n < c; n++ {
							want = append(want, []string{strconv.Itoa(kk[0]), strconv.Itoa(kk[1])})
						}
					}
				}
				res.Evaluations++
				if rowsKey(got) != rowsKey(want) {
					res.Violate("multiset-differs", "read=index", step, "session %d: index lookup a=%d returned\n%s\nbut the multiset holds\n%s", i, op.A, indent(rowsKey(got)), indent(rowsKey(want)))
				}
			}
		}
		if s.Autocommit && !m.explicit {
			commitModel(i, step, true)
		}
		if len(res.Violations) >= 4 {
			break
		}
	}
	if !res.Violated() {
		if fresh, err := w.NewSession(ctx, true); err == nil {
			if got, err := fresh.Exec(ctx, "SELECT a, b, COUNT(*) FROM kl GROUP BY a, b"); err == nil {
				res.Evaluations++
				if rowsKey(got) != branch.key() {
					res.Violate("committed-multiplicity-lost", "after=end", len(b.Ops), "the table finally holds\n%s\nbut the acknowledged transactions add up to\n%s", indent(rowsKey(got)), indent(branch.key()))
				}
			}
		}
	}
	res.Ops = len(b.Ops)
	res.LogHash = sig.Sum()
	if overlaps > 0 {
		res.CaseHashes = append(res.CaseHashes, core.Hash64(sig.Sum(), fmt.Sprint(sc.Seed)))
	} else {
		res.Trivial = 1
	}
	res.ProbeN("overlapping_transactions", overlaps)
	res.ProbeN("branch_merges", merges)
	res.Sample = map[string]any{"sessions": b.NSess, "autocommit": b.Autocommit, "statements": len(b.Ops), "overlapping_transactions": overlaps}
	return res
}

func (KL) Shrinks(sc *core.Scenario) []*core.Scenario {
	var b KLBody
	if json.Unmarshal(sc.Body, &b) != nil {
		return nil
	}
	var out []*core.Scenario
	n := len(b.Ops)
	for w := n / 2; w >= 1; w /= 2 {
		for i := 0; i+w <= n; i += w {
			nb := b
			nb.Ops = append(append([]KLOp(nil), b.Ops[:i]...), b.Ops[i+w:]...)
			raw, _ := json.Marshal(nb)
			c := *sc
			c.Body = raw
			out = append(out, &c)
		}
		if len(out) > 120 {
			break
		}
	}
	return out
}
