package sqlh

import (
	"context"
	"encoding/json"
	"fmt"
	"net/http"
	"net/url"
	"os"
	"path/filepath"
	"sort"
	"strings"
	"sync"
	"syscall"
	"testing"
	"time"

	"github.com/sirupsen/logrus"
	"google.golang.org/grpc"

	"dsim/core"
	"dsim/simnet"
	"dsim/simos"
	dstore "dsim/store"

	remotesapi "github.com/dolthub/dolt/go/gen/proto/dolt/services/remotesapi/v1alpha1"
	"github.com/dolthub/dolt/go/libraries/doltcore/dbfactory"
	"github.com/dolthub/dolt/go/libraries/doltcore/doltdb"
	"github.com/dolthub/dolt/go/libraries/doltcore/remotesrv"
	"github.com/dolthub/dolt/go/libraries/doltcore/remotestorage"
	"github.com/dolthub/dolt/go/libraries/utils/filesys"
	"github.com/dolthub/dolt/go/store/chunks"
	"github.com/dolthub/dolt/go/store/datas"
	"github.com/dolthub/dolt/go/store/hash"
	"github.com/dolthub/dolt/go/store/nbs"
	"github.com/dolthub/dolt/go/store/prolly/tree"
	"github.com/dolthub/dolt/go/store/types"
)

// C35 — push, pull, fetch and clone transfer complete and consistent data. Two databases of one
// server (the second one a clone of the first) commit on their branches and exchange them through
// one remote: a file remote (a file-manifest store directory) or an HTTP remote (the real remotesrv
// gRPC service and HTTP file handler, reached through the simulated network). Transfers are
// interrupted by disk errors at the k-th file operation on the destination, by a dying disk, by lost,
// duplicated and truncated network exchanges, and by process death at file-operation positions
// inside the transfer (crash images of the destination, re-opened by the real code). After every
// step a walk from the root of every store (both databases, every clone, the remote) must find every
// chunk, with bytes that hash to its address - content addressing then makes the data identical to
// the source's; the remote's branch heads must be exactly what the acknowledged pushes say; a push
// that is not a fast-forward must be refused unless forced; fetched tracking refs, pulled branches
// and cloned branches must be at the remote's heads.

type REM struct{}

type RemFault struct {
	Kind string `json:"kind"` // disk-eio | disk-dead | crash | net | src-eio (the K-th read of a file of the SOURCE store fails)
	// disk faults: the K-th operation of class Class on the destination fails (the ordinal is counted
	// per class because the puller writes, uploads and finalises in different goroutines: a global
	// ordinal would name a different operation from one execution to the next)
	Class string `json:"class,omitempty"`
	K     int    `json:"k"`
	Rate  int    `json:"rate,omitempty"` // net: one exchange in Rate is disturbed
	// src-eio: count positioned reads only (chunk records; opening a store reads its manifest and its
	// journal sequentially): the failure then strikes the walk of the history, which is under way
	Mid bool `json:"mid,omitempty"`
}

var remFaultClasses = []string{"create:table", "create:temp", "write:table", "write:temp", "rename:table", "rename:temp", "remove:any"}

// remClass names a mutating file operation by kind and by the sort of file it touches.
func remClass(c *simos.Call) string {
	op := c.Op
	switch op {
	case "open", "create":
		op = "create"
	case "write", "writeat":
		op = "write"
	case "rename", "link":
		op = "rename"
	case "remove", "removeall":
		return "remove:any"
	default:
		return op + ":any"
	}
	p := c.Path
	if op == "rename" && c.Path2 != "" {
		p = c.Path2
	}
	b := filepath.Base(p)
	if len(b) == 32 || strings.HasSuffix(b, nbs.ArchiveFileSuffix) {
		return op + ":table"
	}
	return op + ":temp"
}

type RemStep struct {
	Op     string    `json:"op"` // commit | branch | push | fetch | pull | clone | restart | hubrestart | conflict
	DB     int       `json:"db"`
	Branch int       `json:"branch"`
	N      int       `json:"n,omitempty"`
	Force  bool      `json:"force,omitempty"`
	Depth  int       `json:"depth,omitempty"`  // clone: a shallow clone of that depth
	Newest bool      `json:"newest,omitempty"` // the step runs on the newest clone instead of DB
	Fault  *RemFault `json:"fault,omitempty"`
	Retry  bool      `json:"retry,omitempty"` // a failed transfer is tried once more, undisturbed
}

type RemBody struct {
	Seed       uint64    `json:"seed"`
	Backend    string    `json:"backend"` // file | http
	TargetSize uint64    `json:"target_size"`
	Steps      []RemStep `json:"steps"`
	// Only pins one crash image (replay of a violation found in one).
	Only *RemCrash `json:"only,omitempty"`
	// Race, when set, replaces Steps by concurrent pushers under the S1 scheduler.
	Race *RemRace `json:"race,omitempty"`
}

// RemRace: 2-3 sessions (one per database) commit on main and push it without --force while the
// others do the same; a rejected pusher pulls and tries again. The scheduler parks them between
// statements and, inside a transfer, before the remote store's Root / Rebase / Commit /
// AddTableFilesToManifest (file remote) or before every unary RPC and upload (HTTP remote) - the
// window between a push's fast-forward check and its compare-and-swap of the remote's root.
type RemRace struct {
	Sched  []int `json:"sched,omitempty"`
	PCT    int   `json:"pct"`
	NTasks int   `json:"ntasks"`
	Iters  int   `json:"iters"`
	// NewBranch: the pushers race for a branch name the remote does not have yet (each has its own,
	// divergent, commit on it) before they go on racing for main.
	NewBranch bool `json:"new_branch,omitempty"`
}

// RemCrash names a crash point inside a transfer by the ordinal of a structural file-system event
// on the destination (create, rename, unlink, fsync, manifest or journal write) rather than by an
// absolute op-log position, which shifts with the interleaving of the puller's helper goroutines.
type RemCrash struct {
	Step    int           `json:"step"`
	Ord     int           `json:"ord"`
	Before  bool          `json:"before,omitempty"`
	Variant simos.Variant `json:"variant"`
}

type remCrashPos struct {
	ord    int
	before bool
	pos    int
}

func (REM) Generate(seed uint64, tier string) *core.Scenario {
	r := core.NewRand(seed)
	b := RemBody{Seed: r.Uint64(), Backend: "file"}
	if r.Chance(2, 5) {
		b.Backend = "http"
	}
	b.TargetSize = []uint64{1 << 30, 1 << 30, 16384, 4096, 1024}[r.Intn(5)]
	if r.Chance(1, 4) {
		b.Race = &RemRace{PCT: []int{0, 0, 2, 3}[r.Intn(4)], NTasks: r.Range(2, 3), Iters: r.Range(2, 4), NewBranch: r.Chance(1, 2)}
		raw, _ := json.Marshal(b)
		return &core.Scenario{Property: "C35", Harness: "C35", Seed: seed, Tier: tier, Body: raw}
	}
	n := r.Range(12, 36)
	if tier == "thorough" && r.Chance(1, 3) {
		n = r.Range(36, 80)
	}
	faulty := r.Chance(3, 4) // a quarter of the runs are fault free
	fresh := -1
	if faulty && r.Chance(1, 4) {
		fresh = r.Range(2, 8)
	}
	for len(b.Steps) < n {
		st := RemStep{DB: r.Intn(2), Branch: r.Intn(8), N: r.Range(1, 12)}
		transfer := false
		switch x := r.Intn(100); {
		case x < 34:
			st.Op = "commit"
			if r.Chance(1, 6) {
				st.N = r.Range(30, 120) // a bigger commit: several chunks per tree level
			}
		case x < 38:
			st.Op = "branch"
		case x < 40:
			st.Op, transfer = "tagpush", true
		case x < 41:
			st.Op, transfer = "push2", true
		case x < 43:
			st.Op = "delremote"
		case x < 46:
			st.Op, transfer = "backup", true
		case x < 47:
			st.Op, transfer = "restore", true
		case x < 49:
			st.Op = "conflict" // both sides get a row with the same key and different contents
		case x < 66:
			st.Op, transfer = "push", true
			st.Force = r.Chance(1, 5)
		case x < 76:
			st.Op, transfer = "fetch", true
		case x < 87:
			st.Op, transfer = "pull", true
		case x < 93:
			st.Op, transfer = "clone", true
			if r.Chance(1, 4) {
				st.Depth = r.Range(1, 3)
			}
		case x < 97:
			st.Op = "restart"
		default:
			if b.Backend != "http" {
				continue
			}
			st.Op = "hubrestart"
		}
		if transfer && faulty && r.Chance(2, 5) {
			f := &RemFault{K: r.Range(1, 14)}
			st.Retry = r.Chance(1, 2)
			switch y := r.Intn(12); {
			case y >= 10:
				f.Kind, f.K = "src-eio", r.Range(1, 12)
				if r.Chance(2, 3) {
					f.Mid, f.K = true, r.Range(1, 6)
				}
			case y < 3:
				f.Kind, f.Class, f.K = "disk-eio", remFaultClasses[r.Intn(len(remFaultClasses))], r.Range(1, 4)
			case y < 5:
				f.Kind, f.Class, f.K = "disk-dead", remFaultClasses[r.Intn(len(remFaultClasses))], r.Range(1, 4)
			case y < 8:
				f.Kind = "crash"
			default:
				f.Kind = "net"
				f.Rate = r.Range(2, 6)
			}
			if f.Kind == "net" && b.Backend != "http" {
				f.Kind = "crash"
			}
			st.Fault = f
		}
		b.Steps = append(b.Steps, st)
		if len(b.Steps) == fresh {
			// a transfer into a destination that holds nothing yet (a new second remote, a new backup)
			// whose source fails under way, and the retry of it: an empty destination has no references
			// of its own against which a partial delivery could be checked
			// (after a restart: a server that has just written the data serves it from memory)
			op := []string{"push2", "backup"}[r.Intn(2)]
			if r.Chance(1, 2) {
				b.Steps = append(b.Steps, RemStep{Op: "restart"}, RemStep{Op: op, DB: r.Intn(2), Branch: 0, Retry: r.Chance(3, 4),
					Fault: &RemFault{Kind: "src-eio", Mid: r.Chance(3, 4), K: r.Range(1, 6)}})
			} else {
				// the same out of a shallow clone, whose own store lacks the older history
				b.Steps = append(b.Steps, RemStep{Op: "clone", Depth: r.Range(1, 2)}, RemStep{Op: "commit", Newest: true, N: r.Range(1, 4)},
					RemStep{Op: op, Newest: true, Branch: 0, Retry: r.Chance(3, 4)})
			}
		}
	}
	raw, _ := json.Marshal(b)
	return &core.Scenario{Property: "C35", Harness: "C35", Seed: seed, Tier: tier, Body: raw}
}

// ---- the in-process remote server -------------------------------------------------------------------

type hubCache struct {
	mu      sync.Mutex
	dir     string
	journal bool // serve journaling stores (what a sql-server's own databases are)
	dbs     map[string]remotesrv.RemoteSrvStore
}

func (c *hubCache) Get(ctx context.Context, repopath, nbfVerStr string) (remotesrv.RemoteSrvStore, error) {
	c.mu.Lock()
	defer c.mu.Unlock()
	id := filepath.FromSlash(repopath)
	if cs, ok := c.dbs[id]; ok {
		return cs, nil
	}
	p := filepath.Join(c.dir, id)
	if err := os.MkdirAll(p, 0o755); err != nil {
		return nil, err
	}
	var cs *nbs.NomsBlockStore
	var err error
	if c.journal {
		cs, err = nbs.NewLocalJournalingStore(ctx, nbfVerStr, p, nbs.NewUnlimitedMemQuotaProvider(), false, nil)
	} else {
		cs, err = nbs.NewLocalStore(ctx, nbfVerStr, p, 1<<20, nbs.NewUnlimitedMemQuotaProvider(), false)
	}
	if err != nil {
		return nil, err
	}
	c.dbs[id] = cs
	return cs, nil
}

func (c *hubCache) closeAll() {
	c.mu.Lock()
	defer c.mu.Unlock()
	for _, k := range sortedKeysAny(c.dbs) {
		c.dbs[k].Close()
	}
	c.dbs = map[string]remotesrv.RemoteSrvStore{}
}

func sortedKeysAny[V any](m map[string]V) []string {
	ks := make([]string, 0, len(m))
	for k := range m {
		ks = append(ks, k)
	}
	sort.Strings(ks)
	return ks
}

type hub struct {
	dir   string
	net   *simnet.Net
	cache *hubCache
	rcs   *remotesrv.RemoteChunkStore
	fh    http.Handler
}

const hubHost = "simhub:50051"

func newHub(dir string, net *simnet.Net) (*hub, error) {
	if err := os.MkdirAll(dir, 0o755); err != nil {
		return nil, err
	}
	fs, err := filesys.LocalFilesysWithWorkingDir(dir)
	if err != nil {
		return nil, err
	}
	sealer, err := remotesrv.NewSingleSymmetricKeySealer()
	if err != nil {
		return nil, err
	}
	lg := logrus.New()
	lg.SetOutput(discard{})
	lgr := logrus.NewEntry(lg)
	h := &hub{dir: dir, net: net, cache: &hubCache{dir: dir, dbs: map[string]remotesrv.RemoteSrvStore{}}}
	h.rcs = remotesrv.NewHttpFSBackedChunkStore(lgr, hubHost, h.cache, fs, "http", remotesapi.PushConcurrencyControl_PUSH_CONCURRENCY_CONTROL_IGNORE_WORKING_SET, sealer, nil)
	h.fh = remotesrv.NewFileHandler(lgr, h.cache, fs, false, sealer, false)
	return h, nil
}

type discard struct{}

func (discard) Write(p []byte) (int, error) { return len(p), nil }

// hubFactory is registered for the http scheme: what dbfactory.DoltRemoteFactory does, with the
// gRPC connection and the HTTP client replaced by the simulated network.
type hubFactory struct{ h *hub }

func (f hubFactory) PrepareDB(ctx context.Context, nbf *types.NomsBinFormat, u *url.URL, params map[string]interface{}) error {
	return fmt.Errorf("http(s) scheme cannot support this operation")
}

type retryingConn struct{ *simnet.Conn }

func (c retryingConn) Invoke(ctx context.Context, method string, args any, reply any, opts ...grpc.CallOption) error {
	return remotestorage.RetryingUnaryClientInterceptor(ctx, method, args, reply, nil,
		func(ctx context.Context, method string, req, reply any, _ *grpc.ClientConn, opts ...grpc.CallOption) error {
			return c.Conn.Invoke(ctx, method, req, reply, opts...)
		}, opts...)
}

func (f hubFactory) CreateDB(ctx context.Context, nbf *types.NomsBinFormat, u *url.URL, params map[string]interface{}) (datas.Database, types.ValueReadWriter, tree.NodeStore, error) {
	conn := retryingConn{&simnet.Conn{Net: f.h.net, Desc: remotesapi.DsimChunkStoreServiceDesc(), Impl: f.h.rcs}}
	client := remotesapi.NewChunkStoreServiceClient(conn)
	cs, err := remotestorage.NewDoltChunkStoreFromPath(ctx, nbf, u.Path, u.Host, false, client)
	if err != nil {
		return nil, nil, nil, fmt.Errorf("could not access dolt url '%s': %w", u.String(), err)
	}
	cs = cs.WithHTTPFetcher(&simnet.Fetcher{Net: f.h.net, Handler: f.h.fh})
	if _, ok := params[dbfactory.NoCachingParameter]; ok {
		cs = cs.WithNoopChunkCache()
	}
	vrw := types.NewValueStore(cs)
	ns := tree.NewNodeStore(cs)
	return datas.NewTypesDatabase(vrw, ns), vrw, ns, nil
}

// ---- the run ------------------------------------------------------------------------------------------

type remDB struct {
	name   string
	dir    string // relative to the simulated root
	sess   *Sess
	heads  map[string]string // local branches
	tracks map[string]string // remote-tracking branches (origin/x -> hash)
	// a shallow clone: its store lacks the history below some depth
	shallow bool
}

type remRun struct {
	ctx            context.Context
	res            *core.Result
	w              *World
	sos            *simos.OS
	b              *RemBody
	sc             *core.Scenario
	root           string
	url            string
	remDir         string // absolute directory of the remote's store
	remRel         string
	hub            *hub
	net            *simnet.Net
	dbs            []*remDB
	remote         map[string]string   // model of the remote's branches
	parents        map[string][]string // commit DAG (union over every database)
	nextPK         int
	nClone         int
	step           int
	netRate        int
	netSeed        uint64
	remoteTags     map[string]string            // model of the remote's tags (name -> commit)
	backedUp       map[string]map[string]string // database -> branch heads at its last successful backup sync
	nTag, nRestore int
	srcRel         string            // the store a transfer reads from (for source-side read faults)
	second         map[string]string // branches pushed to the second remote, created on first use
	events         []string          // semantic log: one line per step, commits named by where they first appeared
	labels         map[string]string // commit hash -> label
}

// label names a commit independently of its hash (hashes contain timestamps, and the retry back-off
// of the remote client advances the clock by randomised amounts).
func (x *remRun) label(h string) string {
	if h == "" {
		return "-"
	}
	if l, ok := x.labels[h]; ok {
		return l
	}
	l := fmt.Sprintf("c%d@%d", len(x.labels), x.step)
	x.labels[h] = l
	return l
}

// debugf writes to the debugging trace only (never to the event log, which the log hash covers)
func (x *remRun) debugf(format string, a ...any) {
	if dbg := os.Getenv("DSIM_DEBUG_C35"); dbg != "" {
		if f, err := os.OpenFile(dbg, os.O_APPEND|os.O_CREATE|os.O_WRONLY, 0o644); err == nil {
			fmt.Fprintf(f, format+"\n", a...)
			f.Close()
		}
	}
}

func (x *remRun) event(format string, a ...any) {
	x.events = append(x.events, fmt.Sprintf("%d ", x.step)+fmt.Sprintf(format, a...))
	if dbg := os.Getenv("DSIM_DEBUG_C35"); dbg != "" {
		if f, err := os.OpenFile(dbg, os.O_APPEND|os.O_CREATE|os.O_WRONLY, 0o644); err == nil {
			fmt.Fprintln(f, x.events[len(x.events)-1])
			f.Close()
		}
	}
}

func (x *remRun) headsLine(m map[string]string) string {
	var out []string
	for _, b := range sortedBranches(m) {
		out = append(out, b+"="+x.label(m[b]))
	}
	return strings.Join(out, ",")
}

func (REM) Execute(t *testing.T, sc *core.Scenario) *core.Result {
	res := &core.Result{}
	var b RemBody
	if err := json.Unmarshal(sc.Body, &b); err != nil {
		res.Panic = "bad scenario body: " + err.Error()
		return res
	}
	ctx := context.Background()
	root := dstore.NewScratch("sqlrem")
	sos, err := simos.New(root)
	if err != nil {
		res.Panic = err.Error()
		return res
	}
	defer simos.RemoveTree(root)
	sos.Install()
	defer simos.Uninstall()
	oldTarget := doltdb.DsimPullTargetFileSize
	doltdb.DsimPullTargetFileSize = b.TargetSize
	defer func() { doltdb.DsimPullTargetFileSize = oldTarget }()

	x := &remRun{ctx: ctx, res: res, sos: sos, b: &b, sc: sc, root: root, remote: map[string]string{}, parents: map[string][]string{}, nextPK: 100, labels: map[string]string{}, remoteTags: map[string]string{}, backedUp: map[string]map[string]string{}}
	x.net = &simnet.Net{}
	x.net.Decide = x.netDecide
	oldHTTP := dbfactory.DBFactories[dbfactory.HTTPScheme]
	defer func() { dbfactory.DBFactories[dbfactory.HTTPScheme] = oldHTTP }()
	if b.Backend == "http" {
		h, err := newHub(filepath.Join(root, "hub"), x.net)
		if err != nil {
			res.Panic = "hub: " + err.Error()
			return res
		}
		x.hub = h
		defer h.cache.closeAll()
		dbfactory.DBFactories[dbfactory.HTTPScheme] = hubFactory{h}
		x.url = "http://" + hubHost + "/r1"
		x.remDir, x.remRel = filepath.Join(root, "hub", "r1"), "hub/r1"
	} else {
		x.remDir, x.remRel = filepath.Join(root, "remotes", "r1"), "remotes/r1"
		if err := os.MkdirAll(x.remDir, 0o755); err != nil {
			res.Panic = err.Error()
			return res
		}
		x.url = "file://" + x.remDir
	}
	w, err := NewWorld(ctx, root)
	if err != nil {
		res.Panic = "world: " + err.Error()
		return res
	}
	x.w = w
	defer w.Close()

	if !x.setup() {
		return res
	}
	if b.Race != nil {
		x.runRace()
		return res
	}
	for i := range b.Steps {
		x.step = i
		x.doStep(&b.Steps[i])
		x.event("%s remote[%s]", b.Steps[i].Op, x.headsLine(x.remote))
		for _, d := range x.dbs {
			x.event("  %s[%s] tracks[%s]", d.name, x.headsLine(d.heads), x.headsLine(d.tracks))
		}
		if res.Violated() || res.Panic != "" {
			break
		}
	}
	res.Ops = len(b.Steps)
	for _, k := range core.SortedKeys(x.net.Count) {
		if !strings.HasSuffix(k, ":deliver") {
			res.FaultN("net:"+k, x.net.Count[k])
		} else {
			res.ProbeN("net:"+k, x.net.Count[k])
		}
	}
	var sig []string
	for _, st := range b.Steps {
		f := ""
		if st.Fault != nil {
			f = st.Fault.Kind
		}
		sig = append(sig, st.Op+f)
	}
	res.LogHash = fmt.Sprintf("%x", core.Hash64(append(sig, x.events...)...))
	if res.Probes["transfer_ok"] > 0 && (len(res.Faults) > 0) {
		res.CaseHashes = append(res.CaseHashes, core.Hash64(res.LogHash))
	} else {
		res.Trivial = 1
	}
	res.Sample = map[string]any{"backend": b.Backend, "target_file_size": b.TargetSize, "steps": len(b.Steps), "remote_branches": len(x.remote), "commits_known": len(x.parents), "databases": len(x.dbs)}
	return res
}

func (x *remRun) netDecide(kind, name string, id uint64, nth int) simnet.Action {
	if x.netRate <= 0 {
		return simnet.Deliver
	}
	r := core.NewRand(x.netSeed ^ id ^ uint64(nth)*0x9e3779b97f4a7c15)
	if !r.Chance(1, x.netRate) {
		return simnet.Deliver
	}
	switch kind {
	case "http":
		return []simnet.Action{simnet.LoseRequest, simnet.LoseResponse, simnet.Duplicate, simnet.ShortBody}[r.Intn(4)]
	case "stream":
		return simnet.LoseRequest
	}
	return []simnet.Action{simnet.LoseRequest, simnet.LoseResponse, simnet.Duplicate}[r.Intn(3)]
}

func (x *remRun) fail(format string, a ...any) bool {
	x.res.Panic = fmt.Sprintf(format, a...)
	return false
}

func (x *remRun) session(d *remDB) *Sess {
	if d.sess != nil {
		return d.sess
	}
	s, err := x.w.NewSessionNoDB(x.ctx)
	if err != nil {
		x.fail("session: %v", err)
		return nil
	}
	if _, err := s.Exec(x.ctx, "USE `"+d.name+"`"); err != nil {
		x.fail("USE %s: %v", d.name, err)
		return nil
	}
	d.sess = s
	return s
}

func (x *remRun) setup() bool {
	a := &remDB{name: "test", dir: "test"}
	x.dbs = append(x.dbs, a)
	s := x.session(a)
	if s == nil {
		return false
	}
	for _, q := range []string{
		"CREATE TABLE t (pk INT PRIMARY KEY, who VARCHAR(20), payload VARCHAR(300), KEY (who))",
		"INSERT INTO t VALUES (1, 'setup', 'one'), (2, 'setup', 'two'), (3, 'setup', REPEAT('z', 200))",
		"CALL dolt_commit('-Am', 'base')",
		"CALL dolt_remote('add', 'origin', '" + x.url + "')",
		"CALL dolt_push('origin', 'main')",
		"CALL dolt_clone('" + x.url + "', 'peer')",
	} {
		if err := s.MustExec(x.ctx, q); err != nil {
			return x.fail("setup: %v", err)
		}
	}
	x.dbs = append(x.dbs, &remDB{name: "peer", dir: "test/peer"})
	if !x.refresh() {
		return false
	}
	x.remote["main"] = a.heads["main"]
	x.verify("setup", nil, nil)
	return !x.res.Violated() && x.res.Panic == ""
}

// refresh re-reads branches, tracking branches and the commit graph of every database.
func (x *remRun) refresh() bool {
	for _, d := range x.dbs {
		s := x.session(d)
		if s == nil {
			return false
		}
		d.heads, d.tracks = map[string]string{}, map[string]string{}
		rows, err := s.Exec(x.ctx, "SELECT name, hash FROM dolt_branches")
		if err != nil {
			return x.fail("reading the branches of %s: %v", d.name, err)
		}
		for _, r := range rows {
			d.heads[r[0]] = r[1]
		}
		rows, err = s.Exec(x.ctx, "SELECT name, hash FROM dolt_remote_branches")
		if err != nil {
			return x.fail("reading the tracking branches of %s: %v", d.name, err)
		}
		for _, r := range rows {
			d.tracks[strings.TrimPrefix(r[0], "remotes/")] = r[1]
		}
		if d.shallow {
			// a shallow clone cannot list its whole graph (it ends in commits it does not hold): the
			// parents of every commit that is not known yet are looked up one commit at a time
			rows = nil
			todo := []string{}
			for _, m := range []map[string]string{d.heads, d.tracks} {
				for _, k := range sortedBranches(m) {
					todo = append(todo, m[k])
				}
			}
			for len(todo) > 0 {
				h := todo[len(todo)-1]
				todo = todo[:len(todo)-1]
				if _, ok := x.parents[h]; ok {
					continue
				}
				one, err := s.Exec(x.ctx, "SELECT commit_hash, parent_hash FROM dolt_commit_ancestors WHERE commit_hash = '"+h+"'")
				if err != nil {
					continue // below the depth of the clone
				}
				for _, r := range one {
					rows = append(rows, r)
					if r[1] != "NULL" {
						todo = append(todo, r[1])
					}
				}
			}
		} else {
			rows, err = s.Exec(x.ctx, "SELECT commit_hash, parent_hash FROM dolt_commit_ancestors")
			if err != nil {
				return x.fail("reading the commit graph of %s: %v", d.name, err)
			}
		}
		for _, r := range rows {
			have := false
			for _, p := range x.parents[r[0]] {
				have = have || p == r[1]
			}
			if !have && r[1] != "NULL" {
				x.parents[r[0]] = append(x.parents[r[0]], r[1])
			} else if _, ok := x.parents[r[0]]; !ok {
				x.parents[r[0]] = nil
			}
		}
	}
	return true
}

// isAncestor reports whether a is b or an ancestor of b in the recorded commit graph.
func (x *remRun) isAncestor(a, b string) bool {
	seen := map[string]bool{}
	todo := []string{b}
	for len(todo) > 0 {
		h := todo[len(todo)-1]
		todo = todo[:len(todo)-1]
		if h == a {
			return true
		}
		if seen[h] {
			continue
		}
		seen[h] = true
		todo = append(todo, x.parents[h]...)
	}
	return false
}

func sortedBranches(m map[string]string) []string {
	ks := make([]string, 0, len(m))
	for k := range m {
		ks = append(ks, k)
	}
	sort.Strings(ks)
	return ks
}

// openRemote opens the remote's directory with a store object of its own (what another process
// would see) and returns its branch heads and its value store.
func (x *remRun) openStoreDir(dir string, journal bool) (*doltdb.DoltDB, error) {
	params := map[string]interface{}{dbfactory.DisableSingletonCacheParam: "true"}
	if journal {
		params[dbfactory.ChunkJournalParam] = struct{}{}
		// the owner may hold the lock: open read-only at once instead of waiting for the time-out
		params[dbfactory.SkipJournalLockTimeoutParam] = struct{}{}
	}
	return doltdb.LoadDoltDBWithParams(x.ctx, types.Format_DOLT, "file://"+filepath.ToSlash(dir), filesys.LocalFS, params)
}

func branchHeads(ctx context.Context, ddb *doltdb.DoltDB) (map[string]string, error) {
	refs, err := ddb.GetBranchesWithHashes(ctx)
	if err != nil {
		return nil, err
	}
	out := map[string]string{}
	for _, r := range refs {
		out[r.Ref.GetPath()] = r.Hash.String()
	}
	return out, nil
}

// verify runs the global checks after a step. touched names what the step was allowed to change on
// the remote: nil means nothing; otherwise branch -> set of acceptable heads.
func (x *remRun) verify(what string, st *RemStep, allowed map[string][]string) {
	res := x.res
	key := "after=" + what
	// the remote, through a store object of its own
	rdb, err := x.openStoreDir(x.remDir, false)
	if err != nil {
		res.Violate("remote-unreadable", key, x.step, "opening the remote after %s: %s", what, firstLine(err))
		return
	}
	heads, err := branchHeads(x.ctx, rdb)
	if err != nil {
		res.Violate("remote-unreadable", key, x.step, "reading the remote's branches after %s: %s", what, firstLine(err))
		rdb.Close()
		return
	}
	res.Evaluations++
	for _, br := range sortedBranches(heads) {
		got := heads[br]
		want, known := x.remote[br]
		ok := known && got == want
		for _, alt := range allowed[br] {
			ok = ok || got == alt
		}
		if !ok {
			res.Violate("remote-branch-moved-unexpectedly", key+";op="+what, x.step, "remote branch %s is at %s after %s; the acknowledged pushes put it at %q (acceptable here: %v)", br, got, what, want, allowed[br])
		}
		x.remote[br] = got
	}
	for _, br := range sortedBranches(x.remote) {
		if _, ok := heads[br]; !ok {
			res.Violate("remote-branch-vanished", key, x.step, "remote branch %s (at %s) is gone after %s", br, x.remote[br], what)
			delete(x.remote, br)
		}
	}
	if tags, terr := rdb.GetTagsWithHashes(x.ctx); terr == nil {
		got := map[string]string{}
		for _, t := range tags {
			got[t.Tag.Name] = t.Hash.String()
		}
		for _, name := range sortedBranches(x.remoteTags) {
			if got[name] != x.remoteTags[name] {
				res.Violate("remote-tag-wrong", key, x.step, "tag %s was pushed at commit %s; the remote has it at %q after %s", name, x.remoteTags[name], got[name], what)
			}
		}
		for _, name := range sortedBranches(got) {
			if _, ok := x.remoteTags[name]; !ok {
				if alts := allowed["tag:"+name]; len(alts) > 0 && alts[0] == got[name] {
					x.remoteTags[name] = got[name]
				} else {
					res.Violate("remote-tag-invented", key, x.step, "the remote has tag %s (at %s) after %s; no acknowledged push put it there", name, got[name], what)
				}
			}
		}
	}
	if vs, ok := rdb.ValueReadWriter().(*types.ValueStore); ok {
		n, bad, err := walkStore(x.ctx, vs)
		if err != nil {
			res.Violate("store-walk-failed", key+";store=remote", x.step, "%s", firstLine(err))
		} else if len(bad) > 0 {
			res.Violate("ref-points-at-missing-data", key+";store=remote", x.step, "after %s a walk from the root of the remote (%d chunks read) finds: %s", what, n, strings.Join(bad, "; "))
		} else {
			res.ProbeN("chunks_walked", n)
		}
	}
	rdb.Close()
	// every local database, through the store object the engine uses
	for _, d := range x.dbs {
		_, v := dbfactory.DsimSingletonVRW("/" + d.dir + "/.dolt/noms")
		vs, ok := v.(*types.ValueStore)
		if !ok {
			res.Probe("local_store_not_cached")
			continue
		}
		n, bad, err := walkStore(x.ctx, vs)
		if err != nil {
			res.Violate("store-walk-failed", key+";store="+d.name, x.step, "%s", firstLine(err))
		} else if len(bad) > 0 {
			res.Violate("ref-points-at-missing-data", key+";store=local", x.step, "after %s a walk from the root of database %s (%d chunks read) finds: %s", what, d.name, n, strings.Join(bad, "; "))
		} else {
			res.ProbeN("chunks_walked", n)
		}
	}
}

func (x *remRun) pick(d *remDB, idx int) string {
	bs := sortedBranches(d.heads)
	if len(bs) == 0 {
		return "main"
	}
	return bs[idx%len(bs)]
}

func (x *remRun) checkout(d *remDB, br string) bool {
	s := x.session(d)
	if s == nil {
		return false
	}
	if _, err := s.Exec(x.ctx, "CALL dolt_checkout('"+br+"')"); err != nil {
		x.res.Probe("checkout_refused")
		return false
	}
	return true
}

// transferDeadline bounds a transfer statement in simulated time. The property claims nothing about
// progress, but a statement that never returns would keep the run from ending: after the deadline the
// statement's context is cancelled, which makes the transfer an interrupted one (whose leftovers the
// checks that follow look at like those of any failed transfer).
const transferDeadline = 10 * time.Minute

func (x *remRun) transfer(s *Sess, q string) ([][]string, error) {
	ctx, cancel := context.WithTimeout(x.ctx, transferDeadline)
	defer cancel()
	rows, err := s.Exec(ctx, q)
	if ctx.Err() == context.DeadlineExceeded {
		x.res.Probe("transfer_stalled_until_cancelled")
		if err == nil {
			err = ctx.Err()
		}
	}
	return rows, err
}

// armFault installs the fault of a transfer step; the returned function removes it and reports how
// often it fired and the op-log positions of the destination's mutations (for crash images).
func (x *remRun) armFault(f *RemFault, destRel string) func() (fired int, positions []remCrashPos) {
	if f == nil {
		return func() (int, []remCrashPos) { return 0, nil }
	}
	start := x.sos.LogLen()
	fired := 0
	under := func(p string) bool { return p == destRel || strings.HasPrefix(p, destRel+"/") }
	switch f.Kind {
	case "src-eio":
		n := 0
		src := x.srcRel
		x.debugf("   armed src-eio mid=%v k=%d src=%s dest=%s", f.Mid, f.K, src, destRel)
		x.sos.Fault = func(c *simos.Call) error {
			if f.Mid && c.Op != "readat" {
				return nil
			}
			if (c.Op != "read" && c.Op != "readat") || src == "" || !(c.Path == src || strings.HasPrefix(c.Path, src+"/")) {
				return nil
			}
			n++
			if n == f.K {
				fired++
				x.debugf("   src-eio fires at %s of %s", c.Op, c.Path)
				return syscall.EIO
			}
			return nil
		}
	case "disk-eio", "disk-dead":
		n := 0
		dead := false
		x.sos.Fault = func(c *simos.Call) error {
			if !c.Mut || !(under(c.Path) || under(c.Path2)) {
				return nil
			}
			// a failed write to the chunk journal, a failed rename of the manifest and a failed fsync of
			// its directory end the process by design (dherrors.Fatalf): that is the crash fault
			if b := filepath.Base(c.Path); b == nbs.DsimJournalFileName || b == "journal.idx" || b == nbs.DsimManifestFileName || strings.HasPrefix(b, "nbs_manifest_") || c.Op == "fsync" {
				return nil
			}
			if !dead && remClass(c) != f.Class {
				return nil
			}
			n++
			if dead || n == f.K {
				fired++
				if f.Kind == "disk-dead" {
					dead = true
				}
				return syscall.EIO
			}
			return nil
		}
	case "net":
		x.netRate = f.Rate
		x.netSeed = x.b.Seed ^ uint64(x.step+1)*0x2545f4914f6cdd1d
	}
	return func() (int, []remCrashPos) {
		x.sos.Fault = nil
		x.netRate = 0
		if f.Kind == "net" {
			for _, k := range core.SortedKeys(x.net.Count) {
				if !strings.HasSuffix(k, ":deliver") {
					fired += x.net.Count[k]
				}
			}
			return fired, nil
		}
		if f.Kind != "crash" {
			return fired, nil
		}
		var pos []remCrashPos
		log := x.sos.Log()
		ord := 0
		for i := start; i < len(log); i++ {
			e := &log[i]
			if e.Kind == simos.EvMarker || e.Kind == simos.EvFault || !(under(e.Path) || under(e.Path2)) {
				continue
			}
			if e.Kind == simos.EvWrite {
				fc := dstore.FileClass(e.Path, "")
				if fc != "manifest" && fc != "temp-manifest" && fc != "journal" {
					continue
				}
			}
			pos = append(pos, remCrashPos{ord, true, i}, remCrashPos{ord, false, i + 1})
			ord++
		}
		return 0, pos
	}
}

func (x *remRun) doStep(st *RemStep) {
	res := x.res
	d := x.dbs[st.DB%2]
	if st.Newest && len(x.dbs) > 2 {
		d = x.dbs[len(x.dbs)-1]
	}
	switch st.Op {
	case "restart":
		for _, d := range x.dbs {
			d.sess = nil
		}
		if err := x.w.Restart(x.ctx); err != nil {
			res.Violate("restart-failed", "-", x.step, "%s", firstLine(err))
			return
		}
		res.Fault("clean-restart")
		x.refresh()
		x.verify("restart", st, nil)
		return
	case "hubrestart":
		if x.hub != nil {
			x.hub.cache.closeAll()
			res.Fault("remote-server-restart")
		}
		x.verify("hubrestart", st, nil)
		return
	case "branch":
		s := x.session(d)
		if s == nil {
			return
		}
		name := fmt.Sprintf("f%d", len(d.heads)+x.step)
		if _, err := s.Exec(x.ctx, "CALL dolt_branch('"+name+"')"); err == nil {
			res.Probe("branch_created")
			x.event("branch_created")
		}
		x.refresh()
		return
	case "commit", "conflict":
		br := x.pick(d, st.Branch)
		if !x.checkout(d, br) {
			return
		}
		s := x.session(d)
		if st.Op == "conflict" {
			// the same key on both sides with different contents: a later pull has to merge or refuse
			pk := 5000 + st.N
			s.Exec(x.ctx, fmt.Sprintf("REPLACE INTO t VALUES (%d, '%s', 'conflicting %d %s')", pk, d.name, x.step, d.name))
		} else {
			var vals []string
			for i := 0; i < st.N; i++ {
				x.nextPK++
				vals = append(vals, fmt.Sprintf("(%d, '%s', '%s')", x.nextPK, d.name, strings.Repeat(fmt.Sprintf("%d-%d.", x.step, x.nextPK), 1+(x.nextPK*7)%20)))
			}
			if _, err := s.Exec(x.ctx, "INSERT INTO t VALUES "+strings.Join(vals, ", ")); err != nil {
				res.Violate("insert-failed", "-", x.step, "%s", firstLine(err))
				return
			}
		}
		if _, err := s.Exec(x.ctx, fmt.Sprintf("CALL dolt_commit('-Am', 'step %d on %s/%s')", x.step, d.name, br)); err != nil {
			res.Probe("commit_refused")
			x.event("commit_refused")
			return
		}
		res.Probe("commits")
		x.event("commits")
		x.refresh()
		return
	}

	if st.Op == "delremote" {
		// delete a remote branch (never main) by pushing the empty source ref
		for _, br := range sortedBranches(x.remote) {
			if br == "main" {
				continue
			}
			s := x.session(d)
			if s == nil {
				return
			}
			if _, err := s.Exec(x.ctx, "CALL dolt_push('origin', ':"+br+"')"); err == nil {
				delete(x.remote, br)
				res.Probe("remote_branch_deleted")
				x.event("delremote ok")
			} else {
				res.Probe("remote_branch_delete_refused")
				// DeleteRemoteBranch removes the branch at the remote first and the pusher's tracking
				// ref afterwards: a pusher that never fetched the branch gets an error for the second
				// half although the first was done. The property says nothing about deletions, so a
				// branch that is gone after a failed deletion of exactly that branch is accepted.
				if rdb, oerr := x.openStoreDir(x.remDir, false); oerr == nil {
					if heads, herr := branchHeads(x.ctx, rdb); herr == nil {
						if _, still := heads[br]; !still {
							delete(x.remote, br)
							res.Probe("failed_delete_had_removed_the_remote_branch")
						}
					}
					rdb.Close()
				}
			}
			x.refresh()
			x.verify("remote branch deletion", st, nil)
			break
		}
		return
	}
	// transfers
	if !x.refresh() {
		return
	}
	s := x.session(d)
	if s == nil {
		return
	}
	before := map[string]map[string]string{}
	for _, dd := range x.dbs {
		before[dd.name] = copyMap(dd.heads)
	}
	beforeTracks := copyMap(d.tracks)
	switch st.Op {
	case "push":
		br := x.pick(d, st.Branch)
		local := d.heads[br]
		old, had := x.remote[br]
		x.srcRel = d.dir
		disarm := x.armFault(st.Fault, x.remRel)
		q := "CALL dolt_push('origin', '" + br + "')"
		if st.Force {
			q = "CALL dolt_push('--force', 'origin', '" + br + "')"
		}
		_, err := x.transfer(s, q)
		fired, positions := disarm()
		x.noteFault(st.Fault, fired)
		if err != nil && st.Retry {
			res.Probe("retried_after_failure")
			x.debugf("   first attempt failed: %s", firstLine(err))
			_, err = x.transfer(s, q)
		}
		if err == nil {
			res.Probe("transfer_ok")
			res.Probe("push_ok")
			x.event("push_ok")
			if had && !st.Force && !x.isAncestor(old, local) {
				res.Violate("non-fast-forward-push-accepted", "force=false", x.step, "push of %s/%s (%s) succeeded without --force although the remote branch was at %s, which is not an ancestor of it: commits were removed from the remote branch", d.name, br, local, old)
			}
			if had && !x.isAncestor(old, local) {
				res.Probe("forced_non_ff_push")
			}
			x.remote[br] = local
			x.verify("push", st, nil)
		} else {
			res.Probe("push_failed")
			x.event("push_failed")
			if st.Fault == nil && (!had || x.isAncestor(old, local)) {
				res.Probe("push_failed_without_fault:" + firstLine(err)[:min(60, len(firstLine(err)))])
			}
			if had && !x.isAncestor(old, local) && !st.Force {
				res.Probe("non_ff_push_refused")
			}
			// an interrupted push may or may not have moved the branch; never anywhere else
			x.verify("failed push", st, map[string][]string{br: {local}})
		}
		x.crashImages(st, positions, x.remRel, false, func(h map[string]string) string {
			for _, b := range sortedBranches(h) {
				ok := h[b] == x.remote[b] || (b == br && (h[b] == local || (had && h[b] == old)))
				if !ok {
					return fmt.Sprintf("branch %s at %s (before the push %q, pushed %s)", b, h[b], old, local)
				}
			}
			return ""
		})
	case "fetch":
		x.srcRel = x.remRel
		disarm := x.armFault(st.Fault, d.dir)
		_, err := x.transfer(s, "CALL dolt_fetch('origin')")
		fired, positions := disarm()
		x.noteFault(st.Fault, fired)
		if err != nil && st.Retry {
			res.Probe("retried_after_failure")
			x.debugf("   first attempt failed: %s", firstLine(err))
			_, err = x.transfer(s, "CALL dolt_fetch('origin')")
		}
		x.refresh()
		if err == nil {
			res.Probe("transfer_ok")
			res.Probe("fetch_ok")
			x.event("fetch_ok")
			for _, br := range sortedBranches(x.remote) {
				if d.tracks["origin/"+br] != x.remote[br] {
					res.Violate("fetched-ref-not-at-remote-head", "op=fetch", x.step, "after a successful fetch %s has origin/%s at %q, the remote branch is at %s", d.name, br, d.tracks["origin/"+br], x.remote[br])
				}
			}
		} else {
			res.Probe("fetch_failed")
			x.event("fetch_failed")
			for _, k := range sortedBranches(d.tracks) {
				br := strings.TrimPrefix(k, "origin/")
				if d.tracks[k] != beforeTracks[k] && d.tracks[k] != x.remote[br] {
					res.Violate("tracking-ref-invented", "op=failed-fetch", x.step, "after a failed fetch %s has %s at %s: neither its old value %q nor the remote's %q", d.name, k, d.tracks[k], beforeTracks[k], x.remote[br])
				}
			}
		}
		x.localUnchanged(d, before[d.name], "fetch", "")
		x.verify("fetch", st, nil)
		x.crashImages(st, positions, d.dir, true, nil)
	case "pull":
		rbs := sortedBranches(x.remote)
		br := rbs[st.Branch%len(rbs)]
		if _, ok := d.heads[br]; !ok {
			// first make the branch exist locally (fetch + checkout creates it from the tracking ref)
			x.transfer(s, "CALL dolt_fetch('origin')")
			x.refresh()
		}
		if !x.checkout(d, br) {
			return
		}
		x.refresh()
		oldLocal := d.heads[br]
		x.srcRel = x.remRel
		disarm := x.armFault(st.Fault, d.dir)
		_, err := x.transfer(s, "CALL dolt_pull('origin', '"+br+"')")
		fired, positions := disarm()
		x.noteFault(st.Fault, fired)
		if err != nil && st.Retry {
			res.Probe("retried_after_failure")
			x.debugf("   first attempt failed: %s", firstLine(err))
			s.Exec(x.ctx, "CALL dolt_merge('--abort')")
			_, err = x.transfer(s, "CALL dolt_pull('origin', '"+br+"')")
		}
		if err != nil {
			// a conflicting merge leaves the session in a merge state: abort it
			s.Exec(x.ctx, "CALL dolt_merge('--abort')")
		}
		x.refresh()
		if err == nil {
			res.Probe("transfer_ok")
			res.Probe("pull_ok")
			x.event("pull_ok")
			if !x.isAncestor(x.remote[br], d.heads[br]) {
				res.Violate("pulled-branch-misses-remote-commits", "op=pull", x.step, "after a successful pull of %s into %s the branch is at %s, which does not contain the remote head %s", br, d.name, d.heads[br], x.remote[br])
			}
			if len(x.parents[d.heads[br]]) > 1 {
				res.Probe("pull_made_merge_commit")
			}
		} else {
			res.Probe("pull_failed")
			x.event("pull_failed")
		}
		if oldLocal != "" && !x.isAncestor(oldLocal, d.heads[br]) {
			res.Violate("local-commits-lost-by-pull", "op=pull", x.step, "branch %s of %s was at %s before the pull and is at %s, which does not contain it", br, d.name, oldLocal, d.heads[br])
		}
		x.localUnchanged(d, before[d.name], "pull", br)
		x.verify("pull", st, nil)
		x.crashImages(st, positions, d.dir, true, nil)
	case "push2":
		// a second remote that starts empty: the first transfer into it meets a store without a root
		r2Rel := "remotes/r2"
		r2Dir := filepath.Join(x.root, "remotes", "r2")
		if x.second == nil {
			os.MkdirAll(r2Dir, 0o755)
			if _, err := s.Exec(x.ctx, "CALL dolt_remote('add', 'second', 'file://"+r2Dir+"')"); err != nil {
				res.Probe("second_remote_refused")
				return
			}
			x.second = map[string]string{}
		} else if _, ok := d.heads["main"]; ok {
			// the other database may not know the remote yet
			s.Exec(x.ctx, "CALL dolt_remote('add', 'second', 'file://"+r2Dir+"')")
		}
		br := x.pick(d, st.Branch)
		local := d.heads[br]
		x.srcRel = d.dir
		disarm := x.armFault(st.Fault, r2Rel)
		q := "CALL dolt_push('--force', 'second', '" + br + "')"
		_, err := x.transfer(s, q)
		fired, positions := disarm()
		x.noteFault(st.Fault, fired)
		if err != nil && st.Retry {
			res.Probe("retried_after_failure")
			x.debugf("   first attempt failed: %s", firstLine(err))
			_, err = x.transfer(s, q)
		}
		if err == nil {
			res.Probe("transfer_ok")
			res.Probe("push_to_second_remote_ok")
			x.event("push2_ok")
			x.second[br] = local
		} else {
			res.Probe("push_to_second_remote_failed")
			x.event("push2_failed")
		}
		if rdb2, oerr := x.openStoreDir(r2Dir, false); oerr == nil {
			heads, _ := branchHeads(x.ctx, rdb2)
			for _, b2 := range sortedBranches(heads) {
				if heads[b2] != x.second[b2] && !(b2 == br && heads[b2] == local) {
					res.Violate("remote-branch-moved-unexpectedly", "remote=second", x.step, "the second remote has branch %s at %s; acknowledged pushes put it at %q", b2, heads[b2], x.second[b2])
				}
				x.second[b2] = heads[b2]
			}
			if err == nil && heads[br] != local {
				res.Violate("pushed-branch-not-on-remote", "remote=second", x.step, "after a successful push of %s/%s (%s) the second remote has it at %q", d.name, br, local, heads[br])
			}
			if vs, ok := rdb2.ValueReadWriter().(*types.ValueStore); ok {
				if n, bad, werr := walkStore(x.ctx, vs); werr == nil && len(bad) > 0 {
					res.Violate("ref-points-at-missing-data", "after=push;store=second-remote", x.step, "a walk from the root of the second remote (%d chunks read) finds: %s", n, strings.Join(bad, "; "))
				}
			}
			rdb2.Close()
		} else if len(x.second) > 0 {
			res.Violate("remote-unreadable", "remote=second", x.step, "%s", firstLine(oerr))
		}
		x.crashImages(st, positions, r2Rel, false, nil)
	case "tagpush":
		x.nTag++
		name := fmt.Sprintf("v%d", x.nTag)
		if _, err := s.Exec(x.ctx, "CALL dolt_tag('"+name+"')"); err != nil {
			res.Probe("tag_refused")
			return
		}
		rows, err := s.Exec(x.ctx, "SELECT tag_hash FROM dolt_tags WHERE tag_name = '"+name+"'")
		if err != nil || len(rows) != 1 {
			res.Probe("tag_unreadable")
			return
		}
		at := rows[0][0]
		disarm := x.armFault(st.Fault, x.remRel)
		_, err = x.transfer(s, "CALL dolt_push('origin', '"+name+"')")
		fired, positions := disarm()
		x.noteFault(st.Fault, fired)
		if err == nil {
			res.Probe("transfer_ok")
			res.Probe("tag_push_ok")
			x.event("tag_push_ok")
			x.remoteTags[name] = at
			x.verify("tag push", st, nil)
		} else {
			res.Probe("tag_push_failed")
			x.event("tag_push_failed")
			x.verify("failed tag push", st, map[string][]string{"tag:" + name: {at}})
		}
		x.crashImages(st, positions, x.remRel, false, nil)
	case "backup", "restore":
		bkRel := "backups/" + d.name
		bkDir := filepath.Join(x.root, "backups", d.name)
		if _, ok := x.backedUp[d.name]; !ok {
			os.MkdirAll(bkDir, 0o755)
			if _, err := s.Exec(x.ctx, "CALL dolt_backup('add', 'bk', 'file://"+bkDir+"')"); err != nil {
				res.Probe("backup_add_refused")
				return
			}
			x.backedUp[d.name] = nil
		}
		if st.Op == "backup" {
			want := copyMap(d.heads)
			x.srcRel = d.dir
			disarm := x.armFault(st.Fault, bkRel)
			_, err := x.transfer(s, "CALL dolt_backup('sync', 'bk')")
			fired, positions := disarm()
			x.noteFault(st.Fault, fired)
			if err != nil && st.Retry {
				res.Probe("retried_after_failure")
				x.debugf("   first attempt failed: %s", firstLine(err))
				_, err = x.transfer(s, "CALL dolt_backup('sync', 'bk')")
			}
			if err == nil {
				res.Probe("transfer_ok")
				res.Probe("backup_sync_ok")
				x.event("backup_sync_ok")
				x.backedUp[d.name] = want
			} else {
				res.Probe("backup_sync_failed")
				x.event("backup_sync_failed")
			}
			// whatever happened, the backup shows the heads of its last successful sync or of this
			// one, and every ref in it has its data
			bdb, oerr := x.openStoreDir(bkDir, false)
			if oerr != nil {
				if x.backedUp[d.name] != nil {
					res.Violate("backup-unreadable", "op=backup", x.step, "%s", firstLine(oerr))
				}
			} else {
				heads, _ := branchHeads(x.ctx, bdb)
				for _, br := range sortedBranches(heads) {
					prev := ""
					if p := x.backedUp[d.name]; p != nil {
						prev = p[br]
					}
					if heads[br] != want[br] && heads[br] != prev {
						res.Violate("backup-shows-invented-head", "op=backup", x.step, "the backup of %s has branch %s at %s: neither this sync's %q nor the last successful sync's %q", d.name, br, heads[br], want[br], prev)
					}
				}
				if err == nil {
					for _, br := range sortedBranches(want) {
						if heads[br] != want[br] {
							res.Violate("backup-misses-branch", "op=backup", x.step, "after a successful dolt_backup sync of %s the backup has branch %s at %q, the database has it at %s", d.name, br, heads[br], want[br])
						}
					}
				}
				if vs, ok := bdb.ValueReadWriter().(*types.ValueStore); ok {
					if n, bad, werr := walkStore(x.ctx, vs); werr == nil && len(bad) > 0 {
						res.Violate("ref-points-at-missing-data", "store=backup", x.step, "a walk from the root of the backup of %s (%d chunks read) finds: %s", d.name, n, strings.Join(bad, "; "))
					}
				}
				bdb.Close()
			}
			x.crashImages(st, positions, bkRel, false, nil)
			return
		}
		if x.backedUp[d.name] == nil {
			return // nothing to restore yet
		}
		x.nRestore++
		name := fmt.Sprintf("r%d", x.nRestore)
		disarm := x.armFault(st.Fault, "test/"+name)
		_, err := x.transfer(s, "CALL dolt_backup('restore', 'file://"+bkDir+"', '"+name+"')")
		fired, _ := disarm()
		x.noteFault(st.Fault, fired)
		if err != nil {
			res.Probe("backup_restore_failed")
			x.event("backup_restore_failed")
			return
		}
		res.Probe("transfer_ok")
		res.Probe("backup_restore_ok")
		x.event("backup_restore_ok")
		rdbx := &remDB{name: name, dir: "test/" + name}
		rs := x.session(rdbx)
		if rs == nil {
			return
		}
		rows, rerr := rs.Exec(x.ctx, "SELECT name, hash FROM dolt_branches")
		if rerr != nil {
			res.Violate("restored-backup-unreadable", "op=restore", x.step, "%s", firstLine(rerr))
		} else {
			got := map[string]string{}
			for _, r := range rows {
				got[r[0]] = r[1]
			}
			for _, br := range sortedBranches(x.backedUp[d.name]) {
				if got[br] != x.backedUp[d.name][br] {
					res.Violate("restored-backup-differs", "op=restore", x.step, "database %s restored from the backup of %s has branch %s at %q; the backup was synced at %s", name, d.name, br, got[br], x.backedUp[d.name][br])
				}
			}
		}
		if _, v := dbfactory.DsimSingletonVRW("/test/" + name + "/.dolt/noms"); v != nil {
			if vs, ok := v.(*types.ValueStore); ok {
				if n, bad, werr := walkStore(x.ctx, vs); werr == nil && len(bad) > 0 {
					res.Violate("ref-points-at-missing-data", "store=restored", x.step, "a walk from the root of the restored database %s (%d chunks read) finds: %s", name, n, strings.Join(bad, "; "))
				}
			}
		}
		rs.End()
		s.Exec(x.ctx, "DROP DATABASE `"+name+"`")
	case "clone":
		x.nClone++
		name := fmt.Sprintf("c%d", x.nClone)
		rel := "test/" + name
		x.srcRel = x.remRel
		disarm := x.armFault(st.Fault, rel)
		q := "CALL dolt_clone('" + x.url + "', '" + name + "')"
		if st.Depth > 0 {
			// a shallow clone is made by the puller (not by copying chunk files) into a store that holds
			// nothing yet; commits below the depth are recorded as known-absent ("ghosts")
			q = fmt.Sprintf("CALL dolt_clone('--depth', '%d', '%s', '%s')", st.Depth, x.url, name)
		}
		_, err := x.transfer(s, q)
		fired, positions := disarm()
		x.noteFault(st.Fault, fired)
		if err == nil {
			res.Probe("transfer_ok")
			res.Probe("clone_ok")
			x.event("clone_ok")
			c := &remDB{name: name, dir: rel, shallow: st.Depth > 0}
			x.dbs = append(x.dbs, c)
			if !x.refresh() {
				return
			}
			if st.Depth > 0 {
				res.Probe("shallow_clone_ok")
			}
			for _, br := range sortedBranches(x.remote) {
				if st.Depth > 0 && br != "main" {
					continue // a shallow clone takes the default branch only
				}
				if c.tracks["origin/"+br] != x.remote[br] {
					res.Violate("cloned-ref-not-at-remote-head", "op=clone", x.step, "clone %s has origin/%s at %q, the remote branch is at %s", name, br, c.tracks["origin/"+br], x.remote[br])
				}
			}
			if c.heads["main"] != x.remote["main"] {
				res.Violate("cloned-ref-not-at-remote-head", "op=clone;branch=main", x.step, "clone %s has main at %q, the remote's main is at %s", name, c.heads["main"], x.remote["main"])
			}
			rows, err := x.session(c).Exec(x.ctx, "SELECT COUNT(*) FROM t")
			if err != nil || len(rows) != 1 {
				res.Violate("cloned-data-unreadable", "op=clone", x.step, "reading table t of clone %s: %v", name, err)
			}
		} else {
			res.Probe("clone_failed")
			x.event("clone_failed")
			// nothing of a failed clone may be visible as a database
			if rows, err := s.Exec(x.ctx, "SHOW DATABASES LIKE '"+name+"'"); err == nil && len(rows) > 0 {
				res.Probe("failed_clone_left_a_database")
			}
		}
		x.verify("clone", st, nil)
		_ = positions
		// the clones are dropped again to keep the run small (the last two stay)
		if len(x.dbs) > 4 {
			old := x.dbs[2]
			if old.sess != nil {
				old.sess.End()
			}
			if _, err := s.Exec(x.ctx, "DROP DATABASE `"+old.name+"`"); err == nil {
				x.dbs = append(x.dbs[:2], x.dbs[3:]...)
			}
		}
	}
}

func copyMap(m map[string]string) map[string]string {
	out := make(map[string]string, len(m))
	for k, v := range m {
		out[k] = v
	}
	return out
}

func (x *remRun) noteFault(f *RemFault, fired int) {
	if f == nil {
		return
	}
	if fired > 0 {
		x.res.FaultN(f.Kind, 1)
	} else if f.Kind != "crash" {
		x.res.Probe("fault_armed_but_not_reached:" + f.Kind)
	}
}

// localUnchanged: a transfer never moves a local branch other than the one pulled into.
func (x *remRun) localUnchanged(d *remDB, before map[string]string, op, except string) {
	for _, br := range sortedBranches(before) {
		if br == except {
			continue
		}
		if d.heads[br] != before[br] {
			x.res.Violate("local-branch-moved-by-transfer", "op="+op, x.step, "%s moved branch %s of %s from %s to %q", op, br, d.name, before[br], d.heads[br])
		}
	}
}

// crashImages: the process dies at file-operation positions inside the transfer; the destination's
// directory as the simulated disk would hold it is re-opened with the real code and every ref it
// shows must have its data.
func (x *remRun) crashImages(st *RemStep, positions []remCrashPos, destRel string, journal bool, headsOK func(map[string]string) string) {
	if st.Fault == nil || st.Fault.Kind != "crash" || len(positions) == 0 || x.res.Violated() {
		return
	}
	res := x.res
	variants := []simos.Variant{
		{Name: "keep-all", Dirs: "all", Default: simos.FileVariant{Mode: "all"}},
		{Name: "lose-all-unsynced", Dirs: "durable", Default: simos.FileVariant{Mode: "durable"}},
		{Name: "names-only", Dirs: "all", Default: simos.FileVariant{Mode: "durable"}},
	}
	type cs struct {
		remCrashPos
		v simos.Variant
	}
	var cases []cs
	if x.b.Only != nil {
		if x.b.Only.Step != x.step {
			return
		}
		for _, p := range positions {
			if p.ord == x.b.Only.Ord && p.before == x.b.Only.Before {
				cases = []cs{{p, x.b.Only.Variant}}
			}
		}
	} else {
		max := 24
		stride := (len(positions) + max - 1) / max
		off := st.Fault.K % stride
		for i, p := range positions {
			if i%stride != off {
				continue
			}
			for _, v := range variants {
				cases = append(cases, cs{p, v})
			}
		}
	}
	log := x.sos.Log()
	imgRoot := dstore.NewScratch("remimg")
	os.Mkdir(imgRoot, 0o755)
	defer simos.RemoveTree(imgRoot)
	seen := map[string]bool{}
	m := simos.Replay(log, 0)
	at := 0
	for ci, c := range cases {
		if c.pos < at {
			m = simos.Replay(log, 0)
			at = 0
		}
		for at < c.pos {
			m.Apply(&log[at])
			at++
		}
		img := m.Build(c.v, x.sc.Seed).Sub(destRel)
		ih := dstore.ImageHash(img)
		if seen[ih] && x.b.Only == nil {
			continue
		}
		seen[ih] = true
		dir := filepath.Join(imgRoot, fmt.Sprintf("i%d", ci))
		if err := img.Materialize(dir); err != nil {
			res.Panic = "materialising a crash image: " + err.Error()
			return
		}
		pin := func(v *core.Violation) {
			if v == nil {
				return
			}
			b2 := *x.b
			b2.Only = &RemCrash{Step: x.step, Ord: c.ord, Before: c.before, Variant: c.v}
			v.Pinned, _ = json.Marshal(b2)
		}
		res.Evaluations++
		res.Fault("crash:" + c.v.Name)
		key := fmt.Sprintf("op=%s;variant=%s;dest=%s", st.Op, c.v.Name, map[bool]string{true: "local", false: "remote"}[journal])
		p := filepath.Join(dir, filepath.FromSlash(destRel))
		if journal {
			p = filepath.Join(p, ".dolt", "noms")
		}
		if _, err := os.Stat(p); err != nil {
			res.Probe("crash_image_without_store")
			simos.RemoveTree(dir)
			continue
		}
		ddb, err := x.openStoreDir(p, journal)
		if err != nil {
			// a destination that had never been acknowledged (a clone in flight) may be unopenable
			res.Probe("crash_image_unopenable:" + firstLine(err)[:min(50, len(firstLine(err)))])
			if st.Op == "push" || st.Op == "fetch" || st.Op == "pull" {
				pin(res.Violate("destination-unopenable-after-crash", key, x.step, "crash at op-log position %d of a %s (%s): the destination cannot be opened any more: %s", c.pos, st.Op, c.v.Name, firstLine(err)))
			}
			simos.RemoveTree(dir)
			continue
		}
		heads, herr := branchHeads(x.ctx, ddb)
		if herr != nil {
			pin(res.Violate("destination-unreadable-after-crash", key, x.step, "crash at position %d of a %s (%s): %s", c.pos, st.Op, c.v.Name, firstLine(herr)))
		} else if headsOK != nil {
			if msg := headsOK(heads); msg != "" {
				pin(res.Violate("ref-invented-by-interrupted-transfer", key, x.step, "crash at position %d of a %s (%s): %s", c.pos, st.Op, c.v.Name, msg))
			}
		}
		if vs, ok := ddb.ValueReadWriter().(*types.ValueStore); ok {
			n, bad, err := walkStore(x.ctx, vs)
			if err != nil {
				pin(res.Violate("store-walk-failed", key, x.step, "%s", firstLine(err)))
			} else if len(bad) > 0 {
				pin(res.Violate("ref-points-at-missing-data-after-crash", key, x.step, "crash at op-log position %d of a %s (%s, %d chunks read): %s", c.pos, st.Op, c.v.Name, n, strings.Join(bad, "; ")))
			} else {
				res.Probe("crash_image_closed_under_references")
			}
		}
		ddb.Close()
		simos.RemoveTree(dir)
		if res.Violated() {
			return
		}
	}
}

func (REM) Shrinks(sc *core.Scenario) []*core.Scenario {
	var b RemBody
	if json.Unmarshal(sc.Body, &b) != nil {
		return nil
	}
	var out []*core.Scenario
	emit := func(nb RemBody) {
		raw, _ := json.Marshal(nb)
		c := *sc
		c.Body = raw
		out = append(out, &c)
	}
	if b.Only != nil {
		// a pinned crash image: only steps after the crashing one can go
		if b.Only.Step+1 < len(b.Steps) {
			nb := b
			nb.Steps = b.Steps[:b.Only.Step+1]
			emit(nb)
		}
		return out
	}
	for w := len(b.Steps) / 2; w >= 1; w /= 2 {
		for i := 0; i+w <= len(b.Steps); i += w {
			nb := b
			nb.Steps = append(append([]RemStep(nil), b.Steps[:i]...), b.Steps[i+w:]...)
			emit(nb)
		}
		if len(out) > 80 {
			break
		}
	}
	for i := range b.Steps {
		if b.Steps[i].Fault != nil {
			nb := b
			nb.Steps = append([]RemStep(nil), b.Steps...)
			st := nb.Steps[i]
			st.Fault = nil
			nb.Steps[i] = st
			emit(nb)
		}
	}
	if b.TargetSize != 1<<30 {
		nb := b
		nb.TargetSize = 1 << 30
		emit(nb)
	}
	return out
}

// ---- concurrent pushers ---------------------------------------------------------------------------

type raceStore struct {
	*nbs.GenerationalNBS
	y func(string)
}

func (r raceStore) Root(ctx context.Context) (hash.Hash, error) {
	r.y("remote.Root")
	return r.GenerationalNBS.Root(ctx)
}
func (r raceStore) Rebase(ctx context.Context) error {
	r.y("remote.Rebase")
	return r.GenerationalNBS.Rebase(ctx)
}
func (r raceStore) Commit(ctx context.Context, cur, last hash.Hash) (bool, error) {
	r.y("remote.Commit")
	return r.GenerationalNBS.Commit(ctx, cur, last)
}
func (r raceStore) AddTableFilesToManifest(ctx context.Context, m map[string]int, ga chunks.InsertAddrsCurry) error {
	r.y("remote.AddTableFilesToManifest")
	return r.GenerationalNBS.AddTableFilesToManifest(ctx, m, ga)
}

func (x *remRun) runRace() {
	res, rc := x.res, x.b.Race
	// a third database for the third pusher
	if rc.NTasks > 2 {
		if err := x.session(x.dbs[0]).MustExec(x.ctx, "CALL dolt_clone('"+x.url+"', 'third')"); err != nil {
			x.fail("race setup: %v", err)
			return
		}
		x.dbs = append(x.dbs, &remDB{name: "third", dir: "test/third"})
	}
	ch := core.NewChooser(x.b.Seed, rc.Sched)
	s := core.NewSched(ch)
	s.PCTDepth, s.PCTSteps = rc.PCT, 80
	s.KeepTrace = len(rc.Sched) > 0
	seamYields := 0
	yield := func(l string) {
		if s.YieldCurrent(l) {
			seamYields++
		}
	}
	if x.hub != nil {
		x.net.Before = func(kind, name string) {
			if kind == "rpc" || (kind == "http" && name != "GET") {
				switch name {
				case "HasChunks", "GetDownloadLocations", "RefreshTableFileUrl":
					return // issued by the chunk fetcher's own goroutines, several at a time
				}
				yield("net." + name)
			}
		}
		defer func() { x.net.Before = nil }()
	} else {
		// the file remote is one store object per process (dbfactory's cache): wrap it before anybody uses it
		_, v := dbfactory.DsimSingletonVRW(x.remDir)
		vs, ok := v.(*types.ValueStore)
		if !ok {
			x.fail("race setup: the file remote is not in dbfactory's cache (%T)", v)
			return
		}
		wrapped := false
		vs.DsimWrapChunkStore(func(cs chunks.ChunkStore) chunks.ChunkStore {
			if g, ok := cs.(*nbs.GenerationalNBS); ok {
				wrapped = true
				return raceStore{g, yield}
			}
			return cs
		})
		if !wrapped {
			x.fail("race setup: the file remote's chunk store is %T", vs.DsimChunkStore())
			return
		}
	}
	var mu sync.Mutex
	type ack struct {
		who    string
		branch string
		commit string
		it     int
	}
	var acked []ack
	rejected, pulled := 0, 0
	task := func(d *remDB) func(*core.Task) {
		return func(tk *core.Task) {
			ws := x.session(d)
			if ws == nil {
				return
			}
			if rc.NewBranch {
				// everybody creates branch "feat" from main with a commit of their own and pushes it: the
				// remote has no such branch, so the old head every pusher saw is "none"
				mu.Lock()
				x.nextPK++
				pk := x.nextPK
				mu.Unlock()
				for _, q := range []string{"CALL dolt_checkout('-b', 'feat')", fmt.Sprintf("INSERT INTO t VALUES (%d, '%s', 'feat')", pk, d.name), "CALL dolt_commit('-Am', 'feat of " + d.name + "')"} {
					if _, err := ws.Exec(x.ctx, q); err != nil {
						res.Violate("statement-failed", "mode=race", 0, "%s: %s: %s", d.name, q, firstLine(err))
						return
					}
				}
				rows, err := ws.Exec(x.ctx, "SELECT hash FROM dolt_branches WHERE name = 'feat'")
				if err != nil || len(rows) != 1 {
					res.Violate("read-failed", "mode=race", 0, "%s: %v", d.name, err)
					return
				}
				tk.Yield("stmt")
				if _, err := ws.Exec(x.ctx, "CALL dolt_push('origin', 'feat')"); err == nil {
					mu.Lock()
					acked = append(acked, ack{d.name, "feat", rows[0][0], -1})
					mu.Unlock()
					res.Probe("new_branch_push_ok")
				} else {
					res.Probe("new_branch_push_refused")
				}
				if _, err := ws.Exec(x.ctx, "CALL dolt_checkout('main')"); err != nil {
					res.Violate("statement-failed", "mode=race", 0, "%s: checkout main: %s", d.name, firstLine(err))
					return
				}
			}
			for it := 0; it < rc.Iters; it++ {
				tk.Yield("stmt")
				mu.Lock()
				x.nextPK++
				pk := x.nextPK
				mu.Unlock()
				if _, err := ws.Exec(x.ctx, fmt.Sprintf("INSERT INTO t VALUES (%d, '%s', 'race %d')", pk, d.name, it)); err != nil {
					res.Violate("insert-failed", "mode=race", it, "%s: %s", d.name, firstLine(err))
					return
				}
				if _, err := ws.Exec(x.ctx, fmt.Sprintf("CALL dolt_commit('-Am', 'race %s %d')", d.name, it)); err != nil {
					res.Violate("commit-failed", "mode=race", it, "%s: %s", d.name, firstLine(err))
					return
				}
				for attempt := 0; attempt < 3; attempt++ {
					tk.Yield("stmt")
					rows, err := ws.Exec(x.ctx, "SELECT hash FROM dolt_branches WHERE name = 'main'")
					if err != nil || len(rows) != 1 {
						res.Violate("read-failed", "mode=race", it, "%s: %v", d.name, err)
						return
					}
					head := rows[0][0]
					tk.Yield("stmt")
					if _, err := ws.Exec(x.ctx, "CALL dolt_push('origin', 'main')"); err == nil {
						mu.Lock()
						acked = append(acked, ack{d.name, "main", head, it})
						mu.Unlock()
						res.Probe("push_ok")
						res.Probe("transfer_ok")
						break
					}
					mu.Lock()
					rejected++
					mu.Unlock()
					tk.Yield("stmt")
					if _, err := ws.Exec(x.ctx, "CALL dolt_pull('origin', 'main')"); err != nil {
						ws.Exec(x.ctx, "CALL dolt_merge('--abort')")
						res.Probe("pull_failed")
					} else {
						mu.Lock()
						pulled++
						mu.Unlock()
					}
				}
			}
		}
	}
	for _, d := range x.dbs {
		s.Go("pusher-"+d.name, task(d))
	}
	if msg := s.Run(); msg != "" {
		res.Violate("pushers-stuck", "mode=race", 0, "scheduler: %s [%s]\n%s\n%s", msg, s.States(), strings.Join(s.Trace, "\n"), taskStacks())
		return
	}
	res.FaultN("context-switch", s.Switches)
	res.ProbeN("race_seam_yields", seamYields)
	res.ProbeN("non_ff_push_refused", rejected)
	res.ProbeN("pull_ok", pulled)
	x.net.Before = nil
	if !x.refresh() {
		return
	}
	// every acknowledged push must still be contained in the remote's branch: nobody forced
	rdb, err := x.openStoreDir(x.remDir, false)
	if err != nil {
		res.Violate("remote-unreadable", "mode=race", 0, "%s", firstLine(err))
		return
	}
	heads, err := branchHeads(x.ctx, rdb)
	rdb.Close()
	if err != nil {
		res.Violate("remote-unreadable", "mode=race", 0, "%s", firstLine(err))
		return
	}
	// the final head may be a commit no database has yet fetched its ancestors for: fetch everywhere
	for _, d := range x.dbs {
		x.session(d).Exec(x.ctx, "CALL dolt_fetch('origin')")
	}
	x.refresh()
	res.Evaluations++
	for _, a := range acked {
		final := heads[a.branch]
		if !x.isAncestor(a.commit, final) {
			res.Violate("acknowledged-push-lost", "mode=race;branch="+map[bool]string{true: "new", false: "existing"}[a.branch != "main"], a.it, "%s pushed %s to %s without --force and was told it succeeded; the remote's %s ends at %q, which does not contain it: two pushes succeeded against the same old head (acknowledged pushes: %v)", a.who, a.commit, a.branch, a.branch, final, acked)
			break
		}
	}
	for br, h := range heads {
		x.remote[br] = h
	}
	x.verify("concurrent pushes", nil, nil)
	res.Ops = s.Switches + len(acked)
	res.LogHash = s.Hash()
	if s.Switches > 0 && len(acked) > 0 {
		res.CaseHashes = append(res.CaseHashes, core.Hash64(s.Hash()))
	} else {
		res.Trivial = 1
	}
	if res.Violated() {
		b2 := *x.b
		r2 := *rc
		r2.Sched = s.Decisions()
		b2.Race = &r2
		pinned, _ := json.Marshal(b2)
		for _, v := range res.Violations {
			if len(v.Pinned) == 0 {
				v.Pinned = pinned
			}
		}
	}
	res.Sample = map[string]any{"mode": "race", "backend": x.b.Backend, "pushers": len(x.dbs), "iterations": rc.Iters, "acknowledged_pushes": len(acked), "rejected_pushes": rejected, "switches": s.Switches, "seam_yields": seamYields}
}
