package sqlh

import (
	"context"
	"encoding/json"
	"fmt"
	"os"
	"sort"
	"strconv"
	"strings"
	"testing"

	"dsim/core"
	"dsim/simos"

	dstore "dsim/store"
	"github.com/dolthub/dolt/go/libraries/doltcore/ref"
	"github.com/dolthub/dolt/go/store/types"
)

// The transaction harness behind C22 (snapshot reads), C23 (merge at commit, no lost write) and
// C25 (secondary indexes mirror the table). 2-4 sessions on one branch, statement-level
// interleaving (S0); a row-level reference model predicts every read.

type TXN struct{ Prop string }

type TxnOp struct {
	S    int    `json:"s"`    // session
	Kind string `json:"kind"` // begin | commit | rollback | insert | update | delete | bump | read | readpk | readidx | readidx2 | restart | addidx | dropidx
	PK   int    `json:"pk,omitempty"`
	Col  string `json:"col,omitempty"`
	Val  int    `json:"val,omitempty"`
	A    int    `json:"a,omitempty"`
	B    int    `json:"b,omitempty"`
	C    int    `json:"c,omitempty"`
}

type TxnBody struct {
	B2NoWS     bool   `json:"b2_no_ws,omitempty"` // C22: branch b2 starts without a working set (as a branch that arrived by push)
	NSess      int    `json:"nsess"`
	Autocommit []bool `json:"autocommit"`
	// TxCommit: sessions with @@dolt_transaction_commit = 1 (C23): every SQL commit of theirs also
	// creates a dolt commit
	TxCommit []bool  `json:"tx_commit,omitempty"`
	Ops      []TxnOp `json:"ops"`
	// Crash: the run ends with one more transaction whose COMMIT the server does not survive: crash
	// images at the structural file-system events of that statement and after it (crash.go).
	Crash bool      `json:"crash,omitempty"`
	Only  *SQLCrash `json:"only,omitempty"`
}

const (
	pkDom = 6
	aDom  = 4
)

func (h TXN) Generate(seed uint64, tier string) *core.Scenario {
	r := core.NewRand(seed)
	b := TxnBody{NSess: r.Range(2, 4)}
	for i := 0; i < b.NSess; i++ {
		b.Autocommit = append(b.Autocommit, r.Chance(1, 4))
	}
	n := r.Range(20, 70)
	if tier == "thorough" {
		n = r.Range(20, 160)
	}
	if h.Prop == "C23" {
		kr := core.NewRand(seed ^ 0x23)
		for i := 0; i < b.NSess; i++ {
			b.TxCommit = append(b.TxCommit, kr.Chance(1, 3))
		}
	}
	b.B2NoWS = h.Prop == "C22" && r.Chance(1, 2)
	b1Weight := []int{10, 25, 50}[r.Intn(3)] // C25: how busy the second branch is in this run
	for len(b.Ops) < n {
		s := r.Intn(b.NSess)
		x := r.Intn(100)
		switch h.Prop {
		case "C22":
			if x < 97 {
				x = x * 88 / 97 // fewer commits, longer transactions, more reads
			}
		case "C25":
			if x >= 40 && x < 60 {
				x = 70 // more index reads
			}
		}
		switch {
		case x < 8:
			b.Ops = append(b.Ops, TxnOp{S: s, Kind: "begin"})
		case x < 20:
			b.Ops = append(b.Ops, TxnOp{S: s, Kind: "insert", PK: r.Intn(pkDom), A: r.Intn(aDom), B: r.Intn(3), C: r.Intn(3)})
		case x < 36:
			b.Ops = append(b.Ops, TxnOp{S: s, Kind: "update", PK: r.Intn(pkDom), Col: []string{"a", "b", "c"}[r.Intn(3)], Val: r.Intn(aDom)})
		case x < 43:
			b.Ops = append(b.Ops, TxnOp{S: s, Kind: "delete", PK: r.Intn(pkDom)})
		case x < 48:
			b.Ops = append(b.Ops, TxnOp{S: s, Kind: "bump", A: r.Intn(aDom)})
		case x < 58:
			b.Ops = append(b.Ops, TxnOp{S: s, Kind: "read"})
		case x < 63:
			b.Ops = append(b.Ops, TxnOp{S: s, Kind: "readpk", PK: r.Intn(pkDom)})
		case x < 72:
			b.Ops = append(b.Ops, TxnOp{S: s, Kind: "readidx", A: r.Intn(aDom)})
		case x < 77:
			b.Ops = append(b.Ops, TxnOp{S: s, Kind: "readidx2", B: r.Intn(3), C: r.Intn(3)})
		case x < 93:
			if h.Prop == "C23" && r.Chance(1, 5) {
				// a SQL commit that also creates a dolt commit, while other transactions change the working set
				b.Ops = append(b.Ops, TxnOp{S: s, Kind: "dcommittxn"})
			} else {
				b.Ops = append(b.Ops, TxnOp{S: s, Kind: "commit"})
			}
		case x < 97:
			b.Ops = append(b.Ops, TxnOp{S: s, Kind: "rollback"})
		case x < 99:
			if h.Prop == "C25" {
				b.Ops = append(b.Ops, TxnOp{S: s, Kind: []string{"addidx", "dropidx", "addidx", "dropidx", "dropx"}[r.Intn(5)]})
			} else if r.Chance(1, 3) {
				b.Ops = append(b.Ops, TxnOp{S: s, Kind: "dropx"})
			}
		default:
			b.Ops = append(b.Ops, TxnOp{Kind: "restart"})
		}
		if h.Prop == "C22" && r.Chance(1, 4) {
			// a second branch b2, written by its own autocommit session through the revision
			// database name and read by the others inside their transactions
			switch y := r.Intn(15); {
			case y < 3:
				b.Ops = append(b.Ops, TxnOp{Kind: "b2insert", PK: r.Intn(pkDom), A: r.Intn(aDom), B: r.Intn(3), C: r.Intn(3)})
			case y < 4:
				b.Ops = append(b.Ops, TxnOp{Kind: "b2delete", PK: r.Intn(pkDom)})
			case y < 7:
				// a dolt commit on main by a session of its own: HEAD moves under the open transactions
				b.Ops = append(b.Ops, TxnOp{Kind: "dcommit"})
			case y < 11:
				// the table AS OF 'HEAD' / 'HEAD~1' / through `test/main` AS OF 'HEAD': names that mean
				// another commit as soon as somebody commits - but not inside a transaction
				b.Ops = append(b.Ops, TxnOp{S: r.Intn(b.NSess), Kind: "readhead", A: r.Intn(3)})
			default:
				b.Ops = append(b.Ops, TxnOp{S: r.Intn(b.NSess), Kind: "readb2"})
			}
		}
		if h.Prop == "C25" {
			// a second branch edited by its own autocommit session and merged into main now and then
			if r.Intn(100) < b1Weight {
				switch y := r.Intn(100); {
				case y < 25:
					b.Ops = append(b.Ops, TxnOp{Kind: "b1insert", PK: r.Intn(pkDom), A: r.Intn(aDom), B: r.Intn(3), C: r.Intn(3)})
				case y < 45:
					b.Ops = append(b.Ops, TxnOp{Kind: "b1update", PK: r.Intn(pkDom), Col: []string{"a", "b"}[r.Intn(2)], Val: r.Intn(aDom)})
				case y < 68:
					b.Ops = append(b.Ops, TxnOp{Kind: "b1delete", PK: r.Intn(pkDom)})
				case y < 76:
					b.Ops = append(b.Ops, TxnOp{Kind: "b1dropx"})
				default:
					b.Ops = append(b.Ops, TxnOp{Kind: "merge", A: r.Intn(3) / 2}) // A == 1: main into b1, else b1 into main
				}
			}
		}
	}
	for s := 0; s < b.NSess; s++ {
		b.Ops = append(b.Ops, TxnOp{S: s, Kind: "commit"})
	}
	b.Ops = append(b.Ops, TxnOp{S: 0, Kind: "read"})
	b.Crash = h.Prop != "C22" && r.Chance(1, 3)
	if h.Prop == "C23" && b.NSess >= 2 {
		kr := core.NewRand(seed ^ 0x2323)
		if kr.Chance(1, 3) {
			// directed: an autocommit session opens an explicit transaction and ends it with CALL dolt_commit;
			// what it writes afterwards is an autocommit statement again, which the others must see at once
			sa := kr.Intn(b.NSess)
			so := (sa + 1 + kr.Intn(b.NSess-1)) % b.NSess
			b.Autocommit[sa] = true
			seq := []TxnOp{
				{S: sa, Kind: "begin"},
				{S: sa, Kind: "insert", PK: kr.Intn(pkDom), A: kr.Intn(aDom), B: kr.Intn(3), C: kr.Intn(3)},
				{S: sa, Kind: "dcommittxn"},
				{S: sa, Kind: "update", PK: kr.Intn(pkDom), Col: "b", Val: kr.Intn(aDom)},
				{S: sa, Kind: "insert", PK: kr.Intn(pkDom), A: kr.Intn(aDom), B: kr.Intn(3), C: kr.Intn(3)},
				{S: so, Kind: "commit"}, {S: so, Kind: "read"},
			}
			at := kr.Intn(len(b.Ops) + 1)
			b.Ops = append(b.Ops[:at], append(seq, b.Ops[at:]...)...)
		}
	}
	raw, _ := json.Marshal(b)
	return &core.Scenario{Property: h.Prop, Harness: h.Prop, Seed: seed, Tier: tier, Body: raw}
}

// ---- reference model ---------------------------------------------------------------------------

type mrow [4]string // pk, a, b, c (rendered)
type mtab map[int]mrow

func (t mtab) clone() mtab {
	c := mtab{}
	for k, v := range t {
		c[k] = v
	}
	return c
}

func (t mtab) key() string {
	ks := make([]int, 0, len(t))
	for k := range t {
		ks = append(ks, k)
	}
	sort.Ints(ks)
	var ls []string
	for _, k := range ks {
		r := t[k]
		ls = append(ls, strings.Join(r[:], "|"))
	}
	sort.Strings(ls)
	return strings.Join(ls, "\n")
}

// merge3 is the cell-wise three-way merge of one table: base = the transaction's start snapshot,
// theirs = what the branch holds now, mine = the transaction's view. conflict lists the keys on
// which both sides changed the same cell to different values, or one deleted what the other
// modified.
func merge3(base, theirs, mine mtab) (out mtab, conflict []int) {
	out = mtab{}
	keys := map[int]bool{}
	for k := range base {
		keys[k] = true
	}
	for k := range theirs {
		keys[k] = true
	}
	for k := range mine {
		keys[k] = true
	}
	for k := range keys {
		b, bok := base[k]
		t, tok := theirs[k]
		m, mok := mine[k]
		mineChanged := bok != mok || b != m
		theirsChanged := bok != tok || b != t
		switch {
		case !mineChanged:
			if tok {
				out[k] = t
			}
		case !theirsChanged:
			if mok {
				out[k] = m
			}
		case mok == tok && m == t:
			if mok {
				out[k] = m
			}
		case !mok || !tok:
			conflict = append(conflict, k) // delete vs. modify (or delete vs. re-insert)
		case !bok:
			conflict = append(conflict, k) // both inserted the key with different rows
		default:
			var r mrow
			bad := false
			for c := 0; c < 4; c++ {
				switch {
				case m[c] == b[c]:
					r[c] = t[c]
				case t[c] == b[c]:
					r[c] = m[c]
				case m[c] == t[c]:
					r[c] = m[c]
				default:
					bad = true
				}
			}
			if bad {
				conflict = append(conflict, k)
			} else {
				out[k] = r
			}
		}
	}
	sort.Ints(conflict)
	return
}

type msess struct {
	explicit bool // inside START TRANSACTION ... COMMIT (autocommit is suspended until it ends)
	active   bool
	start    mtab
	view     mtab
	view2    mtab // C22: branch b2 as of the transaction's start (never written by these sessions)
	// C22: what HEAD and HEAD~1 of main held at the transaction's start
	head, head1 mtab
	head1Exists bool
}

func (h TXN) Execute(t *testing.T, sc *core.Scenario) *core.Result {
	res := &core.Result{}
	var b TxnBody
	if err := json.Unmarshal(sc.Body, &b); err != nil {
		res.Panic = "bad scenario body: " + err.Error()
		return res
	}
	ctx := context.Background()
	root := dstore.NewScratch("sql")
	sos, err := simos.New(root)
	if err != nil {
		res.Panic = err.Error()
		return res
	}
	defer simos.RemoveTree(root)
	sos.Install()
	defer simos.Uninstall()
	os.Setenv("DOLT_ROOT_PATH", root)
	w, err := NewWorld(ctx, root)
	if err != nil {
		res.Panic = "world: " + err.Error()
		return res
	}
	defer w.Close()
	setup, err := w.NewSession(ctx, true)
	if err != nil {
		res.Panic = "session: " + err.Error()
		return res
	}
	for _, q := range []string{
		"CREATE TABLE kv (pk INT PRIMARY KEY, x INT, a INT, b INT, c VARCHAR(16), INDEX ia (a), INDEX ibc (b, c))",
		"CALL dolt_commit('-Am', 'schema')",
	} {
		if err := setup.MustExec(ctx, q); err != nil {
			res.Panic = "setup: " + err.Error()
			return res
		}
	}
	branch := mtab{}
	branch2 := mtab{}                                   // C22: committed rows of kv on branch b2
	headT, head1T, head1Exists := mtab{}, mtab{}, false // C22: kv at HEAD and HEAD~1 of main (HEAD~1 of the first commit has no kv)
	var dc *Sess                                        // C22: the session that makes dolt commits on main
	hasIA := true
	hasX := true
	newSessions := func() ([]*Sess, []*msess, bool) {
		var ss []*Sess
		var ms []*msess
		for i := 0; i < b.NSess; i++ {
			s, err := w.NewSession(ctx, b.Autocommit[i])
			if err == nil && i < len(b.TxCommit) && b.TxCommit[i] {
				err = s.MustExec(ctx, "SET @@dolt_transaction_commit = 1")
				// (with autocommit off the SET has opened a transaction: end it, as NewSession does after its own SET)
				s.Exec(ctx, "ROLLBACK")
				res.Probe("knob:dolt_transaction_commit")
			}
			if err != nil {
				res.Panic = "session: " + err.Error()
				return nil, nil, false
			}
			ss = append(ss, s)
			ms = append(ms, &msess{})
		}
		return ss, ms, true
	}
	ss, ms, ok := newSessions()
	if !ok {
		return res
	}
	b1Dropped, b1DelAfterDrop := false, false
	var bs, mg *Sess // C25: a session on branch b1 and the session that merges b1 into main
	sideSessions := func() bool {
		if h.Prop != "C25" {
			return true
		}
		var err error
		if bs, err = w.NewSession(ctx, true); err == nil {
			if err = bs.MustExec(ctx, "CALL dolt_checkout('b1')"); err == nil {
				mg, err = w.NewSession(ctx, true)
			}
		}
		if err != nil {
			res.Panic = "side sessions: " + err.Error()
			return false
		}
		return true
	}
	var wb *Sess // C22: writes to b2 through `test/b2`
	if h.Prop == "C22" {
		if err := setup.MustExec(ctx, "CALL dolt_branch('b2')"); err != nil {
			res.Panic = "setup: " + err.Error()
			return res
		}
		if b.B2NoWS {
			// a branch that arrives by push or replication has a head and no working set
			wsRef, err := ref.WorkingSetRefForHead(ref.NewBranchRef("b2"))
			if err == nil {
				err = w.Env.DoltDB(ctx).DeleteWorkingSet(ctx, wsRef)
			}
			if err != nil {
				res.Panic = "setup: deleting the working set of b2: " + err.Error()
				return res
			}
			res.Fault("branch-without-working-set")
		}
	}
	if h.Prop == "C25" {
		if err := setup.MustExec(ctx, "CALL dolt_branch('b1')"); err != nil {
			res.Panic = "setup: " + err.Error()
			return res
		}
	}
	if !sideSessions() {
		return res
	}
	sig := core.NewSig()
	overlaps, commits := 0, 0

	ensureTxn := func(i int) {
		if !ms[i].active {
			ms[i].active = true
			ms[i].start = branch.clone()
			ms[i].view = branch.clone()
			ms[i].view2 = branch2.clone()
			ms[i].head, ms[i].head1, ms[i].head1Exists = headT, head1T, head1Exists
		}
	}
	// commitModel applies the outcome-driven commit. ok = what the engine reported.
	commitModel := func(i, step int, engineOK bool, errMsg string) {
		m := ms[i]
		if !m.active {
			return
		}
		if !engineOK {
			// a conflict makes dolt roll the transaction back by itself; any other commit error
			// leaves the session inside its transaction. The client reaction is the same in both
			// cases, and it puts the session into a state the model knows.
			ss[i].Exec(ctx, "ROLLBACK")
		}
		merged, conflict := merge3(m.start, branch, m.view)
		concurrent := branch.key() != m.start.key()
		if concurrent && m.view.key() != m.start.key() {
			overlaps++
		}
		switch {
		case engineOK && len(conflict) > 0:
			res.Violate("conflicting-transaction-committed", "prop=C23", step, "session %d committed although it and an already committed transaction changed the same cell of pk %v differently (or delete vs. modify)", i, conflict)
			branch = merged
		case engineOK:
			branch = merged
			commits++
			res.Probe("commit_ok")
			if concurrent && m.view.key() != m.start.key() {
				res.Fault("commit-merged-with-concurrent-transaction")
			}
		case !engineOK && len(conflict) == 0:
			// the property forbids lost writes, not refusals; a refusal without a model conflict is
			// counted, and the branch must be untouched (checked by the reads that follow)
			res.Probe("commit_refused_without_model_conflict")
			res.Probe("commit_refused:" + errMsg[:min(60, len(errMsg))])
		default:
			res.Fault("commit-conflict-refused")
		}
		m.active = false
		m.explicit = false
	}
	render := func(v int) string { return strconv.Itoa(v) }
	cstr := func(v int) string { return "c" + strconv.Itoa(v) }

	checkRead := func(i, step int, what string, got [][]string, want []mrow) {
		var ws [][]string
		for _, r := range want {
			ws = append(ws, r[:])
		}
		res.Evaluations++
		if rowsKey(got) != rowsKey(ws) {
			class, prop := "read-differs-from-snapshot", "C22"
			if strings.HasPrefix(what, "index") {
				class, prop = "index-read-differs-from-table", "C25"
			}
			res.Violate(class, "prop="+prop+";read="+what, step, "session %d %s returned\n%s\nbut its snapshot plus own writes holds\n%s", i, what, indent(rowsKey(got)), indent(rowsKey(ws)))
		}
	}
	filter := func(tb mtab, f func(mrow) bool) []mrow {
		var out []mrow
		for _, r := range tb {
			if f(r) {
				out = append(out, r)
			}
		}
		return out
	}
	// indexMirror compares every index lookup of the session with the primary rows it sees itself.
	var indexMirrorS func(sess *Sess, i, step int)
	indexMirror := func(i, step int) { indexMirrorS(ss[i], i, step) }
	indexMirrorS = func(sess *Sess, i, step int) {
		full, err := sess.Exec(ctx, "SELECT pk, a, b, c FROM kv")
		if err != nil {
			return
		}
		for a := -1; a < aDom; a++ {
			q := fmt.Sprintf("SELECT pk, a, b, c FROM kv WHERE a = %d", a)
			if a < 0 {
				q = "SELECT pk, a, b, c FROM kv WHERE a IS NULL"
			}
			got, err := sess.Exec(ctx, q)
			if err != nil {
				res.Violate("index-read-error", "prop=C25", step, "%s: %s", q, firstLine(err))
				continue
			}
			var want [][]string
			for _, r := range full {
				if (a < 0 && r[1] == "NULL") || (a >= 0 && r[1] == render(a)) {
					want = append(want, r)
				}
			}
			res.Evaluations++
			if rowsKey(got) != rowsKey(want) {
				res.Violate("index-differs-from-table", "prop=C25;index=ia", step, "session %d: %s returned\n%s\nbut the table scan of the same session holds\n%s", i, q, indent(rowsKey(got)), indent(rowsKey(want)))
			}
		}
		// covering range scan over (b, c): every index entry must have its row and vice versa
		got, err := sess.Exec(ctx, "SELECT b, c, pk FROM kv WHERE b >= 0 ORDER BY b, c, pk")
		if err == nil {
			var want [][]string
			for _, r := range full {
				if r[2] != "NULL" {
					want = append(want, []string{r[2], r[3], r[0]})
				}
			}
			res.Evaluations++
			if rowsKey(got) != rowsKey(want) {
				res.Violate("index-differs-from-table", "prop=C25;index=ibc", step, "session %d: range scan over (b,c) returned\n%s\nbut the table holds\n%s", i, indent(rowsKey(got)), indent(rowsKey(want)))
			}
		}
	}

	for step, op := range b.Ops {
		if op.S >= b.NSess {
			continue
		}
		i := op.S
		s, m := ss[i], ms[i]
		sig.Add(op.Kind, strconv.Itoa(i))
		switch op.Kind {
		case "restart":
			if err := w.Restart(ctx); err != nil {
				res.Panic = "restart: " + err.Error()
				return res
			}
			ss, ms, ok = newSessions()
			wb, dc = nil, nil
			if !ok || !sideSessions() {
				return res
			}
			res.Fault("clean-restart")
			// committed state must have survived
			got, err := ss[0].Exec(ctx, "SELECT pk, a, b, c FROM kv")
			if err != nil {
				res.Violate("read-error-after-restart", "prop=C23", step, "%s", firstLine(err))
			} else {
				var want [][]string
				for _, r := range branch {
					want = append(want, r[:])
				}
				if rowsKey(got) != rowsKey(want) {
					res.Violate("committed-write-lost", "prop=C23;after=restart", step, "after a clean restart the table holds\n%s\nbut the acknowledged transactions add up to\n%s", indent(rowsKey(got)), indent(rowsKey(want)))
				}
			}
			ss[0].Exec(ctx, "ROLLBACK")
			continue
		case "begin":
			if m.active {
				// START TRANSACTION commits the open transaction first
				_, err := s.Exec(ctx, "START TRANSACTION")
				commitModel(i, step, err == nil, errStr(err))
				if err == nil {
					ensureTxn(i)
					m.explicit = true
				}
			} else {
				if _, err := s.Exec(ctx, "START TRANSACTION"); err == nil {
					ensureTxn(i)
					m.explicit = true
				}
			}
			continue
		case "commit":
			_, err := s.Exec(ctx, "COMMIT")
			commitModel(i, step, err == nil, errStr(err))
			continue
		case "dcommittxn":
			// CALL dolt_commit inside the session's transaction: the transaction is committed (merged with
			// what others committed meanwhile) and a dolt commit is made of the result
			ensureTxn(i)
			_, err := s.Exec(ctx, fmt.Sprintf("CALL dolt_commit('-Am', 'step %d, session %d')", step, i))
			committed := err == nil
			if err == nil {
				res.Fault("sql-commit-that-also-creates-a-dolt-commit")
			} else if strings.Contains(err.Error(), "nothing to commit") {
				// by design (doDoltCommit): when the merged working set equals HEAD the transaction is
				// committed all the same ("dolt_commit is expected to COMMIT") and only then the error
				// is returned - the statement fails, the transaction does not
				res.Probe("dolt_commit_nothing_to_commit")
				committed = true
			}
			commitModel(i, step, committed, errStr(err))
			continue
		case "rollback":
			s.Exec(ctx, "ROLLBACK")
			m.active = false
			m.explicit = false
			continue
		case "b2insert", "b2delete":
			if h.Prop != "C22" {
				continue
			}
			if wb == nil {
				var err error
				if wb, err = w.NewSession(ctx, true); err != nil {
					res.Panic = err.Error()
					return res
				}
			}
			if op.Kind == "b2insert" {
				if _, err := wb.Exec(ctx, fmt.Sprintf("INSERT INTO `test/b2`.kv (pk, a, b, c) VALUES (%d, %d, %d, '%s')", op.PK, op.A, op.B, cstr(op.C))); err == nil {
					branch2[op.PK] = mrow{render(op.PK), render(op.A), render(op.B), cstr(op.C)}
					res.Fault("write-on-second-branch")
				}
			} else if _, err := wb.Exec(ctx, fmt.Sprintf("DELETE FROM `test/b2`.kv WHERE pk = %d", op.PK)); err == nil {
				delete(branch2, op.PK)
			}
			continue
		case "dcommit":
			if h.Prop != "C22" {
				continue
			}
			if dc == nil {
				var err error
				if dc, err = w.NewSession(ctx, true); err != nil {
					res.Panic = err.Error()
					return res
				}
			}
			if _, err := dc.Exec(ctx, fmt.Sprintf("CALL dolt_commit('-Am', 'step %d')", step)); err == nil {
				// an autocommit session commits the committed working set of main
				head1T, head1Exists = headT, true
				headT = branch.clone()
				res.Fault("dolt-commit-under-open-transactions")
			}
			continue
		case "readhead":
			if h.Prop != "C22" {
				continue
			}
			// (decided before the model opens a transaction: a step that executes no statement must not
			// give the model a snapshot the engine does not have)
			if op.A == 1 && ((m.active && !m.head1Exists) || (!m.active && !head1Exists)) {
				continue
			}
			ensureTxn(i)
			q, want, what := "SELECT pk, a, b, c FROM kv AS OF 'HEAD'", m.head, "HEAD"
			switch op.A {
			case 1:
				q, want, what = "SELECT pk, a, b, c FROM kv AS OF 'HEAD~1'", m.head1, "HEAD~1"
			case 2:
				q, what = "SELECT pk, a, b, c FROM `test/main`.kv AS OF 'HEAD'", "`test/main` AS OF HEAD"
			}
			got, err := s.Exec(ctx, q)
			if err != nil {
				res.Probe("read_head_error:" + errStr(err)[:min(50, len(errStr(err)))])
			} else {
				var ws [][]string
				for _, r := range want {
					ws = append(ws, r[:])
				}
				res.Evaluations++
				if rowsKey(got) != rowsKey(ws) {
					res.Violate("read-differs-from-snapshot", "prop=C22;read=as of "+what, step, "session %d read kv AS OF %s and got\n%s\nbut at the start of its transaction that commit held\n%s", i, what, indent(rowsKey(got)), indent(rowsKey(ws)))
				}
				res.Probe("read_as_of_head")
			}
		case "readb2":
			if h.Prop != "C22" {
				continue
			}
			ensureTxn(i)
			got, err := s.Exec(ctx, "SELECT pk, a, b, c FROM `test/b2`.kv")
			if err != nil {
				res.Probe("read_b2_error:" + errStr(err)[:min(50, len(errStr(err)))])
			} else {
				var want [][]string
				for _, r := range m.view2 {
					want = append(want, r[:])
				}
				res.Evaluations++
				if rowsKey(got) != rowsKey(want) {
					res.Violate("read-differs-from-snapshot", "prop=C22;read=other branch", step, "session %d read branch b2 through `test/b2` and got\n%s\nbut b2 held at the start of its transaction\n%s", i, indent(rowsKey(got)), indent(rowsKey(want)))
				}
				res.Probe("read_other_branch")
			}
			if s.Autocommit && !m.explicit {
				commitModel(i, step, true, "")
			}
			continue
		case "b1insert", "b1update", "b1delete", "b1dropx":
			if bs == nil {
				continue
			}
			var q string
			if op.Kind == "b1update" || op.Kind == "b1delete" {
				// aim at a row that exists on b1
				if have, err := bs.Exec(ctx, "SELECT pk FROM kv ORDER BY pk"); err == nil && len(have) > 0 {
					op.PK, _ = strconv.Atoi(have[op.PK%len(have)][0])
				}
			}
			switch op.Kind {
			case "b1insert":
				q = fmt.Sprintf("INSERT INTO kv (pk, a, b, c) VALUES (%d, %d, %d, '%s')", op.PK, op.A, op.B, cstr(op.C))
			case "b1update":
				q = fmt.Sprintf("UPDATE kv SET %s = %d WHERE pk = %d", op.Col, op.Val, op.PK)
			case "b1delete":
				q = fmt.Sprintf("DELETE FROM kv WHERE pk = %d", op.PK)
			default:
				q = "ALTER TABLE kv DROP COLUMN x"
			}
			if _, err := bs.Exec(ctx, q); err == nil {
				res.Fault("edit-on-second-branch")
				res.Probe("ok:" + op.Kind)
				if op.Kind == "b1dropx" {
					b1Dropped = true
				}
				if op.Kind == "b1delete" && b1Dropped {
					b1DelAfterDrop = true
				}
				indexMirrorS(bs, -1, step)
			}
			continue
		case "merge":
			if bs == nil {
				continue
			}
			mg.Exec(ctx, "CALL dolt_commit('-Am', 'main before merge')")
			bs.Exec(ctx, "CALL dolt_commit('-Am', 'b1 before merge')")
			if op.A == 1 {
				// the other direction: b1 catches up with main (b1 is not modelled; only its
				// indexes are compared with its table)
				if rows, err := bs.Exec(ctx, "CALL dolt_merge('main')"); err == nil && len(rows) == 1 && len(rows[0]) >= 3 && rows[0][2] == "0" {
					res.Fault("branch-merge-into-b1")
					indexMirrorS(bs, -1, step)
				}
				continue
			}
			rows, err := mg.Exec(ctx, "CALL dolt_merge('b1')")
			if err == nil && len(rows) == 1 && len(rows[0]) >= 3 && rows[0][2] == "0" {
				res.Fault("branch-merge")
				if b1Dropped && b1DelAfterDrop && hasX {
					res.Probe("merge_of_branch_that_dropped_column_and_deleted")
				}
				b1DelAfterDrop = false
				// what the merge should contain is C29's business (a pure function of the three
				// roots); the row model of main is re-seeded from the merged table, and the
				// indexes are compared with that table
				full, err := mg.Exec(ctx, "SELECT pk, a, b, c FROM kv")
				if err != nil {
					res.Violate("read-error-after-merge", "prop=C25", step, "%s", firstLine(err))
					continue
				}
				branch = mtab{}
				for _, r := range full {
					pk, _ := strconv.Atoi(r[0])
					branch[pk] = mrow{r[0], r[1], r[2], r[3]}
				}
				indexMirrorS(mg, -2, step)
				if _, err := mg.Exec(ctx, "SELECT x FROM kv LIMIT 1"); err != nil {
					hasX = false
				}
			} else {
				res.Probe("branch_merge_refused")
				if err != nil {
					res.Probe("branch_merge_refused:" + errStr(err)[:min(70, len(errStr(err)))])
				}
			}
			continue
		case "dropx":
			// a schema change inside a transaction, concurrent with the others: the unused column x,
			// stored in front of the indexed columns, is dropped (once per run); the row model does
			// not contain x, so nothing changes for it, but every later transaction-commit merge
			// has different schemas on its two sides
			if !hasX || (s.Autocommit && ms[i].explicit) {
				// (whether an autocommit session is still inside START TRANSACTION after the
				// implicit commit of a DDL statement is not the property's business: not generated)
				continue
			}
			ensureTxn(i)
			// ALTER TABLE commits the session's transaction implicitly when the statement ends
			// (also with autocommit off and inside START TRANSACTION): it is a commit point like
			// any other, with the same merge against what was committed meanwhile
			_, err := s.Exec(ctx, "ALTER TABLE kv DROP COLUMN x")
			if err == nil {
				hasX = false
				res.Fault("drop-leading-column-in-transaction")
			} else {
				res.Probe("drop_column_refused:" + errStr(err)[:min(50, len(errStr(err)))])
			}
			commitModel(i, step, err == nil, errStr(err))
			continue
		case "addidx", "dropidx":
			// DDL commits implicitly; keep it simple: only when nobody has an open transaction
			busy := false
			for _, x := range ms {
				if x.active {
					busy = true
				}
			}
			if busy {
				continue
			}
			if op.Kind == "dropidx" && hasIA {
				if _, err := s.Exec(ctx, "ALTER TABLE kv DROP INDEX ia"); err == nil {
					hasIA = false
					res.Fault("drop-index")
				}
			} else if op.Kind == "addidx" && !hasIA {
				if _, err := s.Exec(ctx, "ALTER TABLE kv ADD INDEX ia (a)"); err == nil {
					hasIA = true
					res.Fault("add-index")
				}
			}
			if !s.Autocommit {
				s.Exec(ctx, "COMMIT")
			}
			continue
		}
		// data statements and reads run inside a transaction
		ensureTxn(i)
		switch op.Kind {
		case "insert":
			q := fmt.Sprintf("INSERT INTO kv (pk, a, b, c) VALUES (%d, %d, %d, '%s')", op.PK, op.A, op.B, cstr(op.C))
			_, err := s.Exec(ctx, q)
			_, exists := m.view[op.PK]
			if err == nil {
				if exists {
					res.Violate("duplicate-key-accepted", "prop=C22", step, "session %d: %s succeeded although its snapshot already holds pk %d", i, q, op.PK)
				}
				m.view[op.PK] = mrow{render(op.PK), render(op.A), render(op.B), cstr(op.C)}
			} else if !exists {
				res.Probe("insert_error_unexpected:" + firstLine(err)[:min(50, len(firstLine(err)))])
			}
		case "update":
			q := fmt.Sprintf("UPDATE kv SET %s = %d WHERE pk = %d", op.Col, op.Val, op.PK)
			val := render(op.Val)
			if op.Col == "c" {
				q = fmt.Sprintf("UPDATE kv SET c = '%s' WHERE pk = %d", cstr(op.Val), op.PK)
				val = cstr(op.Val)
			}
			if _, err := s.Exec(ctx, q); err == nil {
				if r, ok := m.view[op.PK]; ok {
					r[map[string]int{"a": 1, "b": 2, "c": 3}[op.Col]] = val
					m.view[op.PK] = r
				}
			} else {
				res.Probe("update_error:" + firstLine(err)[:min(50, len(firstLine(err)))])
			}
		case "delete":
			if _, err := s.Exec(ctx, fmt.Sprintf("DELETE FROM kv WHERE pk = %d", op.PK)); err == nil {
				delete(m.view, op.PK)
			}
		case "bump":
			if _, err := s.Exec(ctx, fmt.Sprintf("UPDATE kv SET b = b + 1 WHERE a = %d", op.A)); err == nil {
				for k, r := range m.view {
					if r[1] == render(op.A) && r[2] != "NULL" {
						n, _ := strconv.Atoi(r[2])
						r[2] = render(n + 1)
						m.view[k] = r
					}
				}
			}
		case "read":
			got, err := s.Exec(ctx, "SELECT pk, a, b, c FROM kv")
			if err != nil {
				res.Violate("read-error", "prop=C22", step, "%s", firstLine(err))
				break
			}
			checkRead(i, step, "full scan", got, filter(m.view, func(mrow) bool { return true }))
		case "readpk":
			got, err := s.Exec(ctx, fmt.Sprintf("SELECT pk, a, b, c FROM kv WHERE pk = %d", op.PK))
			if err == nil {
				checkRead(i, step, "primary key lookup", got, filter(m.view, func(r mrow) bool { return r[0] == render(op.PK) }))
			}
		case "readidx":
			got, err := s.Exec(ctx, fmt.Sprintf("SELECT pk, a, b, c FROM kv WHERE a = %d", op.A))
			if err == nil {
				checkRead(i, step, "index ia lookup", got, filter(m.view, func(r mrow) bool { return r[1] == render(op.A) }))
			}
		case "readidx2":
			got, err := s.Exec(ctx, fmt.Sprintf("SELECT pk, a, b, c FROM kv WHERE b = %d AND c = '%s'", op.B, cstr(op.C)))
			if err == nil {
				checkRead(i, step, "index ibc lookup", got, filter(m.view, func(r mrow) bool { return r[2] == render(op.B) && r[3] == cstr(op.C) }))
			}
		}
		if h.Prop == "C25" && (op.Kind == "insert" || op.Kind == "update" || op.Kind == "delete" || op.Kind == "bump") {
			indexMirror(i, step)
		}
		if s.Autocommit && !m.explicit {
			// the statement was its own transaction: fold it into the branch
			commitModel(i, step, true, "")
		}
		if len(res.Violations) >= 4 {
			break
		}
	}
	// final: the branch equals the fold of all acknowledged transactions; indexes mirror it
	if !res.Violated() {
		fresh, err := w.NewSession(ctx, true)
		if err == nil {
			got, err := fresh.Exec(ctx, "SELECT pk, a, b, c FROM kv")
			if err == nil {
				var want [][]string
				for _, r := range branch {
					want = append(want, r[:])
				}
				res.Evaluations++
				if rowsKey(got) != rowsKey(want) {
					res.Violate("committed-write-lost", "prop=C23;after=end", len(b.Ops), "the table finally holds\n%s\nbut the acknowledged transactions, merged in commit order, add up to\n%s", indent(rowsKey(got)), indent(rowsKey(want)))
				}
			}
			ss = append(ss, fresh)
			indexMirror(len(ss)-1, len(b.Ops))
		}
	}
	if b.Crash && !res.Violated() && res.Panic == "" {
		h.crashPhase(ctx, sc, &b, w, sos, res, branch, indexMirrorS)
	}
	res.Ops = len(b.Ops)
	res.LogHash = sig.Sum()
	if overlaps > 0 {
		res.CaseHashes = append(res.CaseHashes, core.Hash64(sig.Sum(), fmt.Sprint(sc.Seed)))
	} else {
		res.Trivial = 1
	}
	res.ProbeN("overlapping_transactions", overlaps)
	res.Sample = map[string]any{"sessions": b.NSess, "autocommit": b.Autocommit, "statements": len(b.Ops), "commits": commits, "overlapping_transactions": overlaps}
	return res
}

func errStr(err error) string {
	if err == nil {
		return ""
	}
	return firstLine(err)
}

func indent(s string) string {
	if s == "" {
		return "    (no rows)"
	}
	return "    " + strings.ReplaceAll(s, "\n", "\n    ")
}

func (h TXN) Shrinks(sc *core.Scenario) []*core.Scenario {
	var b TxnBody
	if json.Unmarshal(sc.Body, &b) != nil {
		return nil
	}
	var out []*core.Scenario
	emit := func(ops []TxnOp) {
		nb := b
		nb.Ops = ops
		raw, _ := json.Marshal(nb)
		c := *sc
		c.Body = raw
		out = append(out, &c)
	}
	// drop halves, quarters, then single statements
	n := len(b.Ops)
	for w := n / 2; w >= 1; w /= 2 {
		for i := 0; i+w <= n; i += w {
			emit(append(append([]TxnOp(nil), b.Ops[:i]...), b.Ops[i+w:]...))
		}
		if len(out) > 120 {
			break
		}
	}
	return out
}

// crashPhase: one more transaction on main (two new rows, one changed row) is committed and the
// server dies at a structural file-system event of that COMMIT, or right after it. A fresh engine on
// every crash image must come up, show the table either without or with the whole transaction
// (nothing in between, nothing else), with it if the COMMIT had been acknowledged and the crash came
// after the statement returned, keep its indexes equal to the table, keep its store closed under
// references, and accept a new commit.
func (h TXN) crashPhase(ctx context.Context, sc *core.Scenario, b *TxnBody, w *World, sos *simos.OS, res *core.Result, branch mtab, mirror func(*Sess, int, int)) {
	cs, err := w.NewSession(ctx, false)
	if err != nil {
		res.Panic = "crash phase: " + err.Error()
		return
	}
	old := branch.clone()
	neu := branch.clone()
	stmts := []string{"INSERT INTO kv (pk, a, b, c) VALUES (900, 1, 2, 'crash-1')", "INSERT INTO kv (pk, a, b, c) VALUES (901, 2, 0, 'crash-2')"}
	neu[900] = mrow{"900", "1", "2", "crash-1"}
	neu[901] = mrow{"901", "2", "0", "crash-2"}
	ks := make([]int, 0, len(branch))
	for k := range branch {
		ks = append(ks, k)
	}
	sort.Ints(ks)
	if len(ks) > 0 {
		r := branch[ks[0]]
		r[3] = "crash-upd"
		neu[ks[0]] = r
		stmts = append(stmts, fmt.Sprintf("UPDATE kv SET c = 'crash-upd' WHERE pk = %d", ks[0]))
	}
	for _, q := range stmts {
		if _, err := cs.Exec(ctx, q); err != nil {
			res.Probe("crash_phase_statement_refused")
			return
		}
	}
	start := sos.LogLen()
	_, cerr := cs.Exec(ctx, "COMMIT")
	end := sos.LogLen()
	acked := cerr == nil
	if !acked {
		res.Probe("crash_phase_commit_refused")
	}
	log := append([]simos.Event(nil), sos.Log()...)
	// one engine at a time: this world is over
	w.Close()
	simos.Uninstall()
	cases := sqlCrashCases(log, start, end, "test", 8, int(sc.Seed%7), b.Only)
	render := func(t mtab) string {
		var rows [][]string
		for _, r := range t {
			rows = append(rows, r[:])
		}
		return rowsKey(rows)
	}
	forEachCrashImage(ctx, res, log, sc.Seed, cases, "a transaction's COMMIT", func(w2 *World, c sqlCrashCase, desc string, pin func(*core.Violation)) {
		s2, err := w2.NewSession(ctx, true)
		if err != nil {
			pin(res.Violate("server-unusable-after-crash", "what=session", 0, "%s: %s", desc, firstLine(err)))
			return
		}
		got, err := s2.Exec(ctx, "SELECT pk, a, b, c FROM kv")
		if err != nil {
			pin(res.Violate("committed-data-unreadable-after-crash", "variant="+c.Variant.Name, 0, "%s: %s", desc, firstLine(err)))
			return
		}
		g := rowsKey(got)
		switch {
		case g == render(neu) && acked:
			res.Probe("recovered_with_the_transaction")
		case g == render(old) && !(c.End && acked):
			res.Probe("recovered_without_the_transaction")
		case g == render(old):
			pin(res.Violate("acknowledged-transaction-lost-in-crash", "variant="+c.Variant.Name, 0, "%s: COMMIT had been acknowledged, the recovered table holds\n%s\nthe transaction's rows are gone; expected\n%s", desc, indent(g), indent(render(neu))))
		default:
			pin(res.Violate("recovered-state-is-neither-before-nor-after-the-transaction", "variant="+c.Variant.Name, 0, "%s (COMMIT acknowledged: %v): the recovered table holds\n%s\nbefore the transaction it held\n%s\nafter it\n%s", desc, acked, indent(g), indent(render(old)), indent(render(neu))))
		}
		mirror(s2, -1, 0)
		if vs, ok := w2.Env.DoltDB(ctx).ValueReadWriter().(*types.ValueStore); ok {
			if n, bad, err := walkStore(ctx, vs); err == nil && len(bad) > 0 {
				pin(res.Violate("recovered-store-not-closed-under-references", "variant="+c.Variant.Name, 0, "%s: a walk from the recovered root (%d chunks read) finds: %s", desc, n, strings.Join(bad, "; ")))
			}
		}
		if _, err := s2.Exec(ctx, "INSERT INTO kv (pk, a, b, c) VALUES (950, 0, 0, 'after-crash')"); err != nil {
			pin(res.Violate("server-unusable-after-crash", "what=insert", 0, "%s: %s", desc, firstLine(err)))
		} else if _, err := s2.Exec(ctx, "CALL dolt_commit('-Am', 'after the crash')"); err != nil {
			pin(res.Violate("server-unusable-after-crash", "what=dolt_commit", 0, "%s: %s", desc, firstLine(err)))
		}
	}, func(c SQLCrash) []byte {
		b2 := *b
		b2.Only = &c
		raw, _ := json.Marshal(b2)
		return raw
	})
}
