// Package sqlh holds the dsim harnesses of the SQL layer (binary dsim-sql): the production engine
// (engine.NewSqlEngineForEnv) on an on-disk journaling environment over the simulated OS, several
// sessions interleaved at statement level (S0).
package sqlh

import (
	"context"
	"fmt"
	"io"
	"os"
	"path/filepath"
	"runtime/debug"
	"sort"
	"strings"

	"github.com/dolthub/go-mysql-server/sql"

	"github.com/dolthub/dolt/go/cmd/dolt/commands/engine"
	"github.com/dolthub/dolt/go/libraries/doltcore/dbfactory"
	"github.com/dolthub/dolt/go/libraries/doltcore/doltdb"
	"github.com/dolthub/dolt/go/libraries/doltcore/env"
	"github.com/dolthub/dolt/go/libraries/doltcore/sqle/dsess"
	"github.com/dolthub/dolt/go/libraries/utils/config"
	"github.com/dolthub/dolt/go/libraries/utils/filesys"
	"github.com/dolthub/dolt/go/store/types"
)

var sqlTrace = os.Getenv("DSIM_SQLTRACE") != ""

type World struct {
	Root    string // directory that holds test/ (the repository) and home/
	Env     *env.DoltEnv
	SE      *engine.SqlEngine
	DB      string
	nextCon uint32
	Sess    []*Sess
	closed  bool
}

type Sess struct {
	w          *World
	ID         int
	ds         *dsess.DoltSession
	Autocommit bool
}

func homeFunc(root string) func() (string, error) {
	return func() (string, error) { return filepath.Join(root, "home"), nil }
}

func loadEnv(ctx context.Context, root string, init bool) (*env.DoltEnv, error) {
	fs, err := filesys.LocalFilesysWithWorkingDir(root)
	if err != nil {
		return nil, err
	}
	if init {
		if err := fs.MkDirs("test"); err != nil {
			return nil, err
		}
		if err := fs.MkDirs("home"); err != nil {
			return nil, err
		}
	}
	fs, err = fs.WithWorkingDir("test")
	if err != nil {
		return nil, err
	}
	var dEnv *env.DoltEnv
	if init {
		dEnv = env.LoadWithoutDB(ctx, homeFunc(root), fs, doltdb.LocalDirDoltDB, "test")
		cfg, _ := dEnv.Config.GetConfig(env.GlobalConfig)
		cfg.SetStrings(map[string]string{config.UserNameKey: "dsim", config.UserEmailKey: "dsim@example.com"})
		if err := dEnv.InitRepo(ctx, types.Format_DOLT, "dsim", "dsim@example.com", env.DefaultInitBranch); err != nil {
			return nil, fmt.Errorf("InitRepo: %w", err)
		}
	} else {
		dEnv = env.Load(ctx, homeFunc(root), fs, doltdb.LocalDirDoltDB, "test")
		if dEnv.DBLoadError != nil {
			return nil, fmt.Errorf("loading the database: %w", dEnv.DBLoadError)
		}
	}
	return dEnv, nil
}

// NewWorld initialises a repository below root and starts the engine.
func NewWorld(ctx context.Context, root string) (*World, error) {
	w := &World{Root: root, nextCon: 1}
	os.Setenv("DOLT_ROOT_PATH", root)
	if left := dbfactory.DsimSingletonPaths(); len(left) > 0 {
		fmt.Fprintf(os.Stderr, "dsim: databases left open by an earlier run of this process: %v\n", left)
	}
	dEnv, err := loadEnv(ctx, root, true)
	if err != nil {
		return nil, err
	}
	w.Env = dEnv
	if err := w.startEngine(ctx); err != nil {
		return nil, err
	}
	return w, nil
}

func (w *World) startEngine(ctx context.Context) error {
	se, db, err := engine.NewSqlEngineForEnv(ctx, w.Env, func(c *engine.SqlEngineConfig) {
		c.Autocommit = true
	})
	if err != nil {
		return fmt.Errorf("engine: %w", err)
	}
	w.SE, w.DB = se, db
	return nil
}

// Restart closes the engine and every store cleanly and brings everything up again from disk.
// Sessions are gone afterwards (their uncommitted work with them).
func (w *World) Restart(ctx context.Context) error {
	for _, s := range w.Sess {
		s.End()
	}
	w.Sess = nil
	if err := w.closeEngine(); err != nil && !strings.HasPrefix(err.Error(), "panic while closing") {
		return fmt.Errorf("engine close: %w", err)
	}
	if err := dbfactory.CloseAllLocalDatabases(); err != nil {
		return fmt.Errorf("closing databases: %w", err)
	}
	dEnv, err := loadEnv(ctx, w.Root, false)
	if err != nil {
		return err
	}
	w.Env = dEnv
	return w.startEngine(ctx)
}

func (w *World) Close() {
	if w.closed {
		return
	}
	w.closed = true
	for _, s := range w.Sess {
		s.End()
	}
	w.Sess = nil
	if w.SE != nil {
		w.closeEngine()
	}
	dbfactory.CloseAllLocalDatabases()
}

// closeEngine closes the SQL engine. SqlEngine.Close can panic ("close of closed channel": after some
// version-control operations the provider holds two database entries that share one global state,
// and each closes its sequence tracker); that is outside every listed property, and it must not keep
// the stores from being closed - the next run of this process would find them open.
func (w *World) closeEngine() (err error) {
	defer func() {
		if p := recover(); p != nil {
			err = fmt.Errorf("panic while closing the engine: %v", p)
			EngineClosePanics++
		}
	}()
	return w.SE.Close()
}

// EngineClosePanics counts the panics met in closeEngine (reported as a probe by the harnesses that care).
var EngineClosePanics int

// NewSession opens a session the way the wire handler does: own connection id, autocommit set
// explicitly, current database selected.
func (w *World) NewSession(ctx context.Context, autocommit bool) (*Sess, error) {
	w.nextCon++
	base := sql.NewBaseSessionWithClientServer("dsim", sql.Client{User: "root", Address: "%"}, w.nextCon)
	ds, err := w.SE.NewDoltSession(ctx, base)
	if err != nil {
		return nil, err
	}
	s := &Sess{w: w, ID: len(w.Sess), ds: ds, Autocommit: autocommit}
	w.Sess = append(w.Sess, s)
	ac := 0
	if autocommit {
		ac = 1
	}
	if _, err := s.Exec(ctx, fmt.Sprintf("SET @@autocommit = %d", ac)); err != nil {
		return nil, err
	}
	if _, err := s.Exec(ctx, "USE `"+w.DB+"`"); err != nil {
		return nil, err
	}
	// with autocommit off the statements above already opened a transaction (dolt takes the
	// snapshot at the first statement after the previous transaction ended): end it, so that the
	// session's first real statement is where its first transaction begins
	if _, err := s.Exec(ctx, "ROLLBACK"); err != nil {
		return nil, err
	}
	return s, nil
}

// NewSessionNoDB opens an autocommit session without selecting a database (statements name theirs).
func (w *World) NewSessionNoDB(ctx context.Context) (*Sess, error) {
	w.nextCon++
	base := sql.NewBaseSessionWithClientServer("dsim", sql.Client{User: "root", Address: "%"}, w.nextCon)
	ds, err := w.SE.NewDoltSession(ctx, base)
	if err != nil {
		return nil, err
	}
	s := &Sess{w: w, ID: len(w.Sess), ds: ds, Autocommit: true}
	w.Sess = append(w.Sess, s)
	if _, err := s.Exec(ctx, "SET @@autocommit = 1"); err != nil {
		return nil, err
	}
	return s, nil
}

// RestartAnyDB is Restart for worlds whose root database may have been dropped (the server then
// runs on the nested databases alone).
func (w *World) RestartAnyDB(ctx context.Context) error {
	for _, s := range w.Sess {
		s.End()
	}
	w.Sess = nil
	if err := w.closeEngine(); err != nil && !strings.HasPrefix(err.Error(), "panic while closing") {
		return fmt.Errorf("engine close: %w", err)
	}
	if err := dbfactory.CloseAllLocalDatabases(); err != nil {
		return fmt.Errorf("closing databases: %w", err)
	}
	fs, err := filesys.LocalFilesysWithWorkingDir(w.Root)
	if err == nil {
		fs, err = fs.WithWorkingDir("test")
	}
	if err != nil {
		return err
	}
	w.Env = env.Load(ctx, homeFunc(w.Root), fs, doltdb.LocalDirDoltDB, "test")
	if w.Env.DBLoadError != nil && w.Env.HasDoltDataDir() {
		return fmt.Errorf("loading the database: %w", w.Env.DBLoadError)
	}
	return w.startEngine(ctx)
}

// End closes the session; a session whose statement never returned (a stuck run) refuses to end,
// which must not keep the world from being torn down.
func (s *Sess) End() {
	defer func() { recover() }()
	sql.SessionEnd(s.ds)
}

// Exec runs one statement to completion and returns its rows rendered as strings.
func (s *Sess) Exec(ctx context.Context, q string) (rows [][]string, err error) {
	defer func() {
		// a panic inside the engine while it executes a statement is reported like an error of
		// that statement (the harnesses decide what an error at that point means)
		if p := recover(); p != nil {
			rows, err = nil, fmt.Errorf("panic in the engine: %v", p)
			if sqlTrace {
				os.WriteFile(os.Getenv("DSIM_SQLTRACE")+".stack", debug.Stack(), 0o644)
			}
		}
	}()
	if sqlTrace {
		defer func() {
			msg := ""
			if err != nil {
				msg = "  ERR " + firstLine(err)
			}
			if f, ferr := os.OpenFile(os.Getenv("DSIM_SQLTRACE"), os.O_APPEND|os.O_CREATE|os.O_WRONLY, 0o644); ferr == nil {
				fmt.Fprintf(f, "sql[%d] %s  -> %d rows%s\n", s.ID, q, len(rows), msg)
				f.Close()
			}
		}()
	}
	if err := sql.SessionCommandBegin(s.ds); err != nil {
		return nil, err
	}
	defer sql.SessionCommandEnd(s.ds)
	sctx, err := s.w.SE.NewContext(ctx, s.ds)
	if err != nil {
		return nil, err
	}
	sctx.SetCurrentDatabase(s.ds.GetCurrentDatabase())
	_, iter, _, err := s.w.SE.Query(sctx, q)
	if err != nil {
		return nil, err
	}
	defer func() {
		if cerr := iter.Close(sctx); err == nil && cerr != nil {
			err = cerr
		}
	}()
	for {
		r, rerr := iter.Next(sctx)
		if rerr == io.EOF {
			break
		}
		if rerr != nil {
			return nil, rerr
		}
		out := make([]string, len(r))
		for i, v := range r {
			out[i] = render(v)
		}
		rows = append(rows, out)
	}
	return rows, nil
}

func render(v any) string {
	switch x := v.(type) {
	case nil:
		return "NULL"
	case []byte:
		return string(x)
	case fmt.Stringer:
		return x.String()
	}
	return fmt.Sprint(v)
}

// MustExec is for set-up statements.
func (s *Sess) MustExec(ctx context.Context, q string) error {
	if _, err := s.Exec(ctx, q); err != nil {
		return fmt.Errorf("%s: %w", q, err)
	}
	return nil
}

func rowsKey(rows [][]string) string {
	var ls []string
	for _, r := range rows {
		ls = append(ls, strings.Join(r, "|"))
	}
	sort.Strings(ls)
	return strings.Join(ls, "\n")
}

func firstLine(err error) string {
	s := err.Error()
	if i := strings.IndexByte(s, '\n'); i >= 0 {
		s = s[:i]
	}
	if len(s) > 200 {
		s = s[:200]
	}
	return s
}

func mkdir(p string) error { return os.MkdirAll(p, 0o755) }
