package sqlh

import (
	"context"
	"fmt"
	"runtime"
	"strings"
	"sync"
	"sync/atomic"
	"testing/synctest"
	"time"

	"github.com/dolthub/go-mysql-server/sql"
	"github.com/sirupsen/logrus"

	"dsim/core"
	"dsim/simnet"

	"github.com/dolthub/dolt/go/libraries/doltcore/dbfactory"
	"github.com/dolthub/dolt/go/libraries/doltcore/doltdb"
	"github.com/dolthub/dolt/go/libraries/doltcore/sqle/cluster"
	"github.com/dolthub/dolt/go/libraries/utils/filesys"
	"github.com/dolthub/dolt/go/store/chunks"
	"github.com/dolthub/dolt/go/store/hash"
	"github.com/dolthub/dolt/go/store/nbs"
	"github.com/dolthub/dolt/go/store/types"
)

// Cluster mode of C45: the data plane of a primary/standby pair. The primary is the run's SQL
// engine; the real cluster commit hook (replicate loop, one-second retry back-off, ticker, heartbeat,
// wait functions, circuit breaker) is installed on its database exactly as the controller does; its
// destination is a standby store served by the real remotesrv gRPC service and HTTP file handler.
// Every exchange between the two passes a gate the run controls: a step lets n exchanges through, or
// opens the gate, or loses / duplicates exchanges, or partitions the network, or restarts the standby
// server, or lets simulated time pass - interleaved with writes on the primary (working-set writes,
// commits, new branches), some of them with replication acknowledgement (@@dolt_cluster_ack_writes_
// timeout_secs) switched on.
//
// Checked at every quiescent point: the standby's store root is a root the primary has had, never an
// older one than it showed before, and a walk from it finds every chunk; a write acknowledged with
// replication acknowledgement on and no warning is on the standby when the statement returns. Checked
// at the end: once faults stop, the standby reaches the primary's root within 40 simulated seconds.

type CluStep struct {
	Op string `json:"op"`
	N  int    `json:"n,omitempty"`
}

type CluBody struct {
	Journal bool `json:"journal"` // the standby's store is a journaling store (as a sql-server's is)
	Open    bool `json:"open"`    // the gate starts open
	// InitStall: the hook's first read of the primary's root is held for 300 simulated ms right after
	// it happened, and the first write arrives meanwhile
	InitStall bool      `json:"init_stall,omitempty"`
	Steps     []CluStep `json:"steps"`
}

func genCluster(r *core.Rand, tier string) *CluBody {
	b := &CluBody{Journal: r.Chance(1, 2), Open: r.Chance(1, 3), InitStall: r.Chance(1, 2)}
	n := r.Range(15, 50)
	if tier == "thorough" && r.Chance(1, 3) {
		n = r.Range(50, 110)
	}
	for len(b.Steps) < n {
		st := CluStep{N: r.Intn(1000)}
		switch x := r.Intn(100); {
		case x < 34:
			st.Op = "write"
		case x < 56:
			st.Op, st.N = "net", r.Range(1, 12)
		case x < 66:
			st.Op, st.N = "time", []int{5, 300, 1100, 2500, 6000}[r.Intn(5)]
		case x < 71:
			st.Op = "open"
		case x < 76:
			st.Op = "close"
		case x < 80:
			st.Op = "down"
		case x < 84:
			st.Op = "up"
		case x < 88:
			st.Op, st.N = "lossy", r.Range(2, 6)
		case x < 91:
			st.Op = "lossless"
		case x < 95:
			st.Op = "standby-restart"
		case x < 98:
			st.Op = "ack-on"
		default:
			st.Op = "ack-off"
		}
		b.Steps = append(b.Steps, st)
	}
	return b
}

// rootRecorder reports every root the primary's store commits.
type rootRecorder struct {
	*nbs.GenerationalNBS
	on func(hash.Hash)
}

// stallRead, when set, is called after a read of the primary's root (see InitStall).
var stallRead func()

func (r rootRecorder) Root(ctx context.Context) (hash.Hash, error) {
	h, err := r.GenerationalNBS.Root(ctx)
	if f := stallRead; f != nil {
		f()
	}
	return h, err
}

func (r rootRecorder) Commit(ctx context.Context, cur, last hash.Hash) (bool, error) {
	ok, err := r.GenerationalNBS.Commit(ctx, cur, last)
	if ok && err == nil {
		r.on(cur)
	}
	return ok, err
}

type gate struct {
	mu     sync.Mutex
	open   bool
	tokens int
	ch     chan struct{}
	passed int
}

func newGate(open bool) *gate { return &gate{open: open, ch: make(chan struct{})} }

func (g *gate) pass() {
	for {
		g.mu.Lock()
		if g.open || g.tokens > 0 {
			if !g.open {
				g.tokens--
			}
			g.passed++
			g.mu.Unlock()
			return
		}
		ch := g.ch
		g.mu.Unlock()
		<-ch
	}
}

func (g *gate) set(open bool, tokens int) {
	g.mu.Lock()
	g.open = open
	g.tokens = tokens
	close(g.ch)
	g.ch = make(chan struct{})
	g.mu.Unlock()
}

func (x *repRun) runCluster(b *RepBody) {
	res, cb := x.res, b.Cluster
	if cb == nil {
		x.fail("cluster mode without a cluster body")
		return
	}
	x.hub.cache.journal = cb.Journal
	pri := &remDB{name: "test", dir: "test"}
	x.dbs = append(x.dbs, pri)
	s := x.session(pri)
	if s == nil {
		return
	}
	defer func() {
		if cs, err := x.w.NewSessionNoDB(x.ctx); err == nil {
			cs.Exec(x.ctx, "SET @@GLOBAL.dolt_cluster_ack_writes_timeout_secs = 0")
		}
	}()
	for _, q := range []string{
		"CREATE TABLE t (pk INT PRIMARY KEY, who VARCHAR(20), payload VARCHAR(300), KEY (who))",
		"INSERT INTO t VALUES (1, 'setup', 'one'), (2, 'setup', 'two')",
		"CALL dolt_commit('-Am', 'base')",
	} {
		if err := s.MustExec(x.ctx, q); err != nil {
			x.fail("setup: %v", err)
			return
		}
	}
	ddb := x.w.Env.DoltDB(x.ctx)
	tmp, err := x.w.Env.TempTableFilesDir()
	if err != nil {
		x.fail("temp dir: %v", err)
		return
	}
	standbyURL := "http://" + hubHost + "/standby"
	standbyDir := x.hub.dir + "/standby"
	destDBF := func(ctx context.Context) (*doltdb.DoltDB, error) {
		return doltdb.LoadDoltDBWithParams(ctx, types.Format_DOLT, standbyURL, filesys.LocalFS, map[string]interface{}{dbfactory.NoCachingParameter: "true"})
	}
	lg := logrus.New()
	lg.SetOutput(discard{})
	hook := cluster.DsimNewCommitHook(lg, "standby", standbyURL, "test", destDBF, ddb, tmp)
	g := newGate(cb.Open)
	down := false
	x.net.Before = func(kind, name string) { g.pass() }
	x.net.Down = func() bool { return down }
	defer func() { x.net.Before, x.net.Down, stallRead = nil, nil, nil }()

	primaryRoot := func() string {
		h, err := ddb.NomsRoot(x.ctx)
		if err != nil {
			x.fail("primary root: %v", err)
			return ""
		}
		return h.String()
	}
	// every root the primary's store has had, in order: recorded where the store commits them (one
	// statement can move the root more than once, and the hook may replicate any of those roots)
	var hmu sync.Mutex
	history := []string{}
	index := map[string]int{} // root -> last index in history
	record := func(r string) {
		hmu.Lock()
		defer hmu.Unlock()
		if len(history) == 0 || history[len(history)-1] != r {
			history = append(history, r)
			index[r] = len(history) - 1
		}
	}
	idx := func(r string) (int, bool) {
		hmu.Lock()
		defer hmu.Unlock()
		i, ok := index[r]
		return i, ok
	}
	nroots := func() int { hmu.Lock(); defer hmu.Unlock(); return len(history) }
	pvs, ok := ddb.ValueReadWriter().(*types.ValueStore)
	if !ok {
		x.fail("the primary's ValueReadWriter is %T", ddb.ValueReadWriter())
		return
	}
	wrapped := false
	pvs.DsimWrapChunkStore(func(cs chunks.ChunkStore) chunks.ChunkStore {
		if gs, ok := cs.(*nbs.GenerationalNBS); ok {
			wrapped = true
			return rootRecorder{gs, func(h hash.Hash) { record(h.String()) }}
		}
		return cs
	})
	if !wrapped {
		x.fail("the primary's chunk store is %T", pvs.DsimChunkStore())
		return
	}
	note := func() string {
		r := primaryRoot()
		record(r)
		return r
	}
	note()
	// the hook comes up (as the controller brings it up on a primary) ...
	driver := runtime.DsimGoid()
	var firstWriteDone, stallEntered atomic.Bool
	if cb.InitStall {
		// ... and its first look at the primary's root is held for a while right after it has read it,
		// while the first write arrives: whatever the hook does about that write and the root it read,
		// the write must reach the standby
		// (the stall is a bounded spin, not a sleep: on the unchanged tree the hook holds its mutex
		// across this read and the write's commit hook waits for that mutex - a goroutine waiting for a
		// mutex keeps the bubble's clock from moving, so a sleeping reader would never wake)
		stallRead = func() {
			if runtime.DsimGoid() != driver {
				stallRead = nil
				stallEntered.Store(true)
				for i := 0; i < 2_000_000 && !firstWriteDone.Load(); i++ {
					runtime.Gosched()
				}
			}
		}
	}
	ddb.PrependCommitHooks(x.ctx, hook)
	hctx, cancel := context.WithCancel(x.ctx)
	done := hook.DsimStart(hctx, func(ctx context.Context) (*sql.Context, error) { return x.w.SE.NewDefaultContext(ctx) })
	stopped := false
	stop := func() {
		if stopped {
			return
		}
		stopped = true
		// the replicate thread makes a last attempt while it shuts down: let it through
		down = false
		x.netRate = 0
		g.set(true, 0)
		cancel()
		<-done
	}
	defer stop()
	lastStandbyIdx := -1
	ackOn := false
	acked, ackTimedOut, standbyMoves := 0, 0, 0

	check := func(what string) {
		res.Evaluations++
		// at a quiescent point every finished write has gone through the hook's Execute: a hook that
		// calls itself caught up has pushed the primary's current root
		if _, pushed, caughtUp, _ := hook.DsimState(); caughtUp && !stopped {
			if cur := primaryRoot(); pushed.String() != cur {
				res.Violate("hook-caught-up-at-stale-root", "after="+what, x.step, "after %s the commit hook reports that it is caught up, having pushed %s; the primary's store root is %s", what, pushed, cur)
			}
		}
		sdb, err := x.openStoreDir(standbyDir, cb.Journal)
		if err != nil {
			if lastStandbyIdx < 0 {
				return // nothing has reached the standby yet: its directory may not exist
			}
			res.Violate("standby-unreadable", "after="+what, x.step, "opening the standby's store after %s: %s", what, firstLine(err))
			return
		}
		defer sdb.Close()
		rh, err := sdb.NomsRoot(x.ctx)
		if err != nil {
			res.Violate("standby-unreadable", "after="+what, x.step, "%s", firstLine(err))
			return
		}
		if rh.IsEmpty() {
			return
		}
		i, ok := idx(rh.String())
		if !ok {
			res.Violate("standby-shows-invented-state", "after="+what, x.step, "the standby's store root is %s after %s: the primary has never had that root (%d roots so far)", rh, what, nroots())
			return
		}
		if i < lastStandbyIdx {
			res.Violate("standby-went-back", "after="+what, x.step, "the standby's store root went from the primary's root #%d back to #%d after %s", lastStandbyIdx, i, what)
		}
		if i != lastStandbyIdx {
			standbyMoves++
		}
		lastStandbyIdx = i
		if vs, ok := sdb.ValueReadWriter().(*types.ValueStore); ok {
			n, bad, err := walkStore(x.ctx, vs)
			if err != nil {
				res.Violate("store-walk-failed", "store=standby", x.step, "%s", firstLine(err))
			} else if len(bad) > 0 {
				res.Violate("standby-root-points-at-missing-data", "after="+what, x.step, "after %s a walk from the standby's root (%d chunks read) finds: %s", what, n, strings.Join(bad, "; "))
			} else {
				res.ProbeN("chunks_walked", n)
			}
		}
	}

	if cb.InitStall {
		// wait (bounded) until the hook has read the root and sits in the stall
		for i := 0; i < 4_000_000 && !stallEntered.Load(); i++ {
			runtime.Gosched()
		}
		if !stallEntered.Load() {
			res.Probe("hook_initialisation_not_observed")
		}
		x.nextPK++
		if _, err := s.Exec(x.ctx, fmt.Sprintf("INSERT INTO t VALUES (%d, 'pri', 'the write that arrives while the hook initialises')", x.nextPK)); err != nil {
			x.fail("first write: %v", err)
			return
		}
		firstWriteDone.Store(true)
		note()
		res.Fault("write-during-hook-initialisation")
		synctest.Wait()
		x.step = -1
		check("the write that arrived while the hook initialised")
		if res.Violated() {
			return
		}
	}
	nb := 0
	for i := range cb.Steps {
		x.step = i
		st := &cb.Steps[i]
		switch st.Op {
		case "write":
			before := note()
			var q string
			switch st.N % 6 {
			case 0, 1, 2:
				x.nextPK++
				q = fmt.Sprintf("INSERT INTO t VALUES (%d, 'pri', '%s')", x.nextPK, strings.Repeat("w", 1+st.N%120))
			case 3:
				q = fmt.Sprintf("UPDATE t SET payload = 'u%d' WHERE pk = 1", i)
			case 4:
				q = fmt.Sprintf("CALL dolt_commit('-Am', 'step %d')", i)
			case 5:
				nb++
				q = fmt.Sprintf("CALL dolt_branch('b%d')", nb)
			}
			_, err := s.Exec(x.ctx, q)
			warn := ""
			if rows, werr := s.Exec(x.ctx, "SHOW WARNINGS"); werr == nil && len(rows) > 0 {
				warn = rows[0][len(rows[0])-1]
			}
			after := note()
			synctest.Wait()
			x.event("write %s err=%v warn=%v moved=%v", strings.Fields(q)[0], err != nil, warn != "", before != after)
			if err == nil && before != after {
				res.Probe("primary_writes")
				if ackOn {
					if warn == "" {
						acked++
						// acknowledged: the standby must already have this root (or a later one)
						sdb, oerr := x.openStoreDir(standbyDir, cb.Journal)
						if oerr != nil {
							res.Violate("acknowledged-write-not-on-standby", "why=standby-unreadable", i, "%q returned without a replication warning (ack timeout 2s); the standby cannot be opened: %s", q, firstLine(oerr))
						} else {
							rh, _ := sdb.NomsRoot(x.ctx)
							sdb.Close()
							bi, _ := idx(before)
							ai, _ := idx(after)
							if j, ok := idx(rh.String()); !ok || (j <= bi && ai > bi) {
								res.Violate("acknowledged-write-not-on-standby", "why=older-root", i, "%q returned without a replication warning (@@dolt_cluster_ack_writes_timeout_secs = 2): the primary went from root #%d to #%d, the standby is at %s (#%d)", q, bi, ai, rh, j)
							}
						}
					} else {
						ackTimedOut++
					}
				}
			}
			check("write")
		case "net":
			g.set(false, st.N)
			synctest.Wait()
			x.event("net %d", st.N)
			check("net")
		case "open":
			g.set(true, 0)
			synctest.Wait()
			x.event("open")
			check("open")
		case "close":
			g.set(false, 0)
			x.event("close")
		case "time":
			time.Sleep(time.Duration(st.N) * time.Millisecond)
			synctest.Wait()
			res.Fault("clock-advance")
			x.event("time %d", st.N)
			check("time")
		case "down":
			down = true
			res.Fault("partition")
			x.event("down")
		case "up":
			down = false
			x.event("up")
		case "lossy":
			x.netRate, x.netSeed = st.N, x.b.Seed^uint64(i+1)*0x2545f4914f6cdd1d
			res.Fault("lossy-network")
			x.event("lossy %d", st.N)
		case "lossless":
			x.netRate = 0
			x.event("lossless")
		case "standby-restart":
			x.hub.cache.closeAll()
			res.Fault("standby-restart")
			x.event("standby-restart")
			check("standby-restart")
		case "ack-on":
			if _, err := s.Exec(x.ctx, "SET @@GLOBAL.dolt_cluster_ack_writes_timeout_secs = 2"); err == nil {
				ackOn = true
			}
			x.event("ack-on")
		case "ack-off":
			if _, err := s.Exec(x.ctx, "SET @@GLOBAL.dolt_cluster_ack_writes_timeout_secs = 0"); err == nil {
				ackOn = false
			}
			x.event("ack-off")
		}
		if res.Violated() || res.Panic != "" {
			return
		}
	}
	// faults stop: the standby must catch up within a bounded simulated time
	down = false
	x.netRate = 0
	g.set(true, 0)
	want := note()
	converged := -1
	for sec := 0; sec <= 40; sec++ {
		synctest.Wait()
		_, pushed, caughtUp, _ := hook.DsimState()
		if caughtUp && pushed.String() == want {
			converged = sec
			break
		}
		time.Sleep(time.Second)
	}
	if converged < 0 {
		next, pushed, caughtUp, cerr := hook.DsimState()
		res.Violate("standby-did-not-converge", "bound=40s", len(cb.Steps), "40 simulated seconds after the last fault the commit hook has not replicated the primary's root %s (hook: next=%s pushed=%s caughtUp=%v error=%q)", want, next, pushed, caughtUp, cerr)
		return
	}
	res.ProbeN("converged_after_simulated_seconds", converged)
	x.step = len(cb.Steps)
	check("convergence")
	if wi, _ := idx(want); !res.Violated() && lastStandbyIdx != wi {
		res.Violate("standby-did-not-converge", "bound=40s;hook=caught-up", len(cb.Steps), "the commit hook reports that it is caught up at %s, the standby's store is at the primary's root #%d of %d", want, lastStandbyIdx, nroots()-1)
	}
	stop()
	res.ProbeN("exchanges_through_gate", g.passed)
	res.ProbeN("acknowledged_writes", acked)
	res.ProbeN("ack_timed_out", ackTimedOut)
	res.ProbeN("standby_root_moves", standbyMoves)
	res.Ops = len(cb.Steps)
	if standbyMoves > 1 && nroots() > 2 {
		res.CaseHashes = append(res.CaseHashes, core.Hash64(x.events...))
	} else {
		res.Trivial = 1
	}
	res.Sample = map[string]any{"mode": "cluster", "standby_journal": cb.Journal, "steps": len(cb.Steps), "primary_roots": nroots(), "standby_root_moves": standbyMoves, "exchanges": g.passed, "acknowledged_writes": acked, "converged_after_s": converged}
	_ = simnet.Deliver
}
