package sqlh

import (
	"context"
	"encoding/json"
	"fmt"
	"sort"
	"strconv"
	"strings"
	"testing"

	"dsim/core"
	"dsim/simos"
	dstore "dsim/store"
)

// C24 — committed data always satisfies the declared constraints. Several sessions issue
// statements that are legal in their own snapshot and illegal in combination (child insert vs.
// parent delete, the same unique value twice, n and m of one row moved past each other under
// CHECK (n >= m)); after every acknowledged commit - SQL COMMIT, autocommit statement,
// dolt_commit, dolt_merge - an independent evaluator scans the committed tables and re-checks
// primary key, unique, foreign key, NOT NULL and CHECK from first principles. A final forced merge
// (@@dolt_force_transaction_commit) must record every violating row in dolt_constraint_violations.

type CON struct{}

type ConOp struct {
	S    int    `json:"s"` // session; -1 = the session on branch b1
	Kind string `json:"kind"`
	ID   int    `json:"id,omitempty"`
	P    *int   `json:"p,omitempty"` // pid / parent id (nil = NULL)
	U    *int   `json:"u,omitempty"`
	N    int    `json:"n,omitempty"`
	M    int    `json:"m,omitempty"`
	Col  string `json:"col,omitempty"`
	PC   *int   `json:"pc,omitempty"` // child.pc (references parent.code once the second key exists)
	A    *int   `json:"a,omitempty"`  // child.a, child.b: UNIQUE KEY uab (a, b) - a unique key over two columns, so that
	B    *int   `json:"b,omitempty"`  // two sides changing one column each of one row produce a key neither of them had
}

type ConBody struct {
	NSess      int     `json:"nsess"`
	Autocommit []bool  `json:"autocommit"`
	Ops        []ConOp `json:"ops"`
	ForceMerge bool    `json:"force_merge"`
	// Crash: runs without a forced merge may end with one more transaction (a parent, a child that
	// references it, a row with a fresh unique key) whose COMMIT the server does not survive (crash.go)
	Crash bool      `json:"crash,omitempty"`
	Only  *SQLCrash `json:"only,omitempty"`
}

func (CON) Generate(seed uint64, tier string) *core.Scenario {
	r := core.NewRand(seed)
	b := ConBody{NSess: r.Range(2, 4), ForceMerge: r.Chance(2, 3)}
	for i := 0; i < b.NSess; i++ {
		b.Autocommit = append(b.Autocommit, r.Chance(1, 4))
	}
	ip := func(v int) *int { return &v }
	mayNull := func(n int) *int {
		if r.Chance(1, 6) {
			return nil
		}
		return ip(r.Intn(n))
	}
	n := r.Range(25, 80)
	if tier == "thorough" && r.Chance(1, 3) {
		n = r.Range(60, 160)
	}
	for len(b.Ops) < n {
		s := r.Intn(b.NSess)
		if r.Chance(1, 6) {
			s = -1
		}
		switch x := r.Intn(100); {
		case x < 10:
			b.Ops = append(b.Ops, ConOp{S: s, Kind: "pins", ID: r.Intn(4), N: r.Intn(4)})
		case x < 12:
			if r.Chance(1, 3) {
				// a second foreign key (child.pc -> parent.code, a non-key column), a second unique key
				// (n, m) or a second CHECK (m < 3) declared on main after b1 branched off: the merge base
				// knows neither the constraint nor its index
				b.Ops = append(b.Ops, ConOp{S: s, Kind: []string{"addfk", "adduq", "addck", "mkuniq", "mkuniq"}[r.Intn(5)]})
			} else {
				b.Ops = append(b.Ops, ConOp{S: s, Kind: "pupd", ID: r.Intn(4), N: r.Intn(4)})
			}
		case x < 22:
			b.Ops = append(b.Ops, ConOp{S: s, Kind: "pdel", ID: r.Intn(4)})
		case x < 42:
			nn := r.Range(0, 3)
			b.Ops = append(b.Ops, ConOp{S: s, Kind: "cins", ID: r.Intn(6), P: mayNull(4), U: mayNull(4), N: nn, M: r.Range(-1, nn), PC: mayNull(4), A: mayNull(2), B: mayNull(2)})
		case x < 50:
			b.Ops = append(b.Ops, ConOp{S: s, Kind: "cupd", ID: r.Intn(6), Col: "pid", P: mayNull(4)})
		case x < 58:
			b.Ops = append(b.Ops, ConOp{S: s, Kind: "cupd", ID: r.Intn(6), Col: "u", U: mayNull(4)})
		case x < 61:
			if r.Chance(1, 2) {
				b.Ops = append(b.Ops, ConOp{S: s, Kind: "cupd", ID: r.Intn(6), Col: "a", A: mayNull(2)})
			} else {
				b.Ops = append(b.Ops, ConOp{S: s, Kind: "cupd", ID: r.Intn(6), Col: "b", B: mayNull(2)})
			}
		case x < 64:
			b.Ops = append(b.Ops, ConOp{S: s, Kind: "cupd", ID: r.Intn(6), Col: "n", N: r.Range(-1, 3)})
		case x < 70:
			if r.Chance(1, 2) {
				b.Ops = append(b.Ops, ConOp{S: s, Kind: "cupd", ID: r.Intn(6), Col: "m", M: r.Range(-1, 3)})
			} else {
				b.Ops = append(b.Ops, ConOp{S: s, Kind: "cupd", ID: r.Intn(6), Col: "pc", PC: mayNull(4)})
			}
		case x < 75:
			b.Ops = append(b.Ops, ConOp{S: s, Kind: "cdel", ID: r.Intn(6)})
		case x < 78 && s >= 0:
			b.Ops = append(b.Ops, ConOp{S: s, Kind: "begin"})
		case x < 90 && s >= 0:
			b.Ops = append(b.Ops, ConOp{S: s, Kind: "commit"})
		case x < 92 && s >= 0:
			b.Ops = append(b.Ops, ConOp{S: s, Kind: "rollback"})
		case x < 95:
			b.Ops = append(b.Ops, ConOp{S: s, Kind: "dcommit"})
		case x < 98:
			b.Ops = append(b.Ops, ConOp{Kind: "merge"})
		case x < 99:
			b.Ops = append(b.Ops, ConOp{Kind: "restart"})
		}
	}
	if r.Chance(1, 3) {
		// a directed piece of workload, spliced in at a random place: two transactions change one
		// column each of the two-column unique key of one row, and one of them also gives another row
		// the key the first row ends up with after the cell-wise merge - every statement is legal in
		// its own snapshot, the combination is not
		s1, s2 := 0, 1
		if r.Chance(1, 2) {
			s1, s2 = 1, 0
		}
		rid, xid := r.Intn(6), r.Intn(6)
		for xid == rid {
			xid = r.Intn(6)
		}
		va, vb := r.Intn(2), r.Intn(2)
		seq := []ConOp{
			{S: s1, Kind: "commit"}, {S: s2, Kind: "commit"},
			{S: s1, Kind: "cdel", ID: rid}, {S: s1, Kind: "cdel", ID: xid},
			{S: s1, Kind: "cins", ID: rid, N: 1, M: 0, A: ip(1 - va), B: ip(1 - vb)}, {S: s1, Kind: "commit"},
			{S: s1, Kind: "begin"}, {S: s2, Kind: "begin"},
			{S: s1, Kind: "cupd", ID: rid, Col: "a", A: ip(va)},
			{S: s2, Kind: "cupd", ID: rid, Col: "b", B: ip(vb)},
			{S: s2, Kind: "cins", ID: xid, N: 1, M: 0, A: ip(va), B: ip(vb)},
		}
		if r.Chance(1, 2) {
			seq = append(seq, ConOp{S: s1, Kind: "commit"}, ConOp{S: s2, Kind: "commit"})
		} else {
			seq = append(seq, ConOp{S: s2, Kind: "commit"}, ConOp{S: s1, Kind: "commit"})
		}
		at := r.Intn(len(b.Ops) + 1)
		b.Ops = append(b.Ops[:at], append(seq, b.Ops[at:]...)...)
	}
	if r.Chance(1, 4) {
		// a second directed piece: b1 turns the plain index kmp (m, pc) into a unique one in place, main
		// then commits two rows that are equal in (m, pc) - legal on main, whose index is still plain -
		// and b1 is merged into main: the merged schema has the unique index, the merged rows violate it
		s1 := r.Intn(b.NSess)
		rid, xid := r.Intn(6), r.Intn(6)
		for xid == rid {
			xid = r.Intn(6)
		}
		mv, pv := r.Range(-1, 2), r.Intn(4)
		seq := []ConOp{
			{Kind: "mkuniq"}, {S: s1, Kind: "commit"},
			{S: s1, Kind: "cdel", ID: rid}, {S: s1, Kind: "cdel", ID: xid},
			{S: s1, Kind: "cins", ID: rid, N: 2, M: mv, PC: ip(pv)}, {S: s1, Kind: "cins", ID: xid, N: 2, M: mv, PC: ip(pv)},
			{S: s1, Kind: "commit"}, {Kind: "merge"},
		}
		at := r.Intn(len(b.Ops) + 1)
		b.Ops = append(b.Ops[:at], append(seq, b.Ops[at:]...)...)
	}
	for s := 0; s < b.NSess; s++ {
		b.Ops = append(b.Ops, ConOp{S: s, Kind: "commit"})
	}
	b.Crash = !b.ForceMerge && r.Chance(2, 3)
	raw, _ := json.Marshal(b)
	return &core.Scenario{Property: "C24", Harness: "C24", Seed: seed, Tier: tier, Body: raw}
}

type conViol struct {
	Kind string
	ID   string // child id (parent id for parent-pk)
}

// evalConstraints re-checks the declared constraints over full scans of both tables.
// conDecl: the constraints declared on main after b1 branched off (ALTER TABLE): fk2 child.pc ->
// parent.code, uq2 UNIQUE (n, m), ck2 CHECK (m < 3).
// uq3: the plain index kmp (m, pc) of the base schema was turned into a unique one in place (same name, same
// columns) - on b1, from where a merge carries it to main.
type conDecl struct{ fk2, uq2, ck2, uq3 bool }

// parent rows: id, v, code; child rows: id, pid, u, n, m, pc, a, b.
func evalConstraints(parent, child [][]string, d conDecl) []conViol {
	fk2 := d.fk2
	var out []conViol
	pids := map[string]int{}
	codes := map[string]bool{}
	for _, r := range parent {
		pids[r[0]]++
		codes[r[2]] = true
		if r[0] == "NULL" {
			out = append(out, conViol{"not null", "parent:" + r[0]})
		}
	}
	for id, c := range pids {
		if c > 1 {
			out = append(out, conViol{"primary key", "parent:" + id})
		}
	}
	ids := map[string]int{}
	us := map[string][]string{}
	for _, r := range child {
		ids[r[0]]++
		if r[2] != "NULL" {
			us[r[2]] = append(us[r[2]], r[0])
		}
		if len(r) > 7 && r[6] != "NULL" && r[7] != "NULL" {
			k := "ab:" + r[6] + "," + r[7]
			us[k] = append(us[k], r[0])
		}
		if r[1] != "NULL" && pids[r[1]] == 0 {
			out = append(out, conViol{"foreign key", r[0]})
		} else if fk2 && r[5] != "NULL" && !codes[r[5]] {
			out = append(out, conViol{"foreign key", r[0]})
		}
		if r[3] == "NULL" || r[4] == "NULL" || r[0] == "NULL" {
			out = append(out, conViol{"not null", r[0]})
			continue
		}
		n, _ := strconv.Atoi(r[3])
		m, _ := strconv.Atoi(r[4])
		if n < m || (d.ck2 && m >= 3) {
			out = append(out, conViol{"check constraint", r[0]})
		}
		if d.uq2 {
			k := "nm:" + r[3] + "," + r[4]
			us[k] = append(us[k], r[0])
		}
		if d.uq3 && r[5] != "NULL" {
			k := "mp:" + r[4] + "," + r[5]
			us[k] = append(us[k], r[0])
		}
	}
	for id, c := range ids {
		if c > 1 {
			out = append(out, conViol{"primary key", id})
		}
	}
	for _, rows := range us {
		if len(rows) > 1 {
			sort.Strings(rows)
			out = append(out, conViol{"unique index", strings.Join(rows, ",")})
		}
	}
	sort.Slice(out, func(i, j int) bool { return out[i].Kind+out[i].ID < out[j].Kind+out[j].ID })
	return out
}

// declFor: which late declarations hold for what a reader sees: main's for the sessions on main, b1's for
// the session on b1, none for a read AS OF an older commit.
func declFor(main, b1 conDecl, onB1, current bool) conDecl {
	switch {
	case !current:
		return conDecl{}
	case onB1:
		return b1
	}
	return main
}

func (CON) Execute(t *testing.T, sc *core.Scenario) *core.Result {
	res := &core.Result{}
	var b ConBody
	if err := json.Unmarshal(sc.Body, &b); err != nil {
		res.Panic = "bad scenario body: " + err.Error()
		return res
	}
	ctx := context.Background()
	root := dstore.NewScratch("sqlcon")
	sos, err := simos.New(root)
	if err != nil {
		res.Panic = err.Error()
		return res
	}
	defer simos.RemoveTree(root)
	sos.Install()
	defer simos.Uninstall()
	w, err := NewWorld(ctx, root)
	if err != nil {
		res.Panic = "world: " + err.Error()
		return res
	}
	defer w.Close()
	setup, err := w.NewSession(ctx, true)
	if err != nil {
		res.Panic = err.Error()
		return res
	}
	for _, q := range []string{
		"CREATE TABLE parent (id INT PRIMARY KEY, v INT, code INT)",
		"CREATE TABLE child (id INT PRIMARY KEY, pid INT, u INT, n INT NOT NULL, m INT NOT NULL, pc INT, a INT, b INT, CONSTRAINT fkp FOREIGN KEY (pid) REFERENCES parent (id), UNIQUE KEY uu (u), UNIQUE KEY uab (a, b), KEY kmp (m, pc), CONSTRAINT ck CHECK (n >= m))",
		"INSERT INTO parent VALUES (0, 0, 0), (1, 0, 1)",
		"CALL dolt_commit('-Am', 'schema')",
		"CALL dolt_branch('b1')",
	} {
		if err := setup.MustExec(ctx, q); err != nil {
			res.Panic = "setup: " + err.Error()
			return res
		}
	}
	var ss []*Sess
	var bs, mg *Sess
	open := func() bool {
		ss = nil
		var err error
		for i := 0; i < b.NSess && err == nil; i++ {
			var s *Sess
			if s, err = w.NewSession(ctx, b.Autocommit[i]); err == nil {
				ss = append(ss, s)
			}
		}
		if err == nil {
			if bs, err = w.NewSession(ctx, true); err == nil {
				if err = bs.MustExec(ctx, "CALL dolt_checkout('b1')"); err == nil {
					mg, err = w.NewSession(ctx, true)
				}
			}
		}
		if err != nil {
			res.Panic = "sessions: " + err.Error()
			return false
		}
		return true
	}
	if !open() {
		return res
	}
	sig := core.NewSig()
	refusals, mergesWithViolations := 0, 0
	var declMain, declB1 conDecl
	lit := func(p *int) string {
		if p == nil {
			return "NULL"
		}
		return strconv.Itoa(*p)
	}
	// check evaluates the constraints on what reader sees of suffix (e.g. " AS OF 'h'").
	check := func(reader *Sess, suffix, where string, step int) {
		p, err1 := reader.Exec(ctx, "SELECT id, v, code FROM parent"+suffix)
		c, err2 := reader.Exec(ctx, "SELECT id, pid, u, n, m, pc, a, b FROM child"+suffix)
		if err1 != nil || err2 != nil {
			res.Probe("evaluator_read_error")
			return
		}
		res.Evaluations++
		for _, v := range evalConstraints(p, c, declFor(declMain, declB1, reader == bs, suffix == "")) {
			res.Violate("committed-data-violates-constraint", "constraint="+v.Kind, step, "%s: committed tables violate %s (child/row %s)\nparent:\n%s\nchild (id|pid|u|n|m|pc|a|b):\n%s", where, v.Kind, v.ID, indent(rowsKey(p)), indent(rowsKey(c)))
			break
		}
	}
	checkMain := func(where string, step int) {
		// a fresh autocommit session: sees the latest committed working set of main
		check(mg, "", where, step)
	}
	explicit := make([]bool, b.NSess)
	for step, op := range b.Ops {
		if op.Kind == "addfk" {
			// schema changes commit implicitly and are kept out of open transactions: main only,
			// through the merging session, once
			if declMain.fk2 {
				continue
			}
			if _, err := mg.Exec(ctx, "ALTER TABLE parent ADD INDEX ic (code)"); err == nil {
				if _, err := mg.Exec(ctx, "ALTER TABLE child ADD CONSTRAINT fk2 FOREIGN KEY (pc) REFERENCES parent (code)"); err == nil {
					declMain.fk2 = true
					res.Fault("foreign-key-declared-after-branching")
				} else {
					res.Probe("addfk_refused")
					mg.Exec(ctx, "ALTER TABLE parent DROP INDEX ic")
				}
			}
			checkMain("after ALTER TABLE ... ADD FOREIGN KEY", step)
			continue
		}
		if op.Kind == "mkuniq" {
			// on b1: the plain index kmp becomes a unique one under the same name and over the same columns
			// (the stored layout of the two is the same; what differs is what a merge has to validate)
			if declB1.uq3 {
				continue
			}
			if _, err := bs.Exec(ctx, "ALTER TABLE child DROP INDEX kmp"); err == nil {
				if _, err := bs.Exec(ctx, "ALTER TABLE child ADD UNIQUE INDEX kmp (m, pc)"); err == nil {
					declB1.uq3 = true
					res.Fault("index-made-unique-in-place-on-b1")
				} else {
					res.Probe("mkuniq_refused")
					bs.Exec(ctx, "ALTER TABLE child ADD INDEX kmp (m, pc)")
				}
			}
			check(bs, "", "branch b1 after the index was made unique", step)
			continue
		}
		if op.Kind == "adduq" || op.Kind == "addck" {
			// a unique key / a CHECK declared over the rows that are there: the ALTER must be refused
			// when they violate it, and from then on main's commits and merges have to honour it
			if (op.Kind == "adduq" && declMain.uq2) || (op.Kind == "addck" && declMain.ck2) {
				continue
			}
			q, what := "ALTER TABLE child ADD UNIQUE KEY unm (n, m)", "unique-key"
			if op.Kind == "addck" {
				q, what = "ALTER TABLE child ADD CONSTRAINT ck2 CHECK (m < 3)", "check"
			}
			if _, err := mg.Exec(ctx, q); err == nil {
				if op.Kind == "adduq" {
					declMain.uq2 = true
				} else {
					declMain.ck2 = true
				}
				res.Fault(what + "-declared-after-branching")
			} else {
				res.Probe(op.Kind + "_refused")
			}
			checkMain("after "+q, step)
			continue
		}
		if op.S >= b.NSess {
			continue
		}
		s := bs
		onB1 := op.S < 0
		if !onB1 {
			s = ss[op.S]
		}
		sig.Add(op.Kind, strconv.Itoa(op.S))
		var q string
		switch op.Kind {
		case "restart":
			if err := w.Restart(ctx); err != nil {
				res.Panic = "restart: " + err.Error()
				return res
			}
			if !open() {
				return res
			}
			explicit = make([]bool, b.NSess)
			res.Fault("clean-restart")
			checkMain("after clean restart", step)
			continue
		case "merge":
			mg.Exec(ctx, "CALL dolt_commit('-Am', 'main before merge')")
			bs.Exec(ctx, "CALL dolt_commit('-Am', 'b1 before merge')")
			rows, err := mg.Exec(ctx, "CALL dolt_merge('b1')")
			if err != nil {
				res.Probe("merge_refused")
				if strings.Contains(strings.ToLower(err.Error()), "constraint violation") {
					res.Fault("merge-refused-for-constraint-violation")
					mergesWithViolations++
				}
			} else {
				res.Fault("branch-merge")
				_ = rows
				if declB1.uq3 && !declMain.uq3 {
					declMain.uq3 = true
					res.Fault("unique-in-place-merged-into-main")
				}
			}
			checkMain("after dolt_merge('b1')", step)
			continue
		case "begin":
			if _, err := s.Exec(ctx, "START TRANSACTION"); err == nil {
				explicit[op.S] = true
				checkMain("after START TRANSACTION (implicit commit)", step)
			}
			continue
		case "commit":
			_, err := s.Exec(ctx, "COMMIT")
			explicit[op.S] = false
			if err != nil {
				res.Probe("commit_refused")
				if strings.Contains(strings.ToLower(err.Error()), "constraint violation") {
					refusals++
					res.Fault("commit-refused-for-constraint-violation")
				}
			} else {
				res.Probe("commit_ok")
			}
			checkMain(fmt.Sprintf("after COMMIT of session %d", op.S), step)
			continue
		case "rollback":
			s.Exec(ctx, "ROLLBACK")
			explicit[op.S] = false
			continue
		case "dcommit":
			rows, err := s.Exec(ctx, "CALL dolt_commit('-Am', 'dsim')")
			if !onB1 {
				explicit[op.S] = false
			}
			if err == nil && len(rows) == 1 {
				res.Fault("dolt-commit")
				check(mg, " AS OF '"+rows[0][0]+"'", "dolt commit "+rows[0][0], step)
			} else if err != nil && strings.Contains(strings.ToLower(err.Error()), "constraint violation") {
				refusals++
				res.Fault("commit-refused-for-constraint-violation")
			}
			if onB1 {
				check(bs, "", "branch b1 after dolt_commit", step)
			} else {
				checkMain("after dolt_commit", step)
			}
			continue
		case "pins":
			q = fmt.Sprintf("INSERT INTO parent VALUES (%d, %d, %d)", op.ID, step, op.N)
		case "pupd":
			q = fmt.Sprintf("UPDATE parent SET code = %d WHERE id = %d", op.N, op.ID)
		case "pdel":
			q = fmt.Sprintf("DELETE FROM parent WHERE id = %d", op.ID)
		case "cins":
			q = fmt.Sprintf("INSERT INTO child VALUES (%d, %s, %s, %d, %d, %s, %s, %s)", op.ID, lit(op.P), lit(op.U), op.N, op.M, lit(op.PC), lit(op.A), lit(op.B))
		case "cdel":
			q = fmt.Sprintf("DELETE FROM child WHERE id = %d", op.ID)
		case "cupd":
			switch op.Col {
			case "pid":
				q = fmt.Sprintf("UPDATE child SET pid = %s WHERE id = %d", lit(op.P), op.ID)
			case "u":
				q = fmt.Sprintf("UPDATE child SET u = %s WHERE id = %d", lit(op.U), op.ID)
			case "n":
				q = fmt.Sprintf("UPDATE child SET n = %d WHERE id = %d", op.N, op.ID)
			case "pc":
				q = fmt.Sprintf("UPDATE child SET pc = %s WHERE id = %d", lit(op.PC), op.ID)
			case "a":
				q = fmt.Sprintf("UPDATE child SET a = %s WHERE id = %d", lit(op.A), op.ID)
			case "b":
				q = fmt.Sprintf("UPDATE child SET b = %s WHERE id = %d", lit(op.B), op.ID)
			default:
				q = fmt.Sprintf("UPDATE child SET m = %d WHERE id = %d", op.M, op.ID)
			}
		default:
			continue
		}
		_, err := s.Exec(ctx, q)
		if err != nil {
			res.Probe("statement_refused")
			if onB1 || (s.Autocommit && !explicit[op.S]) {
				if strings.Contains(strings.ToLower(err.Error()), "constraint violations") {
					refusals++
					res.Fault("commit-refused-for-constraint-violation")
				}
			}
		}
		if onB1 {
			check(bs, "", "branch b1 after autocommit statement", step)
		} else if s.Autocommit && !explicit[op.S] {
			checkMain(fmt.Sprintf("after autocommit statement of session %d", op.S), step)
		}
		if len(res.Violations) >= 3 {
			break
		}
	}
	if !res.Violated() && b.ForceMerge {
		// final forced merge: violations must be recorded, not silently kept
		mg.Exec(ctx, "CALL dolt_commit('-Am', 'main before merge')")
		bs.Exec(ctx, "CALL dolt_commit('-Am', 'b1 before merge')")
		fm, err := w.NewSession(ctx, false)
		if err == nil {
			fm.Exec(ctx, "SET @@dolt_force_transaction_commit = 1")
			_, merr := fm.Exec(ctx, "CALL dolt_merge('b1')")
			_, cerr := fm.Exec(ctx, "COMMIT")
			if merr == nil && cerr == nil {
				p, err1 := mg.Exec(ctx, "SELECT id, v, code FROM parent")
				c, err2 := mg.Exec(ctx, "SELECT id, pid, u, n, m, pc, a, b FROM child")
				rec, err3 := mg.Exec(ctx, "SELECT violation_type, id FROM dolt_constraint_violations_child")
				if err3 != nil {
					rec = nil // the table does not exist when nothing was recorded
				}
				if err1 == nil && err2 == nil {
					res.Evaluations++
					recorded := map[string]bool{}
					for _, r := range rec {
						// violation_type is an enum; rows come back with its ordinal
						if n, err := strconv.Atoi(r[0]); err == nil && n >= 1 && n <= 4 {
							r[0] = []string{"foreign key", "unique index", "check constraint", "not null"}[n-1]
						}
						recorded[r[0]+"/"+r[1]] = true
					}
					if declB1.uq3 {
						declMain.uq3 = true
					}
					found := evalConstraints(p, c, declMain)
					if len(found) > 0 {
						mergesWithViolations++
						res.Fault("forced-merge-with-violations")
					}
					for _, v := range found {
						ok := false
						for _, id := range strings.Split(v.ID, ",") {
							if recorded[v.Kind+"/"+id] {
								ok = true
							}
						}
						if !ok {
							res.Violate("merge-violation-not-recorded", "constraint="+v.Kind, len(b.Ops), "after the forced dolt_merge('b1') the committed tables violate %s at child row(s) %s, but dolt_constraint_violations_child lists only\n%s\nparent:\n%s\nchild (id|pid|u|n|m|pc|a|b):\n%s", v.Kind, v.ID, indent(rowsKey(rec)), indent(rowsKey(p)), indent(rowsKey(c)))
							break
						}
					}
					res.ProbeN("recorded_violations", len(rec))
				}
			} else {
				res.Probe("forced_merge_failed")
				if merr != nil {
					res.Probe("forced_merge_failed:" + firstLine(merr)[:min(60, len(firstLine(merr)))])
				}
			}
		}
	}
	if b.Crash && !b.ForceMerge && !res.Violated() && res.Panic == "" {
		// a transaction that is only legal as a whole: a new parent, a child referencing it, and the
		// deletion of an older parent together with its children; the server dies in its COMMIT
		cs, err := w.NewSession(ctx, false)
		if err == nil {
			ok := true
			for _, q := range []string{
				"DELETE FROM child WHERE pid = 0",
				"DELETE FROM parent WHERE id = 0",
				"INSERT INTO parent VALUES (77, 0, 77)",
				"INSERT INTO child VALUES (77, 77, NULL, 1, 0, NULL, NULL, NULL)",
			} {
				if _, err := cs.Exec(ctx, q); err != nil {
					res.Probe("crash_phase_statement_refused")
					ok = false
					break
				}
			}
			if ok {
				start := sos.LogLen()
				_, cerr := cs.Exec(ctx, "COMMIT")
				end := sos.LogLen()
				if cerr != nil {
					res.Probe("crash_phase_commit_refused")
				}
				log := append([]simos.Event(nil), sos.Log()...)
				fk2 := declMain
				w.Close()
				simos.Uninstall()
				cases := sqlCrashCases(log, start, end, "test", 8, int(sc.Seed%7), b.Only)
				forEachCrashImage(ctx, res, log, sc.Seed, cases, "a transaction's COMMIT", func(w2 *World, c sqlCrashCase, desc string, pin func(*core.Violation)) {
					s2, err := w2.NewSession(ctx, true)
					if err != nil {
						pin(res.Violate("server-unusable-after-crash", "what=session", 0, "%s: %s", desc, firstLine(err)))
						return
					}
					p, err1 := s2.Exec(ctx, "SELECT id, v, code FROM parent")
					ch, err2 := s2.Exec(ctx, "SELECT id, pid, u, n, m, pc, a, b FROM child")
					if err1 != nil || err2 != nil {
						pin(res.Violate("committed-data-unreadable-after-crash", "variant="+c.Variant.Name, 0, "%s: %v %v", desc, err1, err2))
						return
					}
					for _, v := range evalConstraints(p, ch, fk2) {
						pin(res.Violate("committed-data-violates-constraint", "constraint="+v.Kind+";after=crash", 0, "%s: the recovered tables violate %s (child/row %s)\nparent:\n%s\nchild (id|pid|u|n|m|pc|a|b):\n%s", desc, v.Kind, v.ID, indent(rowsKey(p)), indent(rowsKey(ch))))
						break
					}
					res.Probe("constraints_hold_after_crash")
				}, func(c SQLCrash) []byte {
					b2 := b
					b2.Only = &c
					raw, _ := json.Marshal(b2)
					return raw
				})
			}
		}
	}
	res.Ops = len(b.Ops)
	res.LogHash = sig.Sum()
	if refusals+mergesWithViolations > 0 {
		res.CaseHashes = append(res.CaseHashes, core.Hash64(sig.Sum(), fmt.Sprint(sc.Seed)))
	} else {
		res.Trivial = 1
	}
	res.ProbeN("commits_refused_for_violations", refusals)
	res.Sample = map[string]any{"sessions": b.NSess, "autocommit": b.Autocommit, "statements": len(b.Ops), "commits_refused_for_violations": refusals, "merges_with_violations": mergesWithViolations}
	return res
}

func (CON) Shrinks(sc *core.Scenario) []*core.Scenario {
	var b ConBody
	if json.Unmarshal(sc.Body, &b) != nil {
		return nil
	}
	var out []*core.Scenario
	n := len(b.Ops)
	for w := n / 2; w >= 1; w /= 2 {
		for i := 0; i+w <= n; i += w {
			nb := b
			nb.Ops = append(append([]ConOp(nil), b.Ops[:i]...), b.Ops[i+w:]...)
			raw, _ := json.Marshal(nb)
			c := *sc
			c.Body = raw
			out = append(out, &c)
		}
		if len(out) > 150 {
			break
		}
	}
	return out
}
