package sqlh

import (
	"bytes"
	"context"
	"encoding/json"
	"fmt"
	"os"
	"path/filepath"
	"strings"
	"sync"
	"testing"

	"github.com/sirupsen/logrus"

	"dsim/core"
	"dsim/simnet"
	"dsim/simos"
	dstore "dsim/store"

	"github.com/dolthub/dolt/go/cmd/dolt/cli"
	"github.com/dolthub/dolt/go/libraries/doltcore/dbfactory"
	"github.com/dolthub/dolt/go/libraries/doltcore/sqle"
	"github.com/dolthub/dolt/go/store/types"
)

// C45 — replicas converge to their source and never show invented state. Three modes, one per run:
//
//	replicate: database test pushes on write (@@dolt_replicate_to_remote) to a file or HTTP remote;
//	           database replica, cloned from that remote, is a read replica (@@dolt_read_replica_remote,
//	           all heads) that pulls when a transaction starts; remote disk faults, network faults and
//	           remote-server restarts disturb the pushes and the pulls.
//	standby:   the provider is switched to standby and back; every kind of write must be refused while
//	           it is a standby, reads must work, nothing may change.
//	cluster:   the real cluster commit hook replicates the primary's store root to a standby store
//	           served by the real remotesrv handlers, through the simulated network, one exchange at a
//	           time under the control of the run (see cluster.go).

type REP struct{}

type RepStep struct {
	Op    string    `json:"op"` // dml | commit | branch | checkout | merge | delbranch | reset | read | hubrestart | toggle | write
	N     int       `json:"n,omitempty"`
	Fault *RemFault `json:"fault,omitempty"`
}

type RepBody struct {
	Seed    uint64    `json:"seed"`
	Mode    string    `json:"mode"`
	Backend string    `json:"backend"`
	Steps   []RepStep `json:"steps"`
	Cluster *CluBody  `json:"cluster,omitempty"`
}

func (REP) Generate(seed uint64, tier string) *core.Scenario {
	r := core.NewRand(seed)
	b := RepBody{Seed: r.Uint64(), Backend: "file"}
	switch x := r.Intn(10); {
	case x < 4:
		b.Mode = "replicate"
	case x < 5:
		b.Mode = "standby"
	default:
		b.Mode = "cluster"
	}
	if r.Chance(1, 2) {
		b.Backend = "http"
	}
	n := r.Range(12, 40)
	if tier == "thorough" && r.Chance(1, 3) {
		n = r.Range(40, 90)
	}
	switch b.Mode {
	case "replicate":
		faulty := r.Chance(2, 3)
		for len(b.Steps) < n {
			st := RepStep{N: r.Intn(1000)}
			switch x := r.Intn(100); {
			case x < 22:
				st.Op = "dml"
			case x < 50:
				st.Op = "commit"
			case x < 57:
				st.Op = "branch"
			case x < 65:
				st.Op = "checkout"
			case x < 71:
				st.Op = "merge"
			case x < 75:
				st.Op = "delbranch"
			case x < 78:
				st.Op = "reset"
			case x < 97:
				st.Op = "read"
			default:
				if b.Backend != "http" {
					continue
				}
				st.Op = "hubrestart"
			}
			if faulty && (st.Op == "commit" || st.Op == "merge" || st.Op == "read" || st.Op == "branch") && r.Chance(1, 4) {
				f := &RemFault{}
				if b.Backend == "http" && r.Chance(1, 2) {
					f.Kind, f.Rate = "net", r.Range(2, 5)
				} else {
					f.Kind = []string{"disk-eio", "disk-dead"}[r.Intn(2)]
					f.Class, f.K = remFaultClasses[r.Intn(len(remFaultClasses))], r.Range(1, 3)
				}
				st.Fault = f
			}
			b.Steps = append(b.Steps, st)
		}
	case "standby":
		for len(b.Steps) < n {
			st := RepStep{N: r.Intn(1000)}
			switch x := r.Intn(100); {
			case x < 14:
				st.Op = "toggle"
			case x < 75:
				st.Op = "write"
			default:
				st.Op = "read"
			}
			b.Steps = append(b.Steps, st)
		}
	case "cluster":
		b.Cluster = genCluster(r, tier)
	}
	raw, _ := json.Marshal(b)
	return &core.Scenario{Property: "C45", Harness: "C45", Seed: seed, Tier: tier, Body: raw}
}

// warnSink collects what dolt reports outside the SQL result: the engine's CLI output (the
// push-on-write hook writes "error pushing: ..." there) and logrus entries of level warning and above.
type warnSink struct {
	mu  sync.Mutex
	buf bytes.Buffer
	n   int
}

func (w *warnSink) Write(p []byte) (int, error) {
	w.mu.Lock()
	defer w.mu.Unlock()
	w.buf.Write(p)
	w.n++
	return len(p), nil
}
func (w *warnSink) Levels() []logrus.Level {
	return []logrus.Level{logrus.WarnLevel, logrus.ErrorLevel}
}
func (w *warnSink) Fire(e *logrus.Entry) error {
	w.mu.Lock()
	defer w.mu.Unlock()
	w.buf.WriteString(e.Message + "\n")
	w.n++
	return nil
}
func (w *warnSink) count() int { w.mu.Lock(); defer w.mu.Unlock(); return w.n }
func (w *warnSink) tail() string {
	w.mu.Lock()
	defer w.mu.Unlock()
	s := w.buf.String()
	if len(s) > 300 {
		s = s[len(s)-300:]
	}
	return s
}

type repRun struct {
	*remRun
	sink      *warnSink
	pri, repl *remDB
	history   map[string]map[string]bool // remote branch -> every head it has had
	cur       string                     // primary session's current branch
	nbranch   int
}

func (REP) Execute(t *testing.T, sc *core.Scenario) *core.Result {
	res := &core.Result{}
	var b RepBody
	if err := json.Unmarshal(sc.Body, &b); err != nil {
		res.Panic = "bad scenario body: " + err.Error()
		return res
	}
	ctx := context.Background()
	root := dstore.NewScratch("sqlrep")
	sos, err := simos.New(root)
	if err != nil {
		res.Panic = err.Error()
		return res
	}
	defer simos.RemoveTree(root)
	sos.Install()
	defer simos.Uninstall()

	rb := &RemBody{Seed: b.Seed, Backend: b.Backend, TargetSize: 1 << 30}
	x := &remRun{ctx: ctx, res: res, sos: sos, b: rb, sc: sc, root: root, remote: map[string]string{}, parents: map[string][]string{}, nextPK: 100, labels: map[string]string{}}
	x.net = &simnet.Net{}
	x.net.Decide = x.netDecide
	sink := &warnSink{}
	oldOut := cli.CliOut
	cli.CliOut = sink
	defer func() { cli.CliOut = oldOut }()
	oldHooks := logrus.StandardLogger().ReplaceHooks(logrus.LevelHooks{})
	logrus.StandardLogger().AddHook(sink)
	oldLogOut := logrus.StandardLogger().Out
	logrus.StandardLogger().SetOutput(discard{})
	defer func() {
		logrus.StandardLogger().ReplaceHooks(oldHooks)
		logrus.StandardLogger().SetOutput(oldLogOut)
	}()
	oldHTTP := dbfactory.DBFactories[dbfactory.HTTPScheme]
	defer func() { dbfactory.DBFactories[dbfactory.HTTPScheme] = oldHTTP }()
	if b.Backend == "http" || b.Mode == "cluster" {
		h, err := newHub(filepath.Join(root, "hub"), x.net)
		if err != nil {
			res.Panic = "hub: " + err.Error()
			return res
		}
		x.hub = h
		defer h.cache.closeAll()
		dbfactory.DBFactories[dbfactory.HTTPScheme] = hubFactory{h}
		x.url = "http://" + hubHost + "/r1"
		x.remDir, x.remRel = filepath.Join(root, "hub", "r1"), "hub/r1"
	} else {
		x.remDir, x.remRel = filepath.Join(root, "remotes", "r1"), "remotes/r1"
		if err := os.MkdirAll(x.remDir, 0o755); err != nil {
			res.Panic = err.Error()
			return res
		}
		x.url = "file://" + x.remDir
	}
	w, err := NewWorld(ctx, root)
	if err != nil {
		res.Panic = "world: " + err.Error()
		return res
	}
	x.w = w
	defer w.Close()
	rr := &repRun{remRun: x, sink: sink, history: map[string]map[string]bool{}, cur: "main"}
	switch b.Mode {
	case "replicate":
		rr.runReplicate(&b)
	case "standby":
		rr.runStandby(&b)
	case "cluster":
		rr.runCluster(&b)
	default:
		res.Panic = "unknown mode " + b.Mode
	}
	res.Ops = len(b.Steps)
	for _, k := range core.SortedKeys(x.net.Count) {
		if !strings.HasSuffix(k, ":deliver") {
			res.FaultN("net:"+k, x.net.Count[k])
		}
	}
	if res.LogHash == "" {
		res.LogHash = fmt.Sprintf("%x", core.Hash64(append([]string{b.Mode, b.Backend}, x.events...)...))
	}
	res.Probe("mode:" + b.Mode)
	if res.Sample == nil {
		res.Sample = map[string]any{"mode": b.Mode, "backend": b.Backend, "steps": len(b.Steps)}
	}
	return res
}

var replVars = []string{"dolt_replicate_to_remote", "dolt_read_replica_remote", "dolt_replicate_all_heads", "dolt_replicate_heads", "dolt_async_replication", "dolt_skip_replication_errors", "dolt_read_replica_force_pull"}

// ---- push on write + read replica -------------------------------------------------------------------

func (x *repRun) remoteHeads(what string) (map[string]string, bool) {
	rdb, err := x.openStoreDir(x.remDir, false)
	if err != nil {
		x.res.Violate("remote-unreadable", "after="+what, x.step, "opening the remote after %s: %s", what, firstLine(err))
		return nil, false
	}
	defer rdb.Close()
	heads, err := branchHeads(x.ctx, rdb)
	if err != nil {
		x.res.Violate("remote-unreadable", "after="+what, x.step, "%s", firstLine(err))
		return nil, false
	}
	if vs, ok := rdb.ValueReadWriter().(*types.ValueStore); ok {
		if n, bad, err := walkStore(x.ctx, vs); err == nil && len(bad) > 0 {
			x.res.Violate("ref-points-at-missing-data", "store=remote;after="+what, x.step, "after %s a walk from the root of the remote (%d chunks read) finds: %s", what, n, strings.Join(bad, "; "))
		}
	}
	for br, h := range heads {
		if x.history[br] == nil {
			x.history[br] = map[string]bool{}
		}
		x.history[br][h] = true
	}
	return heads, true
}

func (x *repRun) runReplicate(b *RepBody) {
	res := x.res
	pri := &remDB{name: "test", dir: "test"}
	x.pri = pri
	x.dbs = append(x.dbs, pri)
	s := x.session(pri)
	if s == nil {
		return
	}
	// process-wide system variables: restore whatever this run sets
	defer func() {
		if cs, err := x.w.NewSessionNoDB(x.ctx); err == nil {
			for _, v := range replVars {
				cs.Exec(x.ctx, "SET @@GLOBAL."+v+" = DEFAULT")
			}
		}
	}()
	for _, q := range []string{
		"CREATE TABLE t (pk INT PRIMARY KEY, who VARCHAR(20), payload VARCHAR(300), KEY (who))",
		"INSERT INTO t VALUES (1, 'setup', 'one'), (2, 'setup', 'two')",
		"CALL dolt_remote('add', 'origin', '" + x.url + "')",
		"SET @@GLOBAL.dolt_replicate_to_remote = 'origin'",
		"CALL dolt_commit('-Am', 'base')",
	} {
		if err := s.MustExec(x.ctx, q); err != nil {
			x.fail("setup: %v", err)
			return
		}
	}
	heads, ok := x.remoteHeads("setup")
	if !ok {
		return
	}
	if heads["main"] == "" {
		res.Violate("commit-not-on-remote", "op=setup", 0, "the first commit with @@dolt_replicate_to_remote set did not reach the remote and nothing was reported (%s)", x.sink.tail())
		return
	}
	for _, q := range []string{
		"SET @@GLOBAL.dolt_read_replica_remote = 'origin'",
		"SET @@GLOBAL.dolt_replicate_all_heads = 1",
		"CALL dolt_clone('" + x.url + "', 'replica')",
	} {
		if err := s.MustExec(x.ctx, q); err != nil {
			x.fail("setup: %v", err)
			return
		}
	}
	x.repl = &remDB{name: "replica", dir: "test/replica"}
	x.dbs = append(x.dbs, x.repl)

	for i := range b.Steps {
		x.step = i
		st := &b.Steps[i]
		x.replicateStep(st)
		if res.Violated() || res.Panic != "" {
			return
		}
	}
	if res.Probes["pushed_on_write"] > 0 && res.Probes["replica_reads"] > 0 {
		res.CaseHashes = append(res.CaseHashes, core.Hash64(x.events...))
	} else {
		res.Trivial = 1
	}
}

func (x *repRun) primaryHeads() map[string]string {
	rows, err := x.session(x.pri).Exec(x.ctx, "SELECT name, hash FROM dolt_branches")
	if err != nil {
		x.fail("reading the primary's branches: %v", err)
		return nil
	}
	out := map[string]string{}
	for _, r := range rows {
		out[r[0]] = r[1]
	}
	return out
}

func (x *repRun) replicateStep(st *RepStep) {
	res := x.res
	s := x.session(x.pri)
	// a head-moving statement on the primary: afterwards the remote must have the head, or something
	// must have been reported
	moved := func(what string, run func() error) {
		before := x.primaryHeads()
		disarm := x.armFault(st.Fault, x.remRel)
		w0 := x.sink.count()
		err := run()
		fired, _ := disarm()
		x.noteFault(st.Fault, fired)
		after := x.primaryHeads()
		if before == nil || after == nil {
			return
		}
		reported := x.sink.count() > w0
		x.event("%s err=%v reported=%v heads[%s]", what, err != nil, reported, x.headsLine(after))
		heads, ok := x.remoteHeads(what)
		if !ok {
			return
		}
		res.Evaluations++
		for _, br := range sortedBranches(after) {
			if after[br] == before[br] {
				continue
			}
			if heads[br] == after[br] {
				res.Probe("pushed_on_write")
				continue
			}
			if reported || err != nil {
				res.Probe("push_on_write_failed_and_reported")
				continue
			}
			res.Violate("commit-not-on-remote", "op="+what, x.step, "%s moved branch %s of the primary from %q to %s and returned without error or warning, but the remote has it at %q (@@dolt_replicate_to_remote = origin, synchronous)", what, br, before[br], after[br], heads[br])
		}
		for _, br := range sortedBranches(before) {
			if _, still := after[br]; !still {
				if _, onRemote := heads[br]; onRemote && !reported && err == nil {
					res.Violate("branch-deletion-not-on-remote", "op="+what, x.step, "%s deleted branch %s on the primary without error or warning, the remote still has it", what, br)
				}
			}
		}
	}
	switch st.Op {
	case "dml":
		x.nextPK++
		if _, err := s.Exec(x.ctx, fmt.Sprintf("INSERT INTO t VALUES (%d, 'pri', 'row %d')", x.nextPK, x.step)); err != nil {
			res.Probe("dml_refused")
		}
	case "commit":
		x.nextPK++
		s.Exec(x.ctx, fmt.Sprintf("INSERT INTO t VALUES (%d, 'pri', '%s')", x.nextPK, strings.Repeat("c", 1+st.N%150)))
		moved("commit", func() error {
			_, err := s.Exec(x.ctx, fmt.Sprintf("CALL dolt_commit('-Am', 'step %d')", x.step))
			return err
		})
	case "branch":
		x.nbranch++
		name := fmt.Sprintf("b%d", x.nbranch)
		moved("branch", func() error {
			_, err := s.Exec(x.ctx, "CALL dolt_branch('"+name+"')")
			return err
		})
	case "checkout":
		hs := x.primaryHeads()
		bs := sortedBranches(hs)
		if len(bs) > 0 {
			br := bs[st.N%len(bs)]
			if _, err := s.Exec(x.ctx, "CALL dolt_checkout('"+br+"')"); err == nil {
				x.cur = br
			}
		}
	case "merge":
		hs := x.primaryHeads()
		bs := sortedBranches(hs)
		if len(bs) > 1 {
			other := bs[st.N%len(bs)]
			if other != x.cur {
				moved("merge", func() error {
					_, err := s.Exec(x.ctx, "CALL dolt_merge('"+other+"')")
					if err != nil {
						s.Exec(x.ctx, "CALL dolt_merge('--abort')")
					}
					return err
				})
			}
		}
	case "delbranch":
		hs := x.primaryHeads()
		for _, br := range sortedBranches(hs) {
			if br != "main" && br != x.cur {
				moved("delbranch", func() error {
					_, err := s.Exec(x.ctx, "CALL dolt_branch('-D', '"+br+"')")
					return err
				})
				break
			}
		}
	case "reset":
		moved("reset", func() error {
			_, err := s.Exec(x.ctx, "CALL dolt_reset('--hard', 'HEAD~1')")
			return err
		})
	case "hubrestart":
		if x.hub != nil {
			x.hub.cache.closeAll()
			res.Fault("remote-server-restart")
		}
	case "read":
		// a fresh transaction on the read replica pulls from the remote first
		heads, ok := x.remoteHeads("before-read")
		if !ok {
			return
		}
		rs := x.session(x.repl)
		if rs == nil {
			return
		}
		disarm := x.armFault(st.Fault, x.repl.dir)
		w0 := x.sink.count()
		rows, err := rs.Exec(x.ctx, "SELECT name, hash FROM dolt_branches")
		fired, _ := disarm()
		x.noteFault(st.Fault, fired)
		if err != nil {
			res.Probe("replica_read_failed")
			x.event("read err")
			return
		}
		res.Probe("replica_reads")
		res.Evaluations++
		got := map[string]string{}
		for _, r := range rows {
			got[r[0]] = r[1]
		}
		x.event("read replica[%s] remote[%s]", x.headsLine(got), x.headsLine(heads))
		reported := x.sink.count() > w0
		for _, br := range sortedBranches(got) {
			if !x.history[br][got[br]] {
				res.Violate("replica-shows-invented-head", "op=read", x.step, "the read replica shows branch %s at %s; the remote has never had that branch there (remote now: %q)", br, got[br], heads[br])
			}
		}
		if st.Fault == nil && !reported {
			for _, br := range sortedBranches(heads) {
				if got[br] != heads[br] {
					res.Violate("replica-behind-after-pull", "op=read", x.step, "a new transaction on the read replica (all heads replicated, no fault, nothing reported) shows branch %s at %q, the remote has it at %s", br, got[br], heads[br])
				}
			}
			for _, br := range sortedBranches(got) {
				if _, ok := heads[br]; !ok {
					res.Violate("replica-keeps-deleted-branch", "op=read", x.step, "the read replica still shows branch %s, which the remote no longer has", br)
				}
			}
			res.Probe("replica_caught_up")
		}
		// the replica's data must be complete
		if _, v := dbfactory.DsimSingletonVRW("/" + x.repl.dir + "/.dolt/noms"); v != nil {
			if vs, ok := v.(*types.ValueStore); ok {
				if n, bad, err := walkStore(x.ctx, vs); err == nil && len(bad) > 0 {
					res.Violate("ref-points-at-missing-data", "store=replica", x.step, "a walk from the root of the read replica (%d chunks read) finds: %s", n, strings.Join(bad, "; "))
				}
			}
		}
		// (a reset to the first commit legitimately removes the table)
		if _, err := rs.Exec(x.ctx, "SELECT COUNT(*) FROM t"); err != nil && !strings.Contains(err.Error(), "table not found") {
			res.Violate("replica-data-unreadable", "op=read", x.step, "%s", firstLine(err))
		}
	}
}

// ---- standby rejects writes --------------------------------------------------------------------------

func (x *repRun) runStandby(b *RepBody) {
	res := x.res
	pro, ok := x.w.SE.GetUnderlyingEngine().Analyzer.Catalog.DbProvider.(*sqle.DoltDatabaseProvider)
	if !ok {
		if u, ok2 := x.w.SE.GetUnderlyingEngine().Analyzer.Catalog.DbProvider.(interface {
			UnderlyingDoltProvider() *sqle.DoltDatabaseProvider
		}); ok2 {
			pro = u.UnderlyingDoltProvider()
		} else {
			x.fail("the engine's provider is %T", x.w.SE.GetUnderlyingEngine().Analyzer.Catalog.DbProvider)
			return
		}
	}
	defer pro.SetIsStandby(false)
	pri := &remDB{name: "test", dir: "test"}
	x.dbs = append(x.dbs, pri)
	s := x.session(pri)
	if s == nil {
		return
	}
	for _, q := range []string{
		"CREATE TABLE t (pk INT PRIMARY KEY, v VARCHAR(40))",
		"INSERT INTO t VALUES (1, 'one'), (2, 'two')",
		"CALL dolt_commit('-Am', 'base')",
		"CALL dolt_branch('other')",
		"CALL dolt_checkout('other')",
		"INSERT INTO t VALUES (50, 'only on other')",
		"CALL dolt_commit('-Am', 'other 1')",
		"CALL dolt_checkout('main')",
		"INSERT INTO t VALUES (3, 'three')",
		"CALL dolt_commit('-Am', 'second')",
		"CALL dolt_tag('v0')",
	} {
		if err := s.MustExec(x.ctx, q); err != nil {
			x.fail("setup: %v", err)
			return
		}
	}
	state := func(ss *Sess) string {
		rows, err := ss.Exec(x.ctx, "SELECT dolt_hashof_db()")
		if err != nil || len(rows) != 1 {
			return "unreadable: " + fmt.Sprint(err)
		}
		br, _ := ss.Exec(x.ctx, "SELECT name, hash FROM dolt_branches")
		tg, _ := ss.Exec(x.ctx, "SELECT tag_name, tag_hash FROM dolt_tags")
		return rows[0][0] + "|" + rowsKey(br) + "|" + rowsKey(tg)
	}
	standby := false
	n := 100
	writes := func(k int) []string {
		n++
		return [][]string{
			{fmt.Sprintf("INSERT INTO t VALUES (%d, 'w')", n)},
			{"UPDATE t SET v = 'changed' WHERE pk = 1"},
			{"DELETE FROM t WHERE pk = 2"},
			{fmt.Sprintf("CREATE TABLE n%d (a INT PRIMARY KEY)", n)},
			{"ALTER TABLE t ADD COLUMN extra INT"},
			{"DROP TABLE t"},
			{fmt.Sprintf("CALL dolt_commit('--allow-empty', '-m', 'c%d')", n)},
			{fmt.Sprintf("CALL dolt_branch('nb%d')", n)},
			{"CALL dolt_branch('-D', 'other')"},
			{fmt.Sprintf("CALL dolt_tag('tg%d')", n)},
			{"CALL dolt_reset('--hard')"},
			{fmt.Sprintf("CALL dolt_checkout('-b', 'cb%d')", n)},
			{"CALL dolt_merge('other')"},
			{"TRUNCATE TABLE t"},
			{fmt.Sprintf("REPLACE INTO t VALUES (1, 'r%d')", n)},
			{"CREATE INDEX iv ON t (v)"},
			{"CALL dolt_cherry_pick('other')"},
			{"CALL dolt_revert('HEAD')"},
			{"CALL dolt_reset('--hard', 'HEAD~1')"},
			{"CALL dolt_branch('-f', 'other', 'main')"},
			{"CALL dolt_tag('-d', 'v0')"},
			{"CALL dolt_branch('-m', 'other', 'renamed')"},
		}[k%22]
	}
	for i := range b.Steps {
		x.step = i
		st := &b.Steps[i]
		switch st.Op {
		case "toggle":
			standby = !standby
			pro.SetIsStandby(standby)
			res.Fault(map[bool]string{true: "role:standby", false: "role:primary"}[standby])
			x.event("toggle standby=%v", standby)
		case "read":
			if _, err := s.Exec(x.ctx, "SELECT * FROM t"); err != nil && !strings.Contains(err.Error(), "not found") {
				res.Violate("standby-read-failed", fmt.Sprintf("standby=%v", standby), i, "%s", firstLine(err))
			}
			res.Probe("reads")
		case "write":
			// a session of its own: what a client connecting to the standby gets
			ws, err := x.w.NewSession(x.ctx, st.N%3 != 0)
			if err != nil {
				res.Probe("session_refused")
				continue
			}
			before := state(s)
			var werr error
			qs := writes(st.N)
			for _, q := range qs {
				if _, werr = ws.Exec(x.ctx, q); werr != nil {
					break
				}
			}
			if werr == nil && !ws.Autocommit {
				_, werr = ws.Exec(x.ctx, "COMMIT")
			}
			ws.End()
			after := state(s)
			res.Evaluations++
			x.event("write %q standby=%v err=%v changed=%v", qs[0][:min(20, len(qs[0]))], standby, werr != nil, before != after)
			if standby {
				if before != after {
					res.Violate("standby-accepted-write", "stmt="+stmtKind(qs[0]), i, "while the server was a standby, %q (autocommit=%v, error: %v) changed the database", qs[0], ws.Autocommit, werr)
				} else if werr == nil {
					res.Probe("standby_write_without_error_and_without_effect")
				} else {
					res.Probe("standby_write_refused")
				}
			} else if werr == nil {
				res.Probe("primary_write_ok")
			}
		}
	}
	if res.Probes["standby_write_refused"] > 0 && res.Probes["primary_write_ok"] > 0 {
		res.CaseHashes = append(res.CaseHashes, core.Hash64(x.events...))
	} else {
		res.Trivial = 1
	}
}

func (REP) Shrinks(sc *core.Scenario) []*core.Scenario {
	var b RepBody
	if json.Unmarshal(sc.Body, &b) != nil {
		return nil
	}
	var out []*core.Scenario
	emit := func(nb RepBody) {
		raw, _ := json.Marshal(nb)
		c := *sc
		c.Body = raw
		out = append(out, &c)
	}
	if b.Cluster != nil {
		steps := b.Cluster.Steps
		for w := len(steps) / 2; w >= 1; w /= 2 {
			for i := 0; i+w <= len(steps); i += w {
				nb := b
				nc := *b.Cluster
				nc.Steps = append(append([]CluStep(nil), steps[:i]...), steps[i+w:]...)
				nb.Cluster = &nc
				emit(nb)
			}
			if len(out) > 80 {
				break
			}
		}
		return out
	}
	for w := len(b.Steps) / 2; w >= 1; w /= 2 {
		for i := 0; i+w <= len(b.Steps); i += w {
			nb := b
			nb.Steps = append(append([]RepStep(nil), b.Steps[:i]...), b.Steps[i+w:]...)
			emit(nb)
		}
		if len(out) > 80 {
			break
		}
	}
	for i := range b.Steps {
		if b.Steps[i].Fault != nil {
			nb := b
			nb.Steps = append([]RepStep(nil), b.Steps...)
			st := nb.Steps[i]
			st.Fault = nil
			nb.Steps[i] = st
			emit(nb)
		}
	}
	return out
}

// stmtKind names a statement by its verb, or by the procedure it calls plus its first flag.
func stmtKind(q string) string {
	f := strings.Fields(q)
	if len(f) < 2 {
		return q
	}
	if strings.EqualFold(f[0], "CALL") {
		name, args, _ := strings.Cut(f[1], "(")
		if strings.HasPrefix(args, "'-") {
			flag, _, _ := strings.Cut(args[1:], "'")
			return "CALL_" + name + "_" + flag
		}
		return "CALL_" + name
	}
	return f[0] + "_" + f[1] // no blanks: the known-findings file matches keys word by word
}
