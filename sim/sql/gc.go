package sqlh

import (
	"context"
	"encoding/json"
	"fmt"
	"os"
	"runtime"
	"sort"
	"strconv"
	"strings"
	"sync"
	"testing"

	"dsim/core"
	"dsim/simos"
	dstore "dsim/store"

	"github.com/dolthub/dolt/go/store/chunks"
	"github.com/dolthub/dolt/go/store/hash"
	"github.com/dolthub/dolt/go/store/nbs"
	"github.com/dolthub/dolt/go/store/types"
)

// C08 — garbage collection keeps everything that is still reachable. A repository history is built
// through SQL (commits on several branches, tags, a deleted branch, a stash, an in-progress
// conflicted merge, staged and unstaged changes); then CALL dolt_gc runs as one task of the seeded
// S1 scheduler, parked at every phase boundary of the collection (BeginGC, each mark-and-sweep,
// each SaveHashes, Finalize, AddChunksToStore, SwapChunksInStore, EndGC, PruneTableFiles), while
// writer sessions - some with transactions that were opened before the collection began - run
// whole statements in between. Afterwards, and again after a clean restart: the SQL-level
// fingerprint of everything the writers did not touch is unchanged, every row a writer had
// acknowledged is there, and a walk from the store root over every reference finds every chunk,
// with bytes that hash to its address.

type GCX struct{}

type GCBody struct {
	Seed     uint64   `json:"sched_seed"`
	Sched    []int    `json:"sched,omitempty"`
	PCT      int      `json:"pct"`
	Flags    []string `json:"flags"`   // arguments of dolt_gc
	History  []string `json:"history"` // which features the history carries
	NWriters int      `json:"nwriters"`
	Iters    int      `json:"iters"`
	Auto     []bool   `json:"auto"` // autocommit per writer
	TwoGCs   bool     `json:"two_gcs"`
	// Crash: instead of racing writers, the collection runs alone and the server dies in it: crash
	// images at the structural file-system events of CALL dolt_gc and after it (crash.go)
	Crash bool      `json:"crash,omitempty"`
	Only  *SQLCrash `json:"only,omitempty"`
}

func (GCX) Generate(seed uint64, tier string) *core.Scenario {
	r := core.NewRand(seed)
	b := GCBody{Seed: r.Uint64(), NWriters: r.Range(1, 3), Iters: r.Range(3, 8), TwoGCs: r.Chance(1, 3)}
	b.PCT = []int{0, 0, 2, 3, 4}[r.Intn(5)]
	switch r.Intn(5) {
	case 0:
		b.Flags = []string{"--full"}
	case 1:
		b.Flags = []string{"--archive-level", "0"}
	case 2:
		b.Flags = []string{"--full", "--archive-level", "0"}
	}
	for _, f := range []string{"branch", "tag", "deleted-branch", "stash", "conflicted-merge", "staged", "unstaged", "second-table", "early-gc", "tag-on-deleted-branch", "soft-reset", "conflicted-cherry-pick", "conflicted-revert", "rebase-in-progress", "merge-source-deleted", "aborted-conflicted-rebase"} {
		if r.Chance(2, 3) {
			b.History = append(b.History, f)
		}
	}
	for i := 0; i < b.NWriters; i++ {
		b.Auto = append(b.Auto, r.Chance(1, 2))
	}
	b.Crash = r.Chance(1, 4)
	raw, _ := json.Marshal(b)
	return &core.Scenario{Property: "C08", Harness: "C08", Seed: seed, Tier: tier, Body: raw}
}

// gcPhaseStore forwards everything to the generational store and parks the collecting task before
// each phase of a collection.
type gcPhaseStore struct {
	*nbs.GenerationalNBS
	y func(string)
}

func (g gcPhaseStore) BeginGC(ctx context.Context, keeper func(hash.Hash) bool, mode chunks.GCMode) error {
	g.y("BeginGC")
	return g.GenerationalNBS.BeginGC(ctx, keeper, mode)
}

func (g gcPhaseStore) EndGC(mode chunks.GCMode) {
	g.y("EndGC")
	g.GenerationalNBS.EndGC(mode)
}

func (g gcPhaseStore) MarkAndSweepChunks(ctx context.Context, getAddrs chunks.GetAddrs, filter chunks.HasManyFunc, dest chunks.ChunkStore, cfg chunks.GCConfig, incr bool) (chunks.MarkAndSweeper, error) {
	g.y("MarkAndSweepChunks")
	ms, err := g.GenerationalNBS.MarkAndSweepChunks(ctx, getAddrs, filter, dest, cfg, incr)
	if err != nil {
		return nil, err
	}
	return phaseSweeper{ms, g.y}, nil
}

func (g gcPhaseStore) PruneTableFiles(ctx context.Context) error {
	g.y("PruneTableFiles")
	return g.GenerationalNBS.PruneTableFiles(ctx)
}

type phaseSweeper struct {
	chunks.MarkAndSweeper
	y func(string)
}

func (p phaseSweeper) SaveHashes(ctx context.Context, hs hash.HashSet) error {
	p.y("SaveHashes")
	return p.MarkAndSweeper.SaveHashes(ctx, hs)
}

func (p phaseSweeper) Finalize(ctx context.Context) (chunks.GCFinalizer, error) {
	p.y("Finalize")
	f, err := p.MarkAndSweeper.Finalize(ctx)
	if err != nil {
		return nil, err
	}
	return phaseFinalizer{f, p.y}, nil
}

type phaseFinalizer struct {
	chunks.GCFinalizer
	y func(string)
}

func (p phaseFinalizer) AddChunksToStore(ctx context.Context) (chunks.HasManyFunc, error) {
	p.y("AddChunksToStore")
	return p.GCFinalizer.AddChunksToStore(ctx)
}

func (p phaseFinalizer) SwapChunksInStore(ctx context.Context) error {
	p.y("SwapChunksInStore")
	return p.GCFinalizer.SwapChunksInStore(ctx)
}

// walkStore follows every reference from the store root and reports addresses that are missing or
// whose bytes do not hash to them.
func walkStore(ctx context.Context, vs *types.ValueStore) (n int, bad []string, err error) {
	cs := vs.DsimChunkStore()
	root, err := cs.Root(ctx)
	if err != nil {
		return 0, nil, err
	}
	seen := hash.HashSet{}
	todo := []hash.Hash{root}
	seen.Insert(root)
	for len(todo) > 0 {
		h := todo[len(todo)-1]
		todo = todo[:len(todo)-1]
		if h.IsEmpty() {
			continue
		}
		c, err := cs.Get(ctx, h)
		if err != nil {
			bad = append(bad, h.String()+": "+firstLine(err))
			continue
		}
		if c.IsEmpty() {
			if c.IsGhost() {
				continue
			}
			bad = append(bad, h.String()+": absent")
			continue
		}
		n++
		if hash.Of(c.Data()) != h {
			bad = append(bad, h.String()+": bytes hash to "+hash.Of(c.Data()).String())
			continue
		}
		werr := types.WalkAddrsFromNomsValue(c, vs.Format(), func(a hash.Hash) error {
			if !seen.Has(a) {
				seen.Insert(a)
				todo = append(todo, a)
			}
			return nil
		})
		if werr != nil {
			bad = append(bad, h.String()+": walking its references: "+firstLine(werr))
		}
		if len(bad) > 5 {
			break
		}
	}
	return n, bad, nil
}

// gcFingerprint is fingerprint() plus stashes, conflicts and merge state; rows of table w on main
// and main's log and status are left out (the writers change them).
func gcFingerprint(ctx context.Context, s *Sess, db string) (string, error) {
	var sb strings.Builder
	q := func(label, query string, must bool) ([][]string, error) {
		rows, err := s.Exec(ctx, query)
		if err != nil {
			if !must {
				sb.WriteString("## " + label + "\n(unavailable)\n")
				return nil, nil
			}
			return nil, fmt.Errorf("%s: %w", query, err)
		}
		sb.WriteString("## " + label + "\n" + rowsKey(rows) + "\n")
		return rows, nil
	}
	branches, err := s.Exec(ctx, fmt.Sprintf("SELECT name, hash FROM `%s`.dolt_branches", db))
	if err != nil {
		return "", err
	}
	var names []string
	for _, br := range branches {
		names = append(names, br[0])
		if br[0] != "main" {
			sb.WriteString("## head " + br[0] + "\n" + br[1] + "\n")
		}
	}
	sort.Strings(names)
	tags, err := q("tags", fmt.Sprintf("SELECT tag_name, tag_hash FROM `%s`.dolt_tags", db), true)
	if err != nil {
		return "", err
	}
	for _, tg := range tags {
		if _, err := q("rows at tag "+tg[0], fmt.Sprintf("SELECT * FROM `%s`.t AS OF '%s'", db, tg[0]), true); err != nil {
			return "", err
		}
	}
	for _, br := range names {
		rdb := db + "/" + br
		if br != "main" {
			if _, err := q("log "+br, fmt.Sprintf("SELECT commit_hash, message FROM `%s`.dolt_log", rdb), true); err != nil {
				return "", err
			}
			if _, err := q("status "+br, fmt.Sprintf("SELECT table_name, staged, status FROM `%s`.dolt_status", rdb), true); err != nil {
				return "", err
			}
		}
		q("merge-status "+br, fmt.Sprintf("SELECT is_merging, source, target, unmerged_tables FROM `%s`.dolt_merge_status", rdb), false)
		q("conflicts "+br, fmt.Sprintf("SELECT * FROM `%s`.dolt_conflicts", rdb), false)
		q("stashes "+br, fmt.Sprintf("SELECT name, stash_id, branch, hash FROM `%s`.dolt_stashes", rdb), false)
		if strings.HasPrefix(br, "dolt_rebase_") {
			q("rebase plan "+br, fmt.Sprintf("SELECT * FROM `%s`.dolt_rebase", rdb), false)
		}
		tables, err := s.Exec(ctx, fmt.Sprintf("SHOW TABLES FROM `%s`", rdb))
		if err != nil {
			return "", err
		}
		for _, t := range tables {
			if br == "main" && t[0] == "w" {
				continue
			}
			if _, err := q("rows "+br+"."+t[0], fmt.Sprintf("SELECT * FROM `%s`.`%s`", rdb, t[0]), true); err != nil {
				return "", err
			}
			q("conflict rows "+br+"."+t[0], fmt.Sprintf("SELECT * FROM `%s`.`dolt_conflicts_%s`", rdb, t[0]), false)
		}
	}
	// old commits stay readable
	if _, err := q("main log below the marker", fmt.Sprintf("SELECT commit_hash, message FROM `%s`.dolt_log WHERE message LIKE 'history%%'", db), true); err != nil {
		return "", err
	}
	return sb.String(), nil
}

func (GCX) Execute(t *testing.T, sc *core.Scenario) *core.Result {
	res := &core.Result{}
	var b GCBody
	if err := json.Unmarshal(sc.Body, &b); err != nil {
		res.Panic = "bad scenario body: " + err.Error()
		return res
	}
	ctx := context.Background()
	root := dstore.NewScratch("sqlgc")
	sos, err := simos.New(root)
	if err != nil {
		res.Panic = err.Error()
		return res
	}
	defer simos.RemoveTree(root)
	sos.Install()
	defer simos.Uninstall()
	w, err := NewWorld(ctx, root)
	if err != nil {
		res.Panic = "world: " + err.Error()
		return res
	}
	defer w.Close()
	has := map[string]bool{}
	for _, f := range b.History {
		has[f] = true
	}
	setup, err := w.NewSession(ctx, true)
	if err != nil {
		res.Panic = err.Error()
		return res
	}
	must := func(s *Sess, qs ...string) bool {
		for _, q := range qs {
			if err := s.MustExec(ctx, q); err != nil {
				res.Panic = "history: " + err.Error()
				return false
			}
		}
		return true
	}
	if !must(setup,
		"CREATE TABLE t (pk INT PRIMARY KEY, v VARCHAR(40), KEY (v))",
		"CREATE TABLE w (id INT PRIMARY KEY, who INT, note VARCHAR(40))",
		"INSERT INTO t VALUES (1, 'one'), (2, 'two'), (3, 'three')",
		"CALL dolt_commit('-Am', 'history 1')",
		"UPDATE t SET v = 'two again' WHERE pk = 2",
		"CALL dolt_commit('-Am', 'history 2')") {
		return res
	}
	if has["second-table"] && !must(setup, "CREATE TABLE big (pk INT PRIMARY KEY, payload VARCHAR(200))",
		"INSERT INTO big SELECT pk * 10, REPEAT('x', 150) FROM t", "CALL dolt_commit('-Am', 'history big')") {
		return res
	}
	if has["branch"] && !must(setup, "CALL dolt_branch('b1')", "CALL dolt_checkout('b1')", "INSERT INTO t VALUES (10, 'on b1')",
		"CALL dolt_commit('-Am', 'b1 commit')", "INSERT INTO t VALUES (11, 'b1 working set only')", "CALL dolt_checkout('main')") {
		return res
	}
	if has["tag"] && !must(setup, "CALL dolt_tag('v1', 'HEAD~1')") {
		return res
	}
	if has["deleted-branch"] && !must(setup, "CALL dolt_branch('gone')", "CALL dolt_checkout('gone')", "INSERT INTO t VALUES (20, 'garbage soon')",
		"CALL dolt_commit('-Am', 'doomed')", "CALL dolt_checkout('main')", "CALL dolt_branch('-D', 'gone')") {
		return res
	}
	if has["conflicted-merge"] {
		cm, err := w.NewSession(ctx, false)
		if err != nil {
			res.Panic = err.Error()
			return res
		}
		if !must(setup, "CALL dolt_branch('left')", "CALL dolt_branch('right')",
			"CALL dolt_checkout('right')", "UPDATE t SET v = 'right says' WHERE pk = 1", "CALL dolt_commit('-Am', 'right edit')", "CALL dolt_checkout('main')") {
			return res
		}
		if !must(cm, "CALL dolt_checkout('left')", "UPDATE t SET v = 'left says' WHERE pk = 1", "CALL dolt_commit('-Am', 'left edit')",
			"SET @@dolt_allow_commit_conflicts = 1", "CALL dolt_merge('right')", "COMMIT") {
			return res
		}
		cm.End()
		res.Fault("history:conflicted-merge-in-progress")
		if has["merge-source-deleted"] {
			// the branch that was merged in is deleted while the merge is unfinished: its commit is now
			// referred to by the merge state of left's working set only
			if !must(setup, "CALL dolt_branch('-D', 'right')") {
				return res
			}
			res.Fault("history:merge-source-branch-deleted")
		}
	}
	if has["stash"] {
		st, err := w.NewSession(ctx, true)
		if err != nil {
			res.Panic = err.Error()
			return res
		}
		if has["branch"] {
			st.Exec(ctx, "CALL dolt_checkout('b1')")
		}
		if _, err := st.Exec(ctx, "INSERT INTO t VALUES (30, 'stashed')"); err == nil {
			if _, err := st.Exec(ctx, "CALL dolt_stash('push', 'st1')"); err == nil {
				res.Fault("history:stash")
			} else {
				res.Probe("stash_refused:" + firstLine(err)[:min(50, len(firstLine(err)))])
				st.Exec(ctx, "DELETE FROM t WHERE pk = 30")
			}
		}
		st.End()
	}
	// in-progress cherry-pick, revert and interactive rebase: state that only a working set refers to
	if has["conflicted-cherry-pick"] {
		cp, err := w.NewSession(ctx, false)
		if err != nil {
			res.Panic = err.Error()
			return res
		}
		if !must(setup, "CALL dolt_branch('cp')", "CALL dolt_branch('cpsrc')",
			"CALL dolt_checkout('cpsrc')", "UPDATE t SET v = 'picked' WHERE pk = 2", "CALL dolt_commit('-Am', 'to be cherry-picked')", "CALL dolt_checkout('main')") {
			return res
		}
		if !must(cp, "CALL dolt_checkout('cp')", "UPDATE t SET v = 'cp says' WHERE pk = 2", "CALL dolt_commit('-Am', 'cp edit')",
			"SET @@dolt_allow_commit_conflicts = 1") {
			return res
		}
		if _, err := cp.Exec(ctx, "CALL dolt_cherry_pick('cpsrc')"); err != nil {
			res.Probe("cherry_pick_refused:" + firstLine(err)[:min(50, len(firstLine(err)))])
			cp.Exec(ctx, "ROLLBACK")
		} else if _, err := cp.Exec(ctx, "COMMIT"); err == nil {
			res.Fault("history:conflicted-cherry-pick-in-progress")
		}
		cp.End()
	}
	if has["conflicted-revert"] {
		rv, err := w.NewSession(ctx, false)
		if err != nil {
			res.Panic = err.Error()
			return res
		}
		if !must(rv, "CALL dolt_checkout('-b', 'rv')", "UPDATE t SET v = 'first' WHERE pk = 3", "CALL dolt_commit('-Am', 'rv first')",
			"UPDATE t SET v = 'second' WHERE pk = 3", "CALL dolt_commit('-Am', 'rv second')", "SET @@dolt_allow_commit_conflicts = 1") {
			return res
		}
		if _, err := rv.Exec(ctx, "CALL dolt_revert('HEAD~1')"); err != nil {
			res.Probe("revert_refused:" + firstLine(err)[:min(50, len(firstLine(err)))])
			rv.Exec(ctx, "ROLLBACK")
		} else if _, err := rv.Exec(ctx, "COMMIT"); err == nil {
			res.Fault("history:conflicted-revert-in-progress")
		}
		rv.End()
	}
	if has["rebase-in-progress"] {
		rb, err := w.NewSession(ctx, true)
		if err != nil {
			res.Panic = err.Error()
			return res
		}
		if !must(rb, "CALL dolt_checkout('-b', 'rb', 'HEAD~1')", "INSERT INTO t VALUES (80, 'rb one')", "CALL dolt_commit('-Am', 'rb one')",
			"INSERT INTO t VALUES (81, 'rb two')", "CALL dolt_commit('-Am', 'rb two')") {
			return res
		}
		if _, err := rb.Exec(ctx, "CALL dolt_rebase('-i', 'main')"); err != nil {
			res.Probe("rebase_refused:" + firstLine(err)[:min(50, len(firstLine(err)))])
		} else {
			// the plan is edited and left unfinished
			rb.Exec(ctx, "UPDATE dolt_rebase SET action = 'squash' WHERE rebase_order > 1")
			res.Fault("history:interactive-rebase-in-progress")
		}
		rb.End()
	}
	if has["aborted-conflicted-rebase"] {
		// a rebase that stops at a data conflict and is aborted: the working branch dolt_rebase_ra is
		// deleted, its working set stays behind - with a merge state that names a commit only that branch
		// had. The collection has to keep it: a working set that no longer loads keeps the server from
		// starting.
		ra, err := w.NewSession(ctx, true)
		if err != nil {
			res.Panic = err.Error()
			return res
		}
		if !must(setup, "INSERT INTO t VALUES (95, 'contested')", "CALL dolt_commit('-Am', 'history: the row both will change')", "CALL dolt_branch('ra')",
			"UPDATE t SET v = 'main says' WHERE pk = 95", "CALL dolt_commit('-Am', 'history: main changes it')") {
			return res
		}
		if !must(ra, "SET @@dolt_allow_commit_conflicts = 1", "CALL dolt_checkout('ra')", "INSERT INTO t VALUES (90, 'ra one')", "CALL dolt_commit('-Am', 'ra one')",
			"UPDATE t SET v = 'ra says' WHERE pk = 95", "CALL dolt_commit('-Am', 'ra two')") {
			return res
		}
		if _, err := ra.Exec(ctx, "CALL dolt_rebase('-i', 'main')"); err != nil {
			res.Probe("rebase_refused:" + firstLine(err)[:min(50, len(firstLine(err)))])
		} else if _, err := ra.Exec(ctx, "CALL dolt_rebase('--continue')"); err == nil {
			res.Probe("rebase_without_conflict")
		} else if _, err := ra.Exec(ctx, "CALL dolt_rebase('--abort')"); err == nil {
			res.Fault("history:conflicted-rebase-aborted")
		} else {
			res.Probe("rebase_abort_refused:" + firstLine(err)[:min(50, len(firstLine(err)))])
		}
		ra.End()
	}
	// data that an earlier collection has already moved to the old generation and that afterwards is
	// kept alive by a tag, or by the staged root, only
	if has["tag-on-deleted-branch"] && !must(setup, "CALL dolt_branch('gone2')", "CALL dolt_checkout('gone2')", "INSERT INTO t VALUES (60, 'kept by a tag only')",
		"CALL dolt_commit('-Am', 'tagged')", "CALL dolt_tag('kept')", "CALL dolt_checkout('main')") {
		return res
	}
	if has["soft-reset"] && !must(setup, "INSERT INTO t VALUES (70, 'kept by the staged root only')", "CALL dolt_commit('-Am', 'to be reset softly')") {
		return res
	}
	if has["early-gc"] {
		if !must(setup, "CALL dolt_gc()") {
			return res
		}
		res.Fault("history:earlier-collection")
	}
	if has["tag-on-deleted-branch"] && !must(setup, "CALL dolt_branch('-D', 'gone2')") {
		return res
	}
	if has["soft-reset"] && !must(setup, "CALL dolt_reset('--soft', 'HEAD~1')") {
		return res
	}
	if has["staged"] && !must(setup, "INSERT INTO t VALUES (40, 'staged')", "CALL dolt_add('t')") {
		return res
	}
	if has["unstaged"] && !must(setup, "INSERT INTO t VALUES (41, 'unstaged')") {
		return res
	}
	setup.End()

	vs, ok := w.Env.DoltDB(ctx).ValueReadWriter().(*types.ValueStore)
	if !ok {
		res.Panic = "the database's ValueReadWriter is not a *types.ValueStore"
		return res
	}
	ch := core.NewChooser(b.Seed, b.Sched)
	s := core.NewSched(ch)
	s.PCTDepth = b.PCT
	s.PCTSteps = 60
	s.KeepTrace = len(b.Sched) > 0
	phaseYields := 0
	wrapped := false
	vs.DsimWrapChunkStore(func(cs chunks.ChunkStore) chunks.ChunkStore {
		g, ok := cs.(*nbs.GenerationalNBS)
		if !ok {
			return cs
		}
		wrapped = true
		return gcPhaseStore{g, func(l string) {
			if s.YieldHere("gc:" + l) {
				phaseYields++
			}
		}}
	})
	if !wrapped {
		res.Panic = fmt.Sprintf("the ValueStore's chunk store is %T, not *nbs.GenerationalNBS", vs.DsimChunkStore())
		return res
	}

	fpSess, err := w.NewSession(ctx, true)
	if err != nil {
		res.Panic = err.Error()
		return res
	}
	before, err := gcFingerprint(ctx, fpSess, "test")
	if err != nil {
		res.Panic = "fingerprint before the collection: " + err.Error()
		return res
	}
	if n, bad, err := walkStore(ctx, vs); err != nil || len(bad) > 0 {
		res.Panic = fmt.Sprintf("the store is not closed under references before the collection (%d chunks): %v %v", n, bad, err)
		return res
	}
	fpSess.End()
	if dbg := os.Getenv("DSIM_DEBUG_C08"); dbg != "" {
		os.WriteFile(dbg, []byte(before), 0o644)
	}

	if b.Crash {
		// the collection alone, and the server dies in it
		vs.DsimWrapChunkStore(func(cs chunks.ChunkStore) chunks.ChunkStore {
			if g, ok := cs.(gcPhaseStore); ok {
				return g.GenerationalNBS
			}
			return cs
		})
		gs, err := w.NewSession(ctx, true)
		if err != nil {
			res.Panic = err.Error()
			return res
		}
		var args []string
		for _, f := range b.Flags {
			args = append(args, "'"+f+"'")
		}
		start := sos.LogLen()
		_, gerr := gs.Exec(ctx, "CALL dolt_gc("+strings.Join(args, ", ")+")")
		end := sos.LogLen()
		if gerr != nil {
			res.Probe("gc_error:" + firstLine(gerr)[:min(60, len(firstLine(gerr)))])
		} else {
			res.Fault("gc" + strings.Join(b.Flags, ""))
		}
		log := append([]simos.Event(nil), sos.Log()...)
		w.Close()
		simos.Uninstall()
		cases := sqlCrashCases(log, start, end, "test", 12, int(sc.Seed%11), b.Only)
		forEachCrashImage(ctx, res, log, sc.Seed, cases, "CALL dolt_gc", func(w2 *World, c sqlCrashCase, desc string, pin func(*core.Violation)) {
			s2, err := w2.NewSession(ctx, true)
			if err != nil {
				pin(res.Violate("server-unusable-after-crash", "what=session", 0, "%s: %s", desc, firstLine(err)))
				return
			}
			after, err := gcFingerprint(ctx, s2, "test")
			if err != nil {
				pin(res.Violate("reachable-data-unreadable-after-gc", "when=crash;variant="+c.Variant.Name, 0, "%s: %s", desc, firstLine(err)))
			} else if after != before {
				pin(res.Violate("reachable-data-changed-by-gc", "when=crash;variant="+c.Variant.Name, 0, "%s: what the repository showed before the collection differs from what the recovered server shows:\n%s", desc, diffLines(before, after)))
			}
			if vs2, ok := w2.Env.DoltDB(ctx).ValueReadWriter().(*types.ValueStore); ok {
				n, bad, err := walkStore(ctx, vs2)
				if err != nil {
					pin(res.Violate("store-walk-failed", "when=crash", 0, "%s: %s", desc, firstLine(err)))
				} else if len(bad) > 0 {
					pin(res.Violate("reachable-chunk-lost-by-gc", "when=crash;variant="+c.Variant.Name, 0, "%s: walking every reference from the recovered store root (%d chunks read): %s", desc, n, strings.Join(bad, "; ")))
				} else {
					res.ProbeN("chunks_walked", n)
					res.Probe("recovered_after_crash_in_collection")
				}
			}
		}, func(c SQLCrash) []byte {
			b2 := b
			b2.Only = &c
			raw, _ := json.Marshal(b2)
			return raw
		})
		res.Ops = len(b.History)
		res.LogHash = fmt.Sprintf("%x", core.Hash64(append([]string{"crash"}, b.History...)...))
		if res.Faults["crash:keep-all"]+res.Faults["crash:lose-all-unsynced"] > 2 {
			res.CaseHashes = append(res.CaseHashes, core.Hash64(res.LogHash, fmt.Sprint(sc.Seed)))
		} else {
			res.Trivial = 1
		}
		res.Sample = map[string]any{"mode": "crash", "flags": b.Flags, "history": b.History, "crash_images": res.Faults["crash:keep-all"] + res.Faults["crash:lose-all-unsynced"] + res.Faults["crash:names-only"]}
		return res
	}

	var mu sync.Mutex
	acked := map[int]string{} // id -> note of rows whose commit was acknowledged
	gcRuns, gcErrs := 0, 0
	gcActive := false
	duringGC := 0
	nextID := 0
	newID := func() int { mu.Lock(); defer mu.Unlock(); nextID++; return nextID }
	writer := func(id int) func(*core.Task) {
		return func(tk *core.Task) {
			ws, err := w.NewSession(ctx, b.Auto[id])
			if err != nil {
				res.Violate("session-failed", "-", 0, "%s", firstLine(err))
				return
			}
			defer ws.End()
			r := core.NewRand(b.Seed ^ uint64(id+1)*0x9e3779b97f4a7c15)
			pending := map[int]string{}
			ack := func() {
				mu.Lock()
				for k, v := range pending {
					acked[k] = v
					if gcActive {
						duringGC++
					}
				}
				mu.Unlock()
				pending = map[int]string{}
			}
			// a writer's statement may wait for the collection, it may lose a transaction conflict, but
			// it must not fail because something its session still refers to has been collected
			failed := func(what string, it int, err error) {
				msg := strings.ToLower(err.Error())
				for _, benign := range []string{"nothing to commit", "conflict", "serialization failure", "try restarting transaction", "lock wait"} {
					if strings.Contains(msg, benign) {
						res.Probe(what + "_refused:" + firstLine(err)[:min(50, len(firstLine(err)))])
						return
					}
				}
				res.Violate("writer-statement-failed-around-gc", "stmt="+what, it, "writer %d (autocommit=%v): %s failed while or after a collection ran: %s", id, ws.Autocommit, what, firstLine(err))
			}
			for it := 0; it < b.Iters; it++ {
				tk.Yield("stmt")
				switch x := r.Intn(10); {
				case x < 6:
					k := newID()
					note := fmt.Sprintf("writer %d row %d", id, k)
					if _, err := ws.Exec(ctx, fmt.Sprintf("INSERT INTO w VALUES (%d, %d, '%s')", k, id, note)); err == nil {
						pending[k] = note
						if ws.Autocommit {
							ack()
						}
					} else {
						failed("insert", it, err)
						if !ws.Autocommit {
							ws.Exec(ctx, "ROLLBACK")
							pending = map[int]string{}
						}
					}
				case x < 8:
					if _, err := ws.Exec(ctx, "COMMIT"); err == nil {
						ack()
					} else {
						failed("commit", it, err)
						ws.Exec(ctx, "ROLLBACK")
						pending = map[int]string{}
					}
				case x < 9:
					if _, err := ws.Exec(ctx, fmt.Sprintf("CALL dolt_commit('-Am', 'writer %d commit %d')", id, it)); err == nil {
						ack()
						res.Fault("dolt-commit-by-writer")
					} else if !strings.Contains(err.Error(), "nothing to commit") {
						failed("dolt_commit", it, err)
						ws.Exec(ctx, "ROLLBACK")
						pending = map[int]string{}
					}
				default:
					// a read through the secondary index of an old table, mid-collection
					if _, err := ws.Exec(ctx, "SELECT pk FROM t WHERE v = 'one'"); err != nil {
						res.Violate("read-failed-during-collection", "-", it, "%s", firstLine(err))
					}
				}
			}
			tk.Yield("final-commit")
			if _, err := ws.Exec(ctx, "COMMIT"); err == nil {
				ack()
			}
		}
	}
	collector := func(tk *core.Task) {
		gs, err := w.NewSession(ctx, true)
		if err != nil {
			res.Violate("session-failed", "-", 0, "%s", firstLine(err))
			return
		}
		defer gs.End()
		n := 1
		if b.TwoGCs {
			n = 2
		}
		for i := 0; i < n; i++ {
			tk.Yield("before-gc")
			var args []string
			for _, f := range b.Flags {
				args = append(args, "'"+f+"'")
			}
			mu.Lock()
			gcActive = true
			mu.Unlock()
			_, err := gs.Exec(ctx, "CALL dolt_gc("+strings.Join(args, ", ")+")")
			mu.Lock()
			gcActive = false
			gcRuns++
			if err != nil {
				gcErrs++
			}
			mu.Unlock()
			if err != nil {
				res.Probe("gc_error:" + firstLine(err)[:min(60, len(firstLine(err)))])
			} else {
				res.Fault("gc" + strings.Join(b.Flags, ""))
			}
		}
	}
	for i := 0; i < b.NWriters; i++ {
		s.Go(fmt.Sprintf("writer%d", i), writer(i))
	}
	s.Go("collector", collector)
	if msg := s.Run(); msg != "" {
		res.Violate("collection-and-writers-stuck", "-", 0, "scheduler: %s [%s]\n%s\n%s", msg, s.States(), strings.Join(s.Trace, "\n"), taskStacks())
	}
	res.FaultN("context-switch", s.Switches)
	res.ProbeN("gc_phase_yields", phaseYields)
	res.ProbeN("rows_acknowledged_during_collection", duringGC)

	check := func(when string) {
		cs, err := w.NewSession(ctx, true)
		if err != nil {
			res.Violate("session-failed", "when="+when, 0, "%s", firstLine(err))
			return
		}
		defer cs.End()
		res.Evaluations++
		after, err := gcFingerprint(ctx, cs, "test")
		if err != nil {
			res.Violate("reachable-data-unreadable-after-gc", "when="+when, 0, "%s", firstLine(err))
		} else if after != before {
			res.Violate("reachable-data-changed-by-gc", "when="+when, 0, "what the writers did not touch differs %s:\n%s", when, diffLines(before, after))
		}
		rows, err := cs.Exec(ctx, "SELECT id, note FROM w")
		if err != nil {
			res.Violate("reachable-data-unreadable-after-gc", "when="+when+";table=w", 0, "%s", firstLine(err))
		} else {
			got := map[int]string{}
			for _, r := range rows {
				id, _ := strconv.Atoi(r[0])
				got[id] = r[1]
			}
			mu.Lock()
			for id, note := range acked {
				if got[id] != note {
					res.Violate("acknowledged-write-lost-across-gc", "when="+when, id, "row %d (%q) was committed by a writer session around the collection and is gone %s (table w holds %d rows)", id, note, when, len(rows))
					break
				}
			}
			mu.Unlock()
		}
		vs2, ok := w.Env.DoltDB(ctx).ValueReadWriter().(*types.ValueStore)
		if ok {
			n, bad, err := walkStore(ctx, vs2)
			if err != nil {
				res.Violate("store-walk-failed", "when="+when, 0, "%s", firstLine(err))
			} else if len(bad) > 0 {
				res.Violate("reachable-chunk-lost-by-gc", "when="+when, 0, "walking every reference from the store root %s (%d chunks read): %s", when, n, strings.Join(bad, "; "))
			} else {
				res.ProbeN("chunks_walked", n)
			}
		}
	}
	if !res.Violated() {
		check("after the collection")
	}
	if !res.Violated() {
		if err := w.Restart(ctx); err != nil {
			res.Violate("restart-after-gc-failed", "-", 0, "%s", firstLine(err))
		} else {
			res.Fault("clean-restart")
			check("after the collection and a clean restart")
		}
	}
	// Last: state that no ref names any more but that is still used. The working set of an aborted
	// rebase's working branch stays behind when the branch goes; the next rebase of that branch makes the
	// branch again and meets that working set - which must still load after the collection. (Done after
	// the fingerprints: it changes what they cover.)
	if !res.Violated() && has["aborted-conflicted-rebase"] {
		if ra, err := w.NewSession(ctx, true); err == nil {
			ok := true
			for _, q := range []string{"SET @@dolt_allow_commit_conflicts = 1", "CALL dolt_checkout('ra')", "CALL dolt_rebase('-i', 'main')", "CALL dolt_rebase('--abort')"} {
				if _, err := ra.Exec(ctx, q); err != nil {
					ok = false
					res.Violate("state-kept-by-a-working-set-lost-by-gc", "what=rebase-after-aborted-rebase", 0, "after the collection, %s on the branch whose earlier rebase had been aborted: %s", q, firstLine(err))
					break
				}
			}
			ra.End()
			if ok {
				res.Probe("rebase_again_after_gc_ok")
				if err := w.Restart(ctx); err != nil {
					res.Violate("restart-after-gc-failed", "after=second-rebase", 0, "%s", firstLine(err))
				}
			}
		}
	}
	// and the unfinished operations are finished or undone: what they need (pre-merge roots, source and
	// onto commits, the plan, the stashed roots) has to be there after the collection
	if !res.Violated() {
		use := func(what, branch string, qs ...string) {
			us, err := w.NewSession(ctx, true)
			if err != nil {
				return
			}
			defer us.End()
			if _, err := us.Exec(ctx, "CALL dolt_checkout('"+branch+"')"); err != nil {
				res.Probe("use_after_gc_checkout_refused:" + what)
				return
			}
			for _, q := range qs {
				if _, err := us.Exec(ctx, q); err != nil {
					msg := strings.ToLower(firstLine(err))
					if strings.Contains(msg, "not found") || strings.Contains(msg, "missing") || strings.Contains(msg, "dangling") || strings.Contains(msg, "empty chunk") || strings.Contains(msg, "panic") {
						res.Violate("state-kept-by-a-working-set-lost-by-gc", "what="+what, 0, "after the collection, %s on branch %s: %s", q, branch, firstLine(err))
					} else {
						res.Probe("use_after_gc_refused:" + what)
					}
					return
				}
			}
			res.Probe("used_after_gc:" + what)
		}
		if has["conflicted-merge"] {
			use("merge-abort", "left", "CALL dolt_merge('--abort')", "SELECT COUNT(*) FROM t")
		}
		if has["conflicted-cherry-pick"] {
			use("cherry-pick-abort", "cp", "CALL dolt_cherry_pick('--abort')", "SELECT COUNT(*) FROM t")
		}
		if has["conflicted-revert"] {
			use("revert-resolve", "rv", "CALL dolt_conflicts_resolve('--ours', 't')", "CALL dolt_commit('-Am', 'revert resolved after gc')")
		}
		if has["rebase-in-progress"] {
			use("rebase-continue", "dolt_rebase_rb", "CALL dolt_rebase('--continue')", "SELECT COUNT(*) FROM t")
		}
		if has["stash"] {
			br := "main"
			if has["branch"] {
				br = "b1"
			}
			use("stash-pop", br, "CALL dolt_stash('pop', 'st1')", "SELECT COUNT(*) FROM t")
		}
	}
	res.Ops = s.Switches + b.NWriters*b.Iters
	res.LogHash = s.Hash()
	if phaseYields > 0 && s.Switches > 0 && gcRuns > gcErrs {
		res.CaseHashes = append(res.CaseHashes, core.Hash64(s.Hash()))
	} else {
		res.Trivial = 1
	}
	if res.Violated() {
		b2 := b
		b2.Sched = s.Decisions()
		pinned, _ := json.Marshal(b2)
		for _, v := range res.Violations {
			if len(v.Pinned) == 0 {
				v.Pinned = pinned
			}
		}
	}
	res.Sample = map[string]any{"flags": b.Flags, "history": b.History, "writers": b.NWriters, "iters": b.Iters, "gc_phase_yields": phaseYields, "switches": s.Switches, "rows_acknowledged": len(acked), "acknowledged_during_collection": duringGC}
	return res
}

func diffLines(a, b string) string {
	as, bs := strings.Split(a, "\n"), strings.Split(b, "\n")
	in := func(xs []string) map[string]int {
		m := map[string]int{}
		for _, x := range xs {
			m[x]++
		}
		return m
	}
	am, bm := in(as), in(bs)
	var out []string
	for _, x := range as {
		if bm[x] < am[x] {
			out = append(out, "  - "+x)
		}
	}
	for _, x := range bs {
		if am[x] < bm[x] {
			out = append(out, "  + "+x)
		}
	}
	if len(out) > 30 {
		out = out[:30]
	}
	return strings.Join(out, "\n")
}

func (GCX) Shrinks(sc *core.Scenario) []*core.Scenario {
	var b GCBody
	if json.Unmarshal(sc.Body, &b) != nil || len(b.Sched) == 0 {
		return nil
	}
	var out []*core.Scenario
	for w := len(b.Sched) / 2; w >= 1; w /= 2 {
		for i := 0; i+w <= len(b.Sched); i += w {
			changed := false
			ns := append([]int(nil), b.Sched...)
			for k := i; k < i+w; k++ {
				if ns[k] != 0 {
					ns[k] = 0
					changed = true
				}
			}
			if changed {
				nb := b
				nb.Sched = ns
				raw, _ := json.Marshal(nb)
				c := *sc
				c.Body = raw
				out = append(out, &c)
			}
		}
		if len(out) > 60 {
			break
		}
	}
	// and fewer history features
	for i := range b.History {
		nb := b
		nb.History = append(append([]string(nil), b.History[:i]...), b.History[i+1:]...)
		raw, _ := json.Marshal(nb)
		c := *sc
		c.Body = raw
		out = append(out, &c)
	}
	return out
}

// taskStacks renders the stacks of the goroutines that run harness tasks (for the report of a stuck run).
func taskStacks() string {
	buf := make([]byte, 1<<20)
	buf = buf[:runtime.Stack(buf, true)]
	var out []string
	for _, g := range strings.Split(string(buf), "\n\n") {
		if !strings.Contains(g, "dsim/sql.") || strings.Contains(g, "taskStacks") {
			continue
		}
		var keep []string
		for _, l := range strings.Split(g, "\n") {
			if strings.HasPrefix(l, "\t") {
				continue
			}
			keep = append(keep, l)
			if len(keep) > 14 {
				break
			}
		}
		out = append(out, strings.Join(keep, "\n"))
	}
	return strings.Join(out, "\n--\n")
}
