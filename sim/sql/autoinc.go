package sqlh

import (
	"context"
	"encoding/json"
	"fmt"
	"strconv"
	"strings"
	"testing"

	"dsim/core"
	"dsim/simos"
	dstore "dsim/store"

	"github.com/dolthub/go-mysql-server/sql"
)

// C28 — auto-increment values are never handed out twice. Sessions on several branches of one
// running server insert into the same AUTO_INCREMENT table (NULL, 0, omitted, explicit and mixed
// multi-row forms), commit, roll back and switch branches; every generated value is read back
// through the unique tag of its row. Within one server lifetime the generated values must be
// pairwise distinct over all sessions and branches, each must exceed every value generated before
// it, and each must exceed every explicitly inserted value accepted before it on any branch.

type AI struct{}

type AIOp struct {
	S    int    `json:"s"`
	Kind string `json:"kind"` // ins | begin | commit | rollback | switch | newbranch | del | restart
	Form string `json:"form,omitempty"`
	E    int    `json:"e,omitempty"` // explicit value = high-water mark + E (E <= 0: an old value)
	N    int    `json:"n,omitempty"`
	Br   string `json:"br,omitempty"`
	T    int    `json:"t,omitempty"` // table 0/1
}

type AIBody struct {
	NSess      int      `json:"nsess"`
	Autocommit []bool   `json:"autocommit"`
	Start      []string `json:"start"` // starting branch per session
	Ops        []AIOp   `json:"ops"`
	Race       *AIRace  `json:"race,omitempty"` // concurrent inserters under the S1 scheduler (autoinc_race.go)
	// LockMode: @@innodb_autoinc_lock_mode the server is configured with (2 interleaved - the default -,
	// 1 consecutive, 0 traditional: the last two hold a table-level lock for the whole statement)
	LockMode int `json:"lock_mode"`
}

func (AI) Generate(seed uint64, tier string) *core.Scenario {
	r := core.NewRand(seed)
	lockMode := []int{2, 2, 1, 0}[core.NewRand(seed^0x28).Intn(4)]
	if r.Chance(1, 4) {
		raw, _ := json.Marshal(AIBody{Race: genAIRace(r), LockMode: lockMode})
		return &core.Scenario{Property: "C28", Harness: "C28", Seed: seed, Tier: tier, Body: raw}
	}
	b := AIBody{NSess: r.Range(2, 4), LockMode: lockMode}
	brs := []string{"main", "b1"}
	for i := 0; i < b.NSess; i++ {
		b.Autocommit = append(b.Autocommit, r.Chance(1, 2))
		b.Start = append(b.Start, brs[r.Intn(2)])
	}
	n := r.Range(20, 70)
	if tier == "thorough" && r.Chance(1, 3) {
		n = r.Range(60, 150)
	}
	haveB2 := false
	for len(b.Ops) < n {
		s := r.Intn(b.NSess)
		t := 0
		if r.Chance(1, 5) {
			t = 1
		}
		switch x := r.Intn(100); {
		case x < 45:
			form := []string{"null", "zero", "omit", "null", "omit", "multi", "mixed"}[r.Intn(7)]
			b.Ops = append(b.Ops, AIOp{S: s, Kind: "ins", Form: form, N: r.Range(2, 4), E: r.Range(1, 6), T: t})
		case x < 57:
			b.Ops = append(b.Ops, AIOp{S: s, Kind: "ins", Form: "explicit", E: r.Range(-3, 8), T: t})
		case x < 62:
			b.Ops = append(b.Ops, AIOp{S: s, Kind: "begin"})
		case x < 75:
			b.Ops = append(b.Ops, AIOp{S: s, Kind: "commit"})
		case x < 82:
			b.Ops = append(b.Ops, AIOp{S: s, Kind: "rollback"})
		case x < 90:
			if haveB2 && r.Chance(1, 2) {
				brs = []string{"main", "b1", "b2"}
			}
			b.Ops = append(b.Ops, AIOp{S: s, Kind: "switch", Br: brs[r.Intn(len(brs))]})
		case x < 93:
			if !haveB2 {
				haveB2 = true
				b.Ops = append(b.Ops, AIOp{S: s, Kind: "newbranch", Br: "b2"})
			}
		case x < 96:
			b.Ops = append(b.Ops, AIOp{S: s, Kind: "del", T: t})
		case x < 97:
			// the table is dropped on the session's branch (and made again a little later): the branches
			// that keep it go on with their sequence
			b.Ops = append(b.Ops, AIOp{S: s, Kind: "droptable", T: t})
			if r.Chance(2, 3) {
				b.Ops = append(b.Ops, AIOp{S: r.Intn(b.NSess), Kind: "ins", Form: "null", T: t}, AIOp{S: s, Kind: "createtable", T: t})
			}
		case x < 99:
			b.Ops = append(b.Ops, AIOp{Kind: "restart"})
		}
	}
	raw, _ := json.Marshal(b)
	return &core.Scenario{Property: "C28", Harness: "C28", Seed: seed, Tier: tier, Body: raw}
}

func (AI) Execute(t *testing.T, sc *core.Scenario) *core.Result {
	res := &core.Result{}
	var b AIBody
	if err := json.Unmarshal(sc.Body, &b); err != nil {
		res.Panic = "bad scenario body: " + err.Error()
		return res
	}
	ctx := context.Background()
	root := dstore.NewScratch("sqlai")
	sos, err := simos.New(root)
	if err != nil {
		res.Panic = err.Error()
		return res
	}
	defer simos.RemoveTree(root)
	sos.Install()
	defer simos.Uninstall()
	// the lock mode is server configuration: it is read when the database's sequence tracker is made
	if err := sql.SystemVariables.AssignValues(map[string]interface{}{"innodb_autoinc_lock_mode": int64(b.LockMode)}); err != nil {
		res.Panic = "setting innodb_autoinc_lock_mode: " + err.Error()
		return res
	}
	defer sql.SystemVariables.AssignValues(map[string]interface{}{"innodb_autoinc_lock_mode": int64(2)})
	res.Probe(fmt.Sprintf("knob:innodb_autoinc_lock_mode=%d", b.LockMode))
	w, err := NewWorld(ctx, root)
	if err != nil {
		res.Panic = "world: " + err.Error()
		return res
	}
	defer w.Close()
	setup, err := w.NewSession(ctx, true)
	if err != nil {
		res.Panic = err.Error()
		return res
	}
	for _, q := range []string{
		"CREATE TABLE ai0 (id INT PRIMARY KEY AUTO_INCREMENT, v INT)",
		"CREATE TABLE ai1 (id BIGINT PRIMARY KEY AUTO_INCREMENT, v INT, KEY (v))",
		"CALL dolt_commit('-Am', 'schema')",
		"CALL dolt_branch('b1')",
	} {
		if err := setup.MustExec(ctx, q); err != nil {
			res.Panic = "setup: " + err.Error()
			return res
		}
	}
	if b.Race != nil {
		setup.End()
		runAIRace(ctx, w, b.Race, b.LockMode, res)
		return res
	}
	var ss []*Sess
	cur := append([]string(nil), b.Start...) // branch per session
	explicit := make([]bool, b.NSess)
	open := func() bool {
		ss = nil
		for i := 0; i < b.NSess; i++ {
			s, err := w.NewSession(ctx, b.Autocommit[i])
			if err == nil && cur[i] != "main" {
				err = s.MustExec(ctx, "CALL dolt_checkout('"+cur[i]+"')")
				if err == nil && !b.Autocommit[i] {
					_, err = s.Exec(ctx, "COMMIT")
				}
			}
			if err != nil {
				res.Panic = "sessions: " + err.Error()
				return false
			}
			ss = append(ss, s)
			explicit[i] = false
		}
		return true
	}
	if !open() {
		return res
	}
	sig := core.NewSig()
	type gen struct {
		val, step, sess int
		branch          string
		rolledBack      bool
		// the value was held by a transaction still open when the table was dropped on another branch
		openAtDrop bool
	}
	// per table, per server lifetime
	var seen [2]map[int]gen
	var maxGen, maxExplicit [2]int
	type expl struct {
		branch     string
		rolledBack bool
	}
	var explicitOn [2]map[int]expl         // explicit values accepted: where, and whether their transaction was rolled back
	pending := make([][][2]int, b.NSess)   // per session: (table, value) generated in its open transaction
	var explicitOpenAtDrop [2]map[int]bool // explicit values that were held by an open transaction when the table was dropped elsewhere
	pendingExplicit := make([][][2]int, b.NSess)
	reset := func() {
		for t := range seen {
			seen[t] = map[int]gen{}
			maxGen[t], maxExplicit[t] = 0, 0
			explicitOn[t] = map[int]expl{}
			explicitOpenAtDrop[t] = map[int]bool{}
		}
		for i := range pending {
			pending[i] = nil
		}
		for i := range pendingExplicit {
			pendingExplicit[i] = nil
		}
	}
	// endTxn: COMMIT; a refused COMMIT rolls the transaction back, and what it had been given counts
	// as given to a rolled-back transaction
	endTxn := func(i int, s *Sess) {
		if _, err := s.Exec(ctx, "COMMIT"); err != nil {
			res.Probe("commit_refused")
			// a conflict makes dolt roll the transaction back by itself; any other commit error (a schema
			// conflict with a concurrent DROP TABLE) leaves the session inside its transaction: the
			// client's reaction is the same in both cases
			s.Exec(ctx, "ROLLBACK")
			for _, tv := range pending[i] {
				if g, ok := seen[tv[0]][tv[1]]; ok {
					g.rolledBack = true
					seen[tv[0]][tv[1]] = g
				}
			}
			for _, tv := range pendingExplicit[i] {
				if e, ok := explicitOn[tv[0]][tv[1]]; ok {
					e.rolledBack = true
					explicitOn[tv[0]][tv[1]] = e
				}
			}
		}
		pending[i], pendingExplicit[i] = nil, nil
	}
	ddl := [2]string{"CREATE TABLE ai0 (id INT PRIMARY KEY AUTO_INCREMENT, v INT)", "CREATE TABLE ai1 (id BIGINT PRIMARY KEY AUTO_INCREMENT, v INT, KEY (v))"}
	reset()
	high := func(t int) int { return max(maxGen[t], maxExplicit[t]) }
	tag := 0
	crossBranch, generated := 0, 0
	lastBranch := [2]string{}
	for step, op := range b.Ops {
		if op.S >= b.NSess {
			continue
		}
		i := op.S
		s := ss[i]
		sig.Add(op.Kind, op.Form, strconv.Itoa(i))
		tbl := fmt.Sprintf("ai%d", op.T)
		switch op.Kind {
		case "restart":
			if err := w.Restart(ctx); err != nil {
				res.Panic = "restart: " + err.Error()
				return res
			}
			if !open() {
				return res
			}
			reset() // the property speaks about one running server
			res.Fault("clean-restart")
		case "begin":
			if _, err := s.Exec(ctx, "START TRANSACTION"); err == nil {
				explicit[i] = true
			}
		case "commit":
			endTxn(i, s)
			explicit[i] = false
		case "rollback":
			if _, err := s.Exec(ctx, "ROLLBACK"); err == nil {
				res.Fault("rollback")
				for _, tv := range pending[i] {
					if g, ok := seen[tv[0]][tv[1]]; ok {
						g.rolledBack = true
						seen[tv[0]][tv[1]] = g
					}
				}
				for _, tv := range pendingExplicit[i] {
					if e, ok := explicitOn[tv[0]][tv[1]]; ok {
						e.rolledBack = true
						explicitOn[tv[0]][tv[1]] = e
					}
				}
			}
			pending[i], pendingExplicit[i] = nil, nil
			explicit[i] = false
		case "droptable":
			// DROP TABLE on this branch re-derives the sequence from the branches that keep the table.
			// What only the dropped table had (and what a rolled-back transaction was given) may come
			// again; what the other branches were given - committed or in a transaction still open - may not.
			endTxn(i, s)
			explicit[i] = false
			if _, err := s.Exec(ctx, "DROP TABLE "+tbl); err != nil {
				res.Probe("droptable_refused")
				break
			}
			if !s.Autocommit {
				s.Exec(ctx, "COMMIT")
			}
			res.Fault("drop-table-on-one-branch")
			for j := range pending {
				for _, tv := range pending[j] {
					if g, ok := seen[tv[0]][tv[1]]; ok && tv[0] == op.T && g.branch != cur[i] {
						g.openAtDrop = true
						seen[tv[0]][tv[1]] = g
						res.Probe("value_in_open_transaction_while_table_dropped_elsewhere")
					}
				}
			}
			for j := range pendingExplicit {
				for _, tv := range pendingExplicit[j] {
					if tv[0] == op.T && cur[j] != cur[i] {
						explicitOpenAtDrop[op.T][tv[1]] = true
						res.Probe("value_in_open_transaction_while_table_dropped_elsewhere")
					}
				}
			}
			maxGen[op.T] = 0
			for v, g := range seen[op.T] {
				if g.branch == cur[i] || g.rolledBack {
					delete(seen[op.T], v)
				} else {
					maxGen[op.T] = max(maxGen[op.T], v)
				}
			}
			maxExplicit[op.T] = 0
			for v, e := range explicitOn[op.T] {
				if e.branch == cur[i] || e.rolledBack {
					delete(explicitOn[op.T], v)
				} else {
					maxExplicit[op.T] = max(maxExplicit[op.T], v)
				}
			}
		case "createtable":
			endTxn(i, s)
			explicit[i] = false
			if _, err := s.Exec(ctx, ddl[op.T]); err == nil {
				res.Fault("table-made-again")
				if !s.Autocommit {
					s.Exec(ctx, "COMMIT")
				}
			}
		case "newbranch":
			if _, err := s.Exec(ctx, "CALL dolt_branch('"+op.Br+"')"); err == nil {
				res.Fault("new-branch")
			}
		case "switch":
			// finish the transaction first: checkout with pending changes is another subject
			endTxn(i, s)
			explicit[i] = false
			if _, err := s.Exec(ctx, "CALL dolt_checkout('"+op.Br+"')"); err == nil {
				if cur[i] != op.Br {
					res.Fault("branch-switch")
				}
				cur[i] = op.Br
				if !s.Autocommit {
					s.Exec(ctx, "COMMIT")
				}
			}
		case "del":
			// removing the newest rows must not bring their values back
			if _, err := s.Exec(ctx, "DELETE FROM "+tbl+" ORDER BY id DESC LIMIT 2"); err == nil {
				res.Fault("delete-newest-rows")
			}
		case "ins":
			var rows []string // VALUES tuples
			var tags []int
			var explicitVals []int
			mk := func(id string) {
				tag++
				tags = append(tags, tag)
				rows = append(rows, fmt.Sprintf("(%s, %d)", id, tag))
			}
			cols := "(id, v)"
			switch op.Form {
			case "null":
				mk("NULL")
			case "zero":
				mk("0")
			case "omit":
				cols = "(v)"
				tag++
				tags = append(tags, tag)
				rows = append(rows, fmt.Sprintf("(%d)", tag))
			case "multi":
				for k := 0; k < op.N; k++ {
					mk("NULL")
				}
			case "mixed":
				mk("NULL")
				e := high(op.T) + 1 + op.E
				explicitVals = append(explicitVals, e)
				mk(strconv.Itoa(e))
				mk("NULL")
			case "explicit":
				e := high(op.T) + op.E
				if e < 1 {
					e = 1
				}
				explicitVals = append(explicitVals, e)
				mk(strconv.Itoa(e))
			}
			q := fmt.Sprintf("INSERT INTO %s %s VALUES %s", tbl, cols, strings.Join(rows, ", "))
			if _, err := s.Exec(ctx, q); err != nil {
				res.Probe("insert_refused")
				break
			}
			var ts []string
			for _, tg := range tags {
				ts = append(ts, strconv.Itoa(tg))
			}
			got, err := s.Exec(ctx, fmt.Sprintf("SELECT v, id FROM %s WHERE v IN (%s) ORDER BY v", tbl, strings.Join(ts, ", ")))
			if err != nil || len(got) != len(tags) {
				res.Violate("inserted-row-not-readable", "-", step, "session %d: after %s the same session reads back %d of %d rows (%v)", i, q, len(got), len(tags), err)
				break
			}
			isExplicit := map[int]bool{}
			for _, e := range explicitVals {
				isExplicit[e] = true
			}
			for _, r := range got {
				id, _ := strconv.Atoi(r[1])
				res.Evaluations++
				if isExplicit[id] && (op.Form == "explicit" || op.Form == "mixed") {
					// an explicit value: it moves the sequence forward for every branch
					if id > maxExplicit[op.T] {
						maxExplicit[op.T] = id
						res.Fault("explicit-value-above-sequence")
					}
					explicitOn[op.T][id] = expl{branch: cur[i]}
					if !s.Autocommit || explicit[i] {
						pendingExplicit[i] = append(pendingExplicit[i], [2]int{op.T, id})
					}
					continue
				}
				generated++
				// a violation that goes back to the recorded finding (DROP TABLE on another branch re-derives
				// the sequence from what the remaining branches have persisted, which leaves out values
				// held by transactions still open) is named as such
				cause := func(g gen) string {
					if g.openAtDrop {
						return "cause=sequence-lowered-by-drop-table-under-open-transaction"
					}
					return "table=" + tbl
				}
				if prev, dup := seen[op.T][id]; dup {
					res.Violate("auto-increment-value-handed-out-twice", cause(prev), step, "session %d on branch %s got id %d for %s, which session %d on branch %s was given at step %d in the same server lifetime", i, cur[i], id, tbl, prev.sess, prev.branch, prev.step)
				} else if id <= maxGen[op.T] {
					res.Violate("generated-value-not-increasing", cause(seen[op.T][maxGen[op.T]]), step, "session %d on branch %s got id %d for %s after %d had already been generated", i, cur[i], id, tbl, maxGen[op.T])
				} else if id <= maxExplicit[op.T] {
					key := "table=" + tbl
					if explicitOpenAtDrop[op.T][maxExplicit[op.T]] {
						key = "cause=sequence-lowered-by-drop-table-under-open-transaction"
					}
					res.Violate("sequence-not-moved-past-explicit-value", key, step, "session %d on branch %s got id %d for %s although the explicit value %d had been inserted before (on some branch)", i, cur[i], id, tbl, maxExplicit[op.T])
				}
				seen[op.T][id] = gen{val: id, step: step, sess: i, branch: cur[i]}
				maxGen[op.T] = max(maxGen[op.T], id)
				if !s.Autocommit || explicit[i] {
					pending[i] = append(pending[i], [2]int{op.T, id})
				}
				if lastBranch[op.T] != "" && lastBranch[op.T] != cur[i] {
					crossBranch++
				}
				lastBranch[op.T] = cur[i]
			}
		}
		if len(res.Violations) >= 3 {
			break
		}
	}
	res.Ops = len(b.Ops)
	res.LogHash = sig.Sum()
	if crossBranch > 0 {
		res.CaseHashes = append(res.CaseHashes, core.Hash64(sig.Sum(), fmt.Sprint(sc.Seed)))
	} else {
		res.Trivial = 1
	}
	res.ProbeN("generated_values", generated)
	res.ProbeN("generated_after_other_branch", crossBranch)
	res.Sample = map[string]any{"sessions": b.NSess, "start_branches": b.Start, "statements": len(b.Ops), "generated_values": generated, "generated_right_after_another_branch": crossBranch}
	return res
}

func (AI) Shrinks(sc *core.Scenario) []*core.Scenario {
	var b AIBody
	if json.Unmarshal(sc.Body, &b) != nil {
		return nil
	}
	var out []*core.Scenario
	if b.Race != nil {
		rc := b.Race
		for w := len(rc.Sched) / 2; w >= 1; w /= 2 {
			for i := 0; i+w <= len(rc.Sched); i += w {
				ns := append([]int(nil), rc.Sched...)
				changed := false
				for k := i; k < i+w; k++ {
					if ns[k] != 0 {
						ns[k], changed = 0, true
					}
				}
				if changed {
					r2 := *rc
					r2.Sched = ns
					raw, _ := json.Marshal(AIBody{Race: &r2})
					c := *sc
					c.Body = raw
					out = append(out, &c)
				}
			}
			if len(out) > 60 {
				break
			}
		}
		return out
	}
	n := len(b.Ops)
	for w := n / 2; w >= 1; w /= 2 {
		for i := 0; i+w <= n; i += w {
			nb := b
			nb.Ops = append(append([]AIOp(nil), b.Ops[:i]...), b.Ops[i+w:]...)
			raw, _ := json.Marshal(nb)
			c := *sc
			c.Body = raw
			out = append(out, &c)
		}
		if len(out) > 150 {
			break
		}
	}
	return out
}
