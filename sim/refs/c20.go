// Package refs holds the dsim harnesses of the value / version-control layer (binary dsim-refs).
package refs

import (
	"context"
	"encoding/json"
	"errors"
	"fmt"
	"os"
	"path/filepath"
	"sort"
	"strings"
	"sync"
	"sync/atomic"
	"testing"

	"dsim/core"
	"dsim/simos"
	dstore "dsim/store"

	"github.com/anishathalye/porcupine"
	"github.com/dolthub/dolt/go/libraries/doltcore/doltdb"
	"github.com/dolthub/dolt/go/libraries/doltcore/ref"
	"github.com/dolthub/dolt/go/libraries/doltcore/schema"
	"github.com/dolthub/dolt/go/store/chunks"
	"github.com/dolthub/dolt/go/store/constants"
	"github.com/dolthub/dolt/go/store/datas"
	"github.com/dolthub/dolt/go/store/hash"
	"github.com/dolthub/dolt/go/store/nbs"
	"github.com/dolthub/dolt/go/store/prolly/tree"
	"github.com/dolthub/dolt/go/store/types"
)

// C20 — ref updates are linearizable and never lose a concurrent update.
// C21 — a commit and its working-set update land together (same harness: the checked object is the
// whole dataset map, read atomically; plus crash images of CommitWithWorkingSet in c21.go).

type C20 struct{ Prop string }

type C20Body struct {
	Mode     string    `json:"mode"`  // shared | procs
	Store    string    `json:"store"` // journal | local
	NTasks   int       `json:"ntasks"`
	Iters    int       `json:"iters"`
	Mix      []string  `json:"mix"` // enabled operation kinds
	Seed     uint64    `json:"sched_seed"`
	Sched    []int     `json:"sched,omitempty"`
	PCT      int       `json:"pct"` // 0 = random walk, d>0 = priority-based strategy of depth d
	YieldOps []string  `json:"yield_ops,omitempty"`
	Crash    *c21Crash `json:"crash,omitempty"` // C21: replay exactly this crash image
}

var c20Kinds = []string{"commit", "commitws", "ff", "sethead", "tag", "delete", "updatews", "read", "newbranch"}

func (h C20) Generate(seed uint64, tier string) *core.Scenario {
	r := core.NewRand(seed)
	b := C20Body{Seed: r.Uint64()}
	b.PCT = []int{0, 0, 2, 3, 4, 5}[r.Intn(6)]
	if r.Chance(2, 3) {
		b.Mode = "shared"
		b.Store = []string{"journal", "local"}[r.Intn(2)]
	} else {
		b.Mode = "procs"
		b.Store = "local"
	}
	b.NTasks = r.Range(2, 4)
	b.Iters = r.Range(2, 5)
	if r.Chance(1, 2) {
		// swarm: a small subset of kinds, so that the few enabled ones collide often
		want := r.Range(2, 4)
		perm := r.Perm(len(c20Kinds))
		for _, i := range perm[:want] {
			b.Mix = append(b.Mix, c20Kinds[i])
		}
		b.Iters = r.Range(3, 6)
	} else {
		for _, k := range c20Kinds {
			if r.Chance(2, 3) {
				b.Mix = append(b.Mix, k)
			}
		}
	}
	if h.Prop == "C21" {
		// the pair property: always exercise the combined update and its competitors
		b.Mix = append(b.Mix, "commitws", "updatews", "commit", "sethead", "read")
	}
	if len(b.Mix) < 2 {
		b.Mix = []string{"commit", "read", "commitws"}
	}
	for _, o := range []string{"rename", "open", "stat", "fsync", "read", "write"} {
		if r.Chance(1, 2) {
			b.YieldOps = append(b.YieldOps, o)
		}
	}
	raw, _ := json.Marshal(b)
	return &core.Scenario{Property: h.Prop, Harness: h.Prop, Seed: seed, Tier: tier, Body: raw}
}

// ---- the reference model: a map dataset-id -> address with conditional operations -------------

type refOp struct {
	Kind  string // commit | commitws | ff | sethead | tag | delete | updatews | read | newbranch
	DS    string
	WS    string
	Obs   string // head observed by the caller (the CAS expectation)
	ObsWS string
	New   string
	NewWS string
	Anc   bool // ff: the new commit descends from Obs (by the harness's own DAG)
	Ok    bool
	Snap  map[string]string // read: the snapshot returned
	Err   string
}

func encState(m map[string]string) string {
	ks := make([]string, 0, len(m))
	for k := range m {
		ks = append(ks, k)
	}
	sort.Strings(ks)
	var sb strings.Builder
	for _, k := range ks {
		sb.WriteString(k)
		sb.WriteByte('=')
		sb.WriteString(m[k])
		sb.WriteByte(';')
	}
	return sb.String()
}

func decState(s string) map[string]string {
	m := map[string]string{}
	for _, kv := range strings.Split(s, ";") {
		if k, v, ok := strings.Cut(kv, "="); ok {
			m[k] = v
		}
	}
	return m
}

// refsModel: dirty(wsAddr, headAddr) tells whether the working set value is dirty with respect to
// the head commit (staged != working, or staged != the commit's root); it is a function of the two
// immutable values, looked up in tables the harness filled when it created them.
//
// staleRefusals: the sessions are processes with a store object each. database.update reads the root
// its own store object has cached and returns the edit function's error without attempting the
// compare-and-swap that would tell it the root is stale, so a refusal (dirty workspace, merge needed)
// can rest on a state that is no longer current. The property allows a conditional update to fail;
// only within one store object, whose cached root every commit of the process refreshes, must a
// dirty-workspace refusal be justified by the state at its linearization point.
func refsModel(init map[string]string, dirty func(ws, head string) bool, staleRefusals bool) porcupine.Model {
	return porcupine.Model{
		Init: func() interface{} { return encState(init) },
		Step: func(state, input, output interface{}) (bool, interface{}) {
			st := decState(state.(string))
			op := input.(refOp)
			if op.Kind == "read" {
				return encState(op.Snap) == state.(string), state
			}
			if !op.Ok {
				if op.Kind == "delete" && op.Err == "dirty-workspace" && !staleRefusals {
					// refused as dirty: at the linearization point there must be a dirty working set
					ws, has := st[op.WS]
					return has && dirty != nil && dirty(ws, st[op.DS]), state
				}
				return true, state // a refused conditional update changes nothing
			}
			switch op.Kind {
			case "commit":
				if st[op.DS] != op.Obs {
					return false, state
				}
				st[op.DS] = op.New
			case "commitws":
				if st[op.DS] != op.Obs || st[op.WS] != op.ObsWS {
					return false, state
				}
				st[op.DS] = op.New
				st[op.WS] = op.NewWS
			case "ff":
				if st[op.DS] != op.Obs || !op.Anc {
					return false, state
				}
				st[op.DS] = op.New
			case "sethead":
				st[op.DS] = op.New
			case "newbranch":
				if _, exists := st[op.DS]; exists {
					return false, state
				}
				st[op.DS] = op.New
			case "tag":
				if _, exists := st[op.DS]; exists {
					return false, state
				}
				st[op.DS] = op.New
			case "delete":
				// Delete removes whatever head is there (its internal check only guards against the
				// head changing between its own retries) and succeeds if the dataset is absent; with a
				// working-set path it must refuse when that working set is dirty
				if ws, has := st[op.WS]; has && op.WS != "" && dirty != nil && dirty(ws, st[op.DS]) {
					return false, state
				}
				delete(st, op.DS)
				if op.WS != "" {
					delete(st, op.WS)
				}
			case "updatews":
				if st[op.WS] != op.ObsWS {
					return false, state
				}
				st[op.WS] = op.NewWS
			}
			return true, encState(st)
		},
		Equal: func(a, b interface{}) bool { return a.(string) == b.(string) },
		DescribeOperation: func(input, output interface{}) string {
			op := input.(refOp)
			return describeRefOp(op)
		},
	}
}

func mainRef() ref.DoltRef { return ref.NewBranchRef("main") }

func sh(s string) string {
	if len(s) > 6 {
		return s[:6]
	}
	return s
}

func describeRefOp(op refOp) string {
	switch op.Kind {
	case "read":
		var parts []string
		for _, k := range sortedKeys(op.Snap) {
			parts = append(parts, filepath.Base(k)+"="+sh(op.Snap[k]))
		}
		return "read {" + strings.Join(parts, " ") + "}"
	case "commitws":
		return fmt.Sprintf("commit+ws %s (head %s->%s, ws %s->%s) ok=%v %s", filepath.Base(op.DS), sh(op.Obs), sh(op.New), sh(op.ObsWS), sh(op.NewWS), op.Ok, op.Err)
	case "updatews":
		return fmt.Sprintf("updatews %s (%s->%s) ok=%v %s", filepath.Base(op.WS), sh(op.ObsWS), sh(op.NewWS), op.Ok, op.Err)
	}
	return fmt.Sprintf("%s %s (%s->%s) ok=%v %s", op.Kind, filepath.Base(op.DS), sh(op.Obs), sh(op.New), op.Ok, op.Err)
}

func sortedKeys(m map[string]string) []string {
	ks := make([]string, 0, len(m))
	for k := range m {
		ks = append(ks, k)
	}
	sort.Strings(ks)
	return ks
}

// ---- the world ---------------------------------------------------------------------------------

type refsWorld struct {
	ctx     context.Context
	st      *nbs.NomsBlockStore
	ddb     *doltdb.DoltDB
	db      datas.Database
	rootVal types.Value
	rootRef types.Ref
	// a second, different root value: working sets whose working/staged root differs from the
	// head's root are "dirty" (Delete with a working-set path must refuse them)
	rootVals [2]types.Value
	rootRefs [2]types.Ref
	vrw      *types.ValueStore
	cs       chunks.ChunkStore
}

func openRefsWorld(ctx context.Context, dir, store string, s *core.Sched, init bool) (*refsWorld, error) {
	return openRefsWorldMode(ctx, dir, store, s, init, false)
}

func openRefsWorldMode(ctx context.Context, dir, store string, s *core.Sched, init bool, procs bool) (*refsWorld, error) {
	var st *nbs.NomsBlockStore
	var err error
	if store == "journal" {
		st, err = dstore.OpenJournal(ctx, dir, 0)
	} else {
		st, err = nbs.NewLocalStore(ctx, constants.FormatDefaultString, dir, 1<<20, nbs.NewUnlimitedMemQuotaProvider(), false)
		if err == nil {
			st.DisableConjoin()
		}
	}
	if err != nil {
		return nil, err
	}
	var cs chunks.ChunkStore = st
	if s != nil && procs {
		cs = dstore.NewQuietingStore(st, s)
	} else if s != nil {
		cs = dstore.NewYieldingStore(st, s)
	}
	ddb, err := doltdb.DoltDBFromCS(cs, "db")
	if err != nil {
		st.Close()
		return nil, err
	}
	vrw := types.NewValueStore(cs)
	w := &refsWorld{ctx: ctx, st: st, ddb: ddb, vrw: vrw, cs: cs, db: datas.NewTypesDatabase(vrw, tree.NewNodeStore(cs))}
	if init {
		if err := ddb.WriteEmptyRepo(ctx, "main", "dsim", "dsim@example.com"); err != nil {
			st.Close()
			return nil, fmt.Errorf("WriteEmptyRepo: %w", err)
		}
	}
	cm, err := ddb.ResolveCommitRef(ctx, mainRef())
	if err != nil {
		st.Close()
		return nil, fmt.Errorf("resolve main: %w", err)
	}
	rv, err := cm.GetRootValue(ctx)
	if err != nil {
		st.Close()
		return nil, err
	}
	// two fixed root values, independent of where main points when the store is (re)opened
	for i, coll := range []schema.Collation{schema.Collation_Default, schema.Collation_utf8mb4_bin} {
		rvi, err := rv.SetCollation(ctx, coll)
		if err == nil {
			rvi, _, err = ddb.WriteRootValue(ctx, rvi)
		}
		if err != nil {
			st.Close()
			return nil, fmt.Errorf("root value %d: %w", i, err)
		}
		w.rootVals[i] = rvi.NomsValue()
		if w.rootRefs[i], err = types.NewRef(w.rootVals[i], ddb.Format()); err != nil {
			st.Close()
			return nil, err
		}
	}
	w.rootVal, w.rootRef = w.rootVals[0], w.rootRefs[0]
	if w.rootRefs[1].TargetHash() == w.rootRefs[0].TargetHash() {
		st.Close()
		return nil, fmt.Errorf("second root equals the first")
	}
	return w, nil
}

func (w *refsWorld) snapshot() (map[string]string, error) {
	dm, err := w.db.Datasets(w.ctx)
	if err != nil {
		return nil, err
	}
	out := map[string]string{}
	err = dm.IterAll(w.ctx, func(id string, addr hash.Hash) error {
		out[id] = addr.String()
		return nil
	})
	return out, err
}

func (h C20) Execute(t *testing.T, sc *core.Scenario) *core.Result {
	res := &core.Result{}
	var b C20Body
	if err := json.Unmarshal(sc.Body, &b); err != nil {
		res.Panic = "bad scenario body: " + err.Error()
		return res
	}
	ctx := context.Background()
	if h.Prop == "C21" && b.Crash != nil {
		// a pinned crash image: only the crash part is replayed
		c21CrashPart(ctx, sc, &b, b.Crash, res)
		res.LogHash = "crash-only"
		return res
	}
	root := dstore.NewScratch("c20")
	sos, err := simos.New(root)
	if err != nil {
		res.Panic = err.Error()
		return res
	}
	defer simos.RemoveTree(root)
	sos.Install()
	defer simos.Uninstall()
	dir := filepath.Join(root, "db")
	os.Mkdir(dir, 0o755)
	restore := dstore.ApplyJCfg(dstore.JCfg{BuffSize: 1 << 20, SyncThreshold: 64 << 20, MaxNovel: 16384})
	defer restore()

	ch := core.NewChooser(b.Seed, b.Sched)
	s := core.NewSched(ch)
	s.PCTDepth = b.PCT
	s.KeepTrace = len(b.Sched) > 0
	s.OnRelease = func(t *core.Task) { sos.SetActor(t.Actor) }

	// initialise (no scheduler running yet: the wrapper's yields are no-ops)
	w0, err := openRefsWorld(ctx, dir, b.Store, s, true)
	if err != nil {
		res.Panic = "init: " + err.Error()
		return res
	}
	// a second branch with a clean working set, so that Delete(branch, working set) has a target
	if mds, err := w0.db.GetDataset(ctx, "refs/heads/main"); err == nil {
		if ma, ok := mds.MaybeHeadAddr(); ok {
			if ds, err := w0.db.GetDataset(ctx, "refs/heads/b1"); err == nil {
				if _, err := w0.db.SetHead(ctx, ds, ma, ""); err == nil {
					if wds, err := w0.db.GetDataset(ctx, "workingSets/heads/b1"); err == nil {
						w0.db.UpdateWorkingSet(ctx, wds, datas.WorkingSetSpec{Meta: &datas.WorkingSetMeta{Name: "dsim", Email: "d@e", Description: "init b1", Timestamp: 1}, WorkingRoot: w0.rootRef, StagedRoot: w0.rootRef}, hash.Hash{})
					}
				}
			}
		}
	}
	init, err := w0.snapshot()
	if err != nil {
		res.Panic = "init snapshot: " + err.Error()
		return res
	}
	if b.Mode == "procs" {
		w0.ddb.Close()
		w0 = nil
		elig := map[string]bool{}
		for _, o := range b.YieldOps {
			elig[o] = true
		}
		sos.Yield = func(c *simos.Call) {
			op := c.Op
			switch op {
			case "readat":
				op = "read"
			case "writeat":
				op = "write"
			case "lstat", "fstat":
				op = "stat"
			}
			if !elig[op] {
				return
			}
			base := filepath.Base(c.Path)
			if c.Op == "create" && (strings.HasPrefix(base, "nbs_manifest_") || strings.HasPrefix(base, "nbs_table_")) {
				return
			}
			s.YieldHere(op + ":" + dstore.FileClass(c.Path, c.Path2))
		}
	}

	enabled := map[string]bool{}
	for _, k := range b.Mix {
		enabled[k] = true
	}
	var kinds []string
	for _, k := range c20Kinds {
		if enabled[k] {
			kinds = append(kinds, k)
		}
	}
	// Tasks normally run one at a time; two tasks that sleep on the simulated clock (lock polling)
	// can be woken at the same instant, so the shared bookkeeping is locked all the same.
	var hmu sync.Mutex
	var seq int64
	tick := func() int64 { hmu.Lock(); defer hmu.Unlock(); seq++; return seq }
	var hist []porcupine.Operation
	parents := map[string][]string{} // commit address -> parent addresses (harness DAG)
	var known []string               // commit addresses that exist in the store
	for _, v := range init {
		known = append(known, v)
	}
	sort.Strings(known)
	known = known[:0]
	if hm, ok := init["refs/heads/main"]; ok {
		known = append(known, hm)
	}
	wsInfo := map[string][2]int{} // working-set address -> (staged root index, working root index)
	cmRoot := map[string]int{}    // commit address -> root index (absent = 0)
	isDirty := func(ws, head string) bool {
		hmu.Lock()
		defer hmu.Unlock()
		wi := wsInfo[ws]
		return wi[0] != wi[1] || wi[0] != cmRoot[head]
	}
	isAncestor := func(anc, desc string) bool {
		hmu.Lock()
		defer hmu.Unlock()
		seen := map[string]bool{}
		stack := []string{desc}
		for len(stack) > 0 {
			x := stack[len(stack)-1]
			stack = stack[:len(stack)-1]
			if x == anc {
				return true
			}
			if seen[x] {
				continue
			}
			seen[x] = true
			stack = append(stack, parents[x]...)
		}
		return false
	}
	pickKnown := func(r *core.Rand) string {
		hmu.Lock()
		defer hmu.Unlock()
		return known[r.Intn(len(known))]
	}
	addCommit := func(addr string, ps ...string) {
		hmu.Lock()
		defer hmu.Unlock()
		parents[addr] = ps
		known = append(known, addr)
	}
	record := func(client int, op refOp, call, ret int64) {
		hmu.Lock()
		defer hmu.Unlock()
		hist = append(hist, porcupine.Operation{ClientId: client, Input: op, Output: 0, Call: call, Return: ret})
		if op.Ok {
			res.Probe("ok:" + op.Kind)
		} else if op.Kind != "read" {
			res.Fault("refused:" + op.Kind)
		}
	}
	branches := []string{"refs/heads/main", "refs/heads/b1", "refs/heads/b2"}
	hot := branches[int(b.Seed>>7)%len(branches)]
	wsOf := func(b string) string { return "workingSets/heads/" + filepath.Base(b) }
	var uniq atomic.Int64

	task := func(id int) func(*core.Task) {
		return func(tk *core.Task) {
			var w *refsWorld
			if b.Mode == "shared" {
				w = w0
			} else {
				var err error
				w, err = openRefsWorldMode(ctx, dir, b.Store, s, false, true)
				if err != nil {
					res.Violate("open-failed", "mode=procs", 0, "%s", dstore.FirstLine(err))
					return
				}
				defer w.ddb.Close()
			}
			r := core.NewRand(b.Seed ^ uint64(id+1)*2654435761)
			meta := func() *datas.CommitMeta {
				m, _ := datas.NewCommitMeta("dsim", "dsim@example.com", fmt.Sprintf("task %d op %d", id, uniq.Add(1)))
				return m
			}
			var lastWS [2]int
			curHead := ""
			wsSpec := func() datas.WorkingSetSpec {
				u := uniq.Add(1)
				lastWS = [2]int{0, 0}
				switch r.Intn(4) {
				case 0:
					lastWS = [2]int{0, 1}
				case 1:
					lastWS = [2]int{1, 1}
				case 2:
					// clean with respect to the branch head just read
					hmu.Lock()
					lastWS = [2]int{cmRoot[curHead], cmRoot[curHead]}
					hmu.Unlock()
				}
				return datas.WorkingSetSpec{Meta: &datas.WorkingSetMeta{Name: "dsim", Email: "d@e", Description: fmt.Sprintf("ws %d %d", id, u), Timestamp: uint64(u)}, WorkingRoot: w.rootRefs[lastWS[1]], StagedRoot: w.rootRefs[lastWS[0]]}
			}
			noteWS := func(addr string) {
				hmu.Lock()
				wsInfo[addr] = lastWS
				hmu.Unlock()
			}
			var lastRoot int
			pickRoot := func() types.Value {
				lastRoot = 0
				if r.Chance(1, 3) {
					lastRoot = 1
				}
				return w.rootVals[lastRoot]
			}
			noteCommit := func(addr string) {
				hmu.Lock()
				cmRoot[addr] = lastRoot
				hmu.Unlock()
			}
			getDS := func(id string) (datas.Dataset, string, bool) {
				ds, err := w.db.GetDataset(ctx, id)
				if err != nil {
					return ds, "", false
				}
				a, ok := ds.MaybeHeadAddr()
				if !ok {
					return ds, "", true
				}
				if strings.HasPrefix(id, "refs/heads/") {
					curHead = a.String()
				}
				return ds, a.String(), true
			}
			for it := 0; it < b.Iters; it++ {
				tk.Quiet = false
				tk.Yield("iter")
				if b.Mode == "procs" {
					if err := w.cs.Rebase(ctx); err != nil {
						res.Probe("rebase_error")
						continue
					}
				}
				kind := kinds[r.Intn(len(kinds))]
				br := branches[r.Intn(len(branches))]
				if r.Chance(1, 2) {
					br = hot // one branch per run draws half of the operations, so that they collide
				}
				switch kind {
				case "read":
					call := tick()
					if b.Mode == "procs" {
						w.cs.Rebase(ctx)
					}
					snap, err := w.snapshot()
					ret := tick()
					if err != nil {
						res.Probe("read_error")
						continue
					}
					record(id, refOp{Kind: "read", Snap: snap}, call, ret)
					res.Evaluations++
				case "commit":
					call := tick()
					ds, obs, ok := getDS(br)
					if !ok || obs == "" {
						continue
					}
					nds, err := w.db.Commit(ctx, ds, pickRoot(), datas.CommitOptions{Meta: meta()})
					ret := tick()
					op := refOp{Kind: "commit", DS: br, Obs: obs}
					if err == nil {
						a, _ := nds.MaybeHeadAddr()
						op.Ok, op.New = true, a.String()
						noteCommit(op.New)
						addCommit(op.New, obs)
					} else {
						op.Err = errClass(err)
					}
					record(id, op, call, ret)
				case "commitws":
					call := tick()
					ds, obs, ok := getDS(br)
					if !ok || obs == "" {
						continue
					}
					wds, obsWS, ok := getDS(wsOf(br))
					if !ok {
						continue
					}
					prev := hash.Hash{}
					if obsWS != "" {
						prev = hash.Parse(obsWS)
					}
					cds, nwds, err := w.db.CommitWithWorkingSet(ctx, ds, wds, pickRoot(), wsSpec(), prev, datas.CommitOptions{Meta: meta()})
					ret := tick()
					op := refOp{Kind: "commitws", DS: br, WS: wsOf(br), Obs: obs, ObsWS: obsWS}
					if err == nil {
						a, _ := cds.MaybeHeadAddr()
						wa, _ := nwds.MaybeHeadAddr()
						op.Ok, op.New, op.NewWS = true, a.String(), wa.String()
						noteCommit(op.New)
						noteWS(op.NewWS)
						addCommit(op.New, obs)
					} else {
						op.Err = errClass(err)
					}
					record(id, op, call, ret)
				case "updatews":
					call := tick()
					wds, obsWS, ok := getDS(wsOf(br))
					if !ok {
						continue
					}
					prev := hash.Hash{}
					if obsWS != "" {
						prev = hash.Parse(obsWS)
					}
					nwds, err := w.db.UpdateWorkingSet(ctx, wds, wsSpec(), prev)
					ret := tick()
					op := refOp{Kind: "updatews", WS: wsOf(br), ObsWS: obsWS}
					if err == nil {
						wa, _ := nwds.MaybeHeadAddr()
						op.Ok, op.NewWS = true, wa.String()
						noteWS(op.NewWS)
					} else {
						op.Err = errClass(err)
					}
					record(id, op, call, ret)
				case "ff":
					// build a dangling descendant of some known commit, then try to fast-forward to it
					base := pickKnown(r)
					call := tick()
					ds, obs, ok := getDS(br)
					if !ok || obs == "" {
						continue
					}
					nc, err := w.db.BuildNewCommit(ctx, ds, pickRoot(), datas.CommitOptions{Meta: meta(), Parents: []hash.Hash{hash.Parse(base)}, Force: true})
					if err != nil {
						res.Probe("build_commit_error")
						continue
					}
					cref, err := w.vrw.WriteValue(ctx, nc.NomsValue())
					if err != nil {
						continue
					}
					na := cref.TargetHash().String()
					hmu.Lock()
					parents[na] = []string{base}
					cmRoot[na] = lastRoot
					hmu.Unlock()
					nds, err := w.db.FastForward(ctx, ds, cref.TargetHash(), "", false)
					ret := tick()
					op := refOp{Kind: "ff", DS: br, Obs: obs, New: na, Anc: isAncestor(obs, na)}
					if err == nil {
						a, _ := nds.MaybeHeadAddr()
						op.Ok = true
						if a.String() != na {
							res.Violate("ff-returned-other-head", "-", int(seq), "FastForward to %s returned head %s", sh(na), sh(a.String()))
						}
						addCommit(na, base)
						if !op.Anc {
							res.Violate("non-forcing-move-to-non-descendant", "op=ff", int(seq), "FastForward moved %s from %s to %s which does not descend from it", br, sh(obs), sh(na))
						}
					} else {
						op.Err = errClass(err)
					}
					record(id, op, call, ret)
				case "sethead":
					target := pickKnown(r)
					call := tick()
					ds, _, ok := getDS(br)
					if !ok {
						continue
					}
					_, err := w.db.SetHead(ctx, ds, hash.Parse(target), "")
					ret := tick()
					op := refOp{Kind: "sethead", DS: br, New: target}
					if err == nil {
						op.Ok = true
					} else {
						op.Err = errClass(err)
					}
					record(id, op, call, ret)
				case "newbranch":
					target := pickKnown(r)
					nb := branches[1+r.Intn(2)]
					call := tick()
					ds, obs, ok := getDS(nb)
					if !ok || obs != "" {
						if nb == branches[1] {
							nb = branches[2]
						} else {
							nb = branches[1]
						}
						if ds, obs, ok = getDS(nb); !ok || obs != "" {
							continue
						}
					}
					_, err := w.db.SetHead(ctx, ds, hash.Parse(target), "")
					ret := tick()
					// SetHead is unconditional: model as sethead
					op := refOp{Kind: "sethead", DS: nb, New: target}
					if err == nil {
						op.Ok = true
					} else {
						op.Err = errClass(err)
					}
					record(id, op, call, ret)
				case "tag":
					target := pickKnown(r)
					tg := fmt.Sprintf("refs/tags/t%d", r.Intn(2))
					call := tick()
					ds, _, ok := getDS(tg)
					if !ok {
						continue
					}
					nds, err := w.db.Tag(ctx, ds, hash.Parse(target), datas.TagOptions{Meta: datas.NewTagMeta("dsim", "d@e", fmt.Sprintf("tag by %d #%d", id, it))})
					ret := tick()
					op := refOp{Kind: "tag", DS: tg}
					if err == nil {
						a, _ := nds.MaybeHeadAddr()
						op.Ok, op.New = true, a.String()
					} else {
						op.Err = errClass(err)
					}
					record(id, op, call, ret)
				case "delete":
					if br == "refs/heads/main" {
						br = branches[1+r.Intn(2)]
					}
					call := tick()
					ds, obs, ok := getDS(br)
					if !ok || obs == "" {
						continue
					}
					_, err := w.db.Delete(ctx, ds, wsOf(br))
					ret := tick()
					op := refOp{Kind: "delete", DS: br, WS: wsOf(br), Obs: obs}
					if err == nil {
						op.Ok = true
					} else {
						op.Err = errClass(err)
					}
					record(id, op, call, ret)
				}
			}
		}
	}
	for i := 0; i < b.NTasks; i++ {
		s.Go(fmt.Sprintf("session%d", i), task(i)).Actor = i + 1
	}
	if msg := s.Run(); msg != "" {
		res.Panic = "scheduler: " + msg + "\n" + strings.Join(s.Trace, "\n")
		return res
	}
	sos.Yield = nil
	// final read through a fresh instance (durability of the last state)
	if w0 != nil {
		w0.ddb.Close()
	}
	{
		call := tick()
		wf, err := openRefsWorld(ctx, dir, b.Store, nil, false)
		if err != nil {
			res.Violate("final-open-failed", "store="+b.Store, 0, "%s", dstore.FirstLine(err))
		} else {
			snap, err := wf.snapshot()
			if err == nil {
				hist = append(hist, porcupine.Operation{ClientId: 90, Input: refOp{Kind: "read", Snap: snap}, Output: 0, Call: call, Return: tick()})
			}
			wf.ddb.Close()
		}
	}
	if len(hist) <= 70 {
		r := porcupine.CheckOperationsTimeout(refsModel(init, isDirty, false), hist, 0)
		if r == porcupine.Illegal && b.Mode == "procs" {
			if r = porcupine.CheckOperationsTimeout(refsModel(init, isDirty, true), hist, 0); r == porcupine.Ok {
				res.Probe("refusal_rested_on_a_stale_root")
			}
		}
		switch r {
		case porcupine.Illegal:
			var lines []string
			for _, o := range hist {
				lines = append(lines, fmt.Sprintf("[%d,%d] s%d %s", o.Call, o.Return, o.ClientId, describeRefOp(o.Input.(refOp))))
			}
			res.Violate("ref-history-not-linearizable", "mode="+b.Mode+";store="+b.Store, len(hist), "the dataset-map history has no linearization in which every successful conditional update saw the state it checked:\n%s", strings.Join(lines, "\n"))
		case porcupine.Unknown:
			res.Inconcl++
		default:
			res.Probe("porcupine_ok")
		}
	} else {
		res.Inconcl++
	}
	if h.Prop == "C21" && !res.Violated() {
		simos.Uninstall()
		c21CrashPart(ctx, sc, &b, nil, res)
	}
	res.Ops = len(hist)
	res.LogHash = s.Hash()
	res.FaultN("context-switch", s.Switches)
	if res.Evaluations == 0 {
		res.Evaluations = 1
	}
	okCount := 0
	for k, v := range res.Probes {
		if strings.HasPrefix(k, "ok:") {
			okCount += v
		}
	}
	if s.Switches > 0 && okCount > 0 {
		res.CaseHashes = append(res.CaseHashes, core.Hash64(s.Hash()))
	} else {
		res.Trivial = 1
	}
	if res.Violated() {
		b2 := b
		b2.Sched = s.Decisions()
		pinned, _ := json.Marshal(b2)
		for _, v := range res.Violations {
			if len(v.Pinned) == 0 {
				v.Pinned = pinned
			}
		}
	}
	res.Sample = map[string]any{"mode": b.Mode, "store": b.Store, "tasks": b.NTasks, "iters": b.Iters, "mix": b.Mix, "history_ops": len(hist), "switches": s.Switches}
	return res
}

func errClass(err error) string {
	switch {
	case errors.Is(err, datas.ErrMergeNeeded):
		return "merge-needed"
	case errors.Is(err, datas.ErrOptimisticLockFailed):
		return "optimistic-lock-failed"
	case errors.Is(err, datas.ErrAlreadyCommitted):
		return "already-committed"
	case errors.Is(err, datas.ErrDirtyWorkspace):
		return "dirty-workspace"
	}
	s := dstore.FirstLine(err)
	if len(s) > 40 {
		s = s[:40]
	}
	return s
}

func (h C20) Shrinks(sc *core.Scenario) []*core.Scenario {
	var b C20Body
	if json.Unmarshal(sc.Body, &b) != nil || len(b.Sched) == 0 {
		return nil
	}
	var out []*core.Scenario
	for w := len(b.Sched) / 2; w >= 1; w /= 2 {
		for i := 0; i+w <= len(b.Sched); i += w {
			changed := false
			ns := append([]int(nil), b.Sched...)
			for k := i; k < i+w; k++ {
				if ns[k] != 0 {
					ns[k] = 0
					changed = true
				}
			}
			if changed {
				nb := b
				nb.Sched = ns
				raw, _ := json.Marshal(nb)
				c := *sc
				c.Body = raw
				out = append(out, &c)
			}
		}
		if len(out) > 60 {
			break
		}
	}
	return out
}
