package refs

import (
	"testing"

	"dsim/core"
)

var registry = map[string]core.Harness{
	"C20": C20{Prop: "C20"},
	"C21": C20{Prop: "C21"},
}

func TestSim(t *testing.T) { core.WorkerMain(t, registry) }
