package refs

import (
	"context"
	"encoding/json"
	"fmt"
	"os"
	"path/filepath"
	"sort"
	"strings"

	"dsim/core"
	"dsim/simos"
	dstore "dsim/store"

	"github.com/dolthub/dolt/go/store/datas"
	"github.com/dolthub/dolt/go/store/hash"
	"github.com/dolthub/dolt/go/store/nbs"
)

// C21, crash part: a single session performs a short sequence of CommitWithWorkingSet (and plain
// working-set / head updates) on a journaling store while the simulated OS records; every crash
// image around the root records of those updates is reopened and the dataset map must be exactly
// the map after the last acknowledged operation or after the one in flight - in particular the
// (head, working set) pair of the branch is (old, old) or (new, new).

type c21Crash struct {
	Pos     int           `json:"pos"`
	Variant simos.Variant `json:"variant"`
}

func c21CrashPart(ctx context.Context, sc *core.Scenario, b *C20Body, only *c21Crash, res *core.Result) {
	root := dstore.NewScratch("c21")
	sos, err := simos.New(root)
	if err != nil {
		res.Panic = err.Error()
		return
	}
	defer simos.RemoveTree(root)
	sos.Install()
	defer simos.Uninstall()
	dir := filepath.Join(root, "db")
	os.Mkdir(dir, 0o755)
	w, err := openRefsWorld(ctx, dir, "journal", nil, true)
	if err != nil {
		res.Panic = "c21 init: " + err.Error()
		return
	}
	r := core.NewRand(b.Seed ^ 0xc21)
	states := []string{}
	snap := func() string {
		m, err := w.snapshot()
		if err != nil {
			return "ERR"
		}
		return encState(m)
	}
	sos.Mark("STATE", snap())
	br, ws := "refs/heads/main", "workingSets/heads/main"
	uniq := 0
	n := r.Range(2, 5)
	for i := 0; i < n; i++ {
		ds, _ := w.db.GetDataset(ctx, br)
		wds, _ := w.db.GetDataset(ctx, ws)
		prev := hash.Hash{}
		if a, ok := wds.MaybeHeadAddr(); ok {
			prev = a
		}
		uniq++
		spec := datas.WorkingSetSpec{Meta: &datas.WorkingSetMeta{Name: "d", Email: "e", Description: fmt.Sprintf("crash ws %d", uniq), Timestamp: uint64(uniq)}, WorkingRoot: w.rootRef, StagedRoot: w.rootRef}
		meta, _ := datas.NewCommitMeta("d", "e", fmt.Sprintf("crash commit %d", uniq))
		sos.Mark("BEGIN", "")
		var err error
		switch r.Intn(4) {
		case 0:
			_, err = w.db.UpdateWorkingSet(ctx, wds, spec, prev)
		case 1:
			_, err = w.db.Commit(ctx, ds, w.rootVal, datas.CommitOptions{Meta: meta})
		default:
			_, _, err = w.db.CommitWithWorkingSet(ctx, ds, wds, w.rootVal, spec, prev, datas.CommitOptions{Meta: meta})
		}
		if err != nil {
			res.Probe("c21_op_error")
		}
		st := snap()
		states = append(states, st)
		sos.Mark("STATE", st)
	}
	w.ddb.Close()
	log := sos.Log()
	// allowed states at a position: the last STATE marker before it, plus the next one (in flight)
	allowedAt := func(pos int) map[string]bool {
		out := map[string]bool{}
		last := ""
		next := ""
		for i := range log {
			if log[i].Kind == simos.EvMarker && log[i].Label == "STATE" {
				if i < pos {
					last = log[i].Aux
				} else if next == "" {
					next = log[i].Aux
				}
			}
		}
		out[last] = true
		if next != "" {
			out[next] = true
		}
		return out
	}
	type cs struct {
		pos int
		v   simos.Variant
	}
	var cases []cs
	if only != nil {
		cases = []cs{{only.Pos, only.Variant}}
	} else {
		for i := range log {
			e := &log[i]
			if e.Kind == simos.EvMarker || e.Kind == simos.EvFault {
				continue
			}
			fc := dstore.FileClass(e.Path, e.Path2)
			if fc != "journal" && fc != "manifest" && fc != "temp-manifest" && e.Kind != simos.EvSyncDir {
				continue
			}
			m := simos.Replay(log, i+1)
			vs := []simos.Variant{
				{Name: "lose-all-unsynced", Dirs: "durable", Default: simos.FileVariant{Mode: "durable"}},
				{Name: "keep-all", Dirs: "all", Default: simos.FileVariant{Mode: "all"}},
			}
			if total, _, _ := m.PendingBytes("db/" + dstore.JournalName); total > 0 {
				pd := m.PendingData("db/" + dstore.JournalName)
				offs, lens, _, _ := nbs.DsimParseJournal(pd)
				for k := range offs {
					if k == len(offs)-1 || r.Chance(1, 3) {
						vs = append(vs, simos.Variant{Name: fmt.Sprintf("journal-prefix@%d", offs[k]), Dirs: "all", Default: simos.FileVariant{Mode: "all"},
							Files: map[string]simos.FileVariant{dstore.JournalName: {Mode: "prefix", K: offs[k]}}})
						vs = append(vs, simos.Variant{Name: fmt.Sprintf("journal-garbage@%d", offs[k]+int64(lens[k])/2), Dirs: "all", Default: simos.FileVariant{Mode: "all"},
							Files: map[string]simos.FileVariant{dstore.JournalName: {Mode: "garbage", K: offs[k] + int64(lens[k])/2}}})
					}
				}
			}
			for _, v := range vs {
				cases = append(cases, cs{i + 1, v})
			}
		}
	}
	imgRoot := dstore.NewScratch("c21img")
	os.Mkdir(imgRoot, 0o755)
	defer simos.RemoveTree(imgRoot)
	seen := map[string]bool{}
	for ci, c := range cases {
		m := simos.Replay(log, c.pos)
		img := m.Build(c.v, sc.Seed)
		key := imageKey(img)
		if seen[key] && only == nil {
			continue
		}
		seen[key] = true
		dirp := filepath.Join(imgRoot, fmt.Sprint(ci))
		if err := img.Materialize(dirp); err != nil {
			res.Panic = err.Error()
			return
		}
		res.Evaluations++
		res.Fault("crash:" + strings.SplitN(c.v.Name, "@", 2)[0])
		res.CaseHashes = append(res.CaseHashes, core.Hash64("c21img", key))
		pin := func(v *core.Violation) {
			if v != nil {
				type pinned struct {
					C20Body
					Crash *c21Crash `json:"crash"`
				}
				v.Pinned, _ = json.Marshal(pinned{*b, &c21Crash{c.pos, c.v}})
			}
		}
		allowed := allowedAt(c.pos)
		if _, err := os.Stat(filepath.Join(dirp, "db")); err != nil {
			simos.RemoveTree(dirp)
			continue
		}
		wr, err := openRefsWorld(ctx, filepath.Join(dirp, "db"), "journal", nil, false)
		if err != nil {
			// before the very first commit of the repository is durable there is nothing to resolve
			if !allowed[""] {
				pin(res.Violate("reopen-after-crash-failed", "part=crash", c.pos, "crash at %d, %s: %s", c.pos, c.v.Name, dstore.FirstLine(err)))
			} else {
				res.Probe("crash_before_first_commit")
			}
			simos.RemoveTree(dirp)
			continue
		}
		got, err := wr.snapshot()
		wr.ddb.Close()
		if allowed[""] {
			res.Probe("crash_during_repository_creation") // several updates: no pair to compare yet
		} else if err != nil {
			pin(res.Violate("reopen-after-crash-failed", "part=crash", c.pos, "snapshot: %s", dstore.FirstLine(err)))
		} else if g := encState(got); !allowed[g] {
			// which pair is torn?
			detail := "dataset map is neither the last acknowledged nor the in-flight one"
			for a := range allowed {
				am := decState(a)
				if am["refs/heads/main"] != got["refs/heads/main"] && am["workingSets/heads/main"] == got["workingSets/heads/main"] ||
					am["refs/heads/main"] == got["refs/heads/main"] && am["workingSets/heads/main"] != got["workingSets/heads/main"] {
					detail = "branch head and working set come from different updates"
				}
			}
			pin(res.Violate("head-and-working-set-torn-after-crash", "variant="+strings.SplitN(c.v.Name, "@", 2)[0], c.pos, "crash at op-log position %d, variant %s: %s (head=%s ws=%s)", c.pos, c.v.Name, detail, sh(got["refs/heads/main"]), sh(got["workingSets/heads/main"])))
		} else {
			res.Probe("crash_state_consistent")
		}
		simos.RemoveTree(dirp)
		if len(res.Violations) >= 5 {
			return
		}
	}
}

func imageKey(img *simos.Image) string {
	s := core.NewSig()
	ks := make([]string, 0, len(img.Files))
	for k := range img.Files {
		ks = append(ks, k)
	}
	sort.Strings(ks)
	for _, k := range ks {
		s.Add(k)
		s.AddBytes(img.Files[k])
	}
	return s.Sum()
}
