package store

import (
	"context"
	"errors"
	"fmt"

	"github.com/dolthub/dolt/go/store/chunks"
	"github.com/dolthub/dolt/go/store/hash"
	"github.com/dolthub/dolt/go/store/nbs"
)

func unfiltered(_ context.Context, hs hash.HashSet) (hash.HashSet, error) { return hs, nil }

// GCHooks lets a task-structured harness interleave writers with the phases of a collection.
type GCHooks struct {
	Keeper func(h hash.Hash) bool // the addChunk callback handed to BeginGC (nil: never keep)
	Phase  func(name string)      // called between phases
}

func (h *GCHooks) phase(n string) {
	if h != nil && h.Phase != nil {
		h.Phase(n)
	}
}

// gcSingle collects a single (non generational) store through the public collector interfaces, the
// way types.ValueStore.GC does for a non-generational ChunkStore, with the harness's address
// walker.
func gcSingle(ctx context.Context, st *nbs.NomsBlockStore, extraRoots []hash.Hash, cfg chunks.GCConfig, hooks *GCHooks) (err error) {
	keeper := func(hash.Hash) bool { return false }
	if hooks != nil && hooks.Keeper != nil {
		keeper = hooks.Keeper
	}
	if err = st.BeginGC(ctx, keeper, chunks.GCMode_Full); err != nil {
		return fmt.Errorf("BeginGC: %w", err)
	}
	defer st.EndGC(chunks.GCMode_Full)
	hooks.phase("after-begin")
	root, err := st.Root(ctx)
	if err != nil {
		return err
	}
	if root.IsEmpty() {
		return nil
	}
	toVisit := hash.NewHashSet(root)
	for _, r := range extraRoots {
		toVisit.Insert(r)
	}
	sweeper, err := st.MarkAndSweepChunks(ctx, GetAddrs, unfiltered, st, cfg, false)
	if err != nil {
		return fmt.Errorf("MarkAndSweepChunks: %w", err)
	}
	defer func() { err = errors.Join(err, sweeper.Close(ctx)) }()
	if err = sweeper.SaveHashes(ctx, toVisit); err != nil {
		return fmt.Errorf("SaveHashes: %w", err)
	}
	hooks.phase("after-mark")
	fin, err := sweeper.Finalize(ctx)
	if err != nil {
		return fmt.Errorf("Finalize: %w", err)
	}
	defer fin.Close()
	hooks.phase("after-finalize")
	if err = fin.SwapChunksInStore(ctx); err != nil {
		return fmt.Errorf("SwapChunksInStore: %w", err)
	}
	hooks.phase("after-swap")
	return nil
}

// gcGenerational runs the two-generation protocol of types.ValueStore.GC.
func gcGenerational(ctx context.Context, g *nbs.GenerationalNBS, oldGenRefs, newGenRefs []hash.Hash, cfg chunks.GCConfig, hooks *GCHooks) (err error) {
	keeper := func(hash.Hash) bool { return false }
	if hooks != nil && hooks.Keeper != nil {
		keeper = hooks.Keeper
	}
	oldGen, newGen := g.OldGen(), g.NewGen()
	var oldGenHasMany chunks.HasManyFunc
	if cfg.Mode == chunks.GCMode_Default {
		oldGenHasMany = g.OldGenGCFilter()
	} else {
		oldGenHasMany = unfiltered
	}
	if err = g.BeginGC(ctx, keeper, cfg.Mode); err != nil {
		return fmt.Errorf("BeginGC: %w", err)
	}
	defer g.EndGC(cfg.Mode)
	root, err := g.Root(ctx)
	if err != nil {
		return err
	}
	if root.IsEmpty() {
		return nil
	}
	one := func(src, dest chunks.ChunkStoreGarbageCollector, refs []hash.Hash, filter chunks.HasManyFunc, incremental bool) (chunks.GCFinalizer, error) {
		sweeper, err := src.MarkAndSweepChunks(ctx, GetAddrs, filter, dest, cfg, incremental)
		if err != nil {
			return nil, err
		}
		hs := hash.NewHashSet(refs...)
		if err := sweeper.SaveHashes(ctx, hs); err != nil {
			sweeper.Close(ctx)
			return nil, err
		}
		fin, err := sweeper.Finalize(ctx)
		cerr := sweeper.Close(ctx)
		if err != nil {
			return nil, err
		}
		return fin, cerr
	}
	oldFin, err := one(g, oldGen, oldGenRefs, oldGenHasMany, cfg.Mode != chunks.GCMode_Full)
	if err != nil {
		if errors.Is(err, chunks.ErrNothingToCollect) {
			return nil
		}
		return fmt.Errorf("old gen: %w", err)
	}
	defer oldFin.Close()
	hooks.phase("after-oldgen-mark")
	newFileHasMany, err := oldFin.AddChunksToStore(ctx)
	if err != nil {
		return fmt.Errorf("AddChunksToStore: %w", err)
	}
	if cfg.Mode == chunks.GCMode_Default {
		oldGenHasMany = g.OldGenGCFilter()
	} else {
		oldGenHasMany = newFileHasMany
	}
	newFin, err := one(g, newGen, append(append([]hash.Hash(nil), newGenRefs...), root), oldGenHasMany, false)
	if err != nil {
		return fmt.Errorf("new gen: %w", err)
	}
	defer newFin.Close()
	hooks.phase("after-newgen-mark")
	if err = newFin.SwapChunksInStore(ctx); err != nil {
		return fmt.Errorf("swap new gen: %w", err)
	}
	if cfg.Mode == chunks.GCMode_Full {
		if err = oldFin.SwapChunksInStore(ctx); err != nil {
			return fmt.Errorf("swap old gen: %w", err)
		}
	}
	return nil
}
