package store

import (
	"bytes"
	"context"
	"encoding/json"
	"errors"
	"fmt"
	"os"
	"path/filepath"
	"sort"
	"strings"
	"testing"
	"time"

	"dsim/core"
	"dsim/simos"

	"github.com/dolthub/dolt/go/store/chunks"
	"github.com/dolthub/dolt/go/store/constants"
	"github.com/dolthub/dolt/go/store/hash"
	"github.com/dolthub/dolt/go/store/nbs"
)

// ---------------------------------------------------------------------------------------------
// Journal history: scenario, generator, executor (shared by C03, C04, C41, C10 fixtures)
// ---------------------------------------------------------------------------------------------

type JCfg struct {
	BuffSize      uint32 `json:"buff_size"`      // journalWriterBuffSize
	SyncThreshold uint64 `json:"sync_threshold"` // journalMaybeSyncThreshold
	MaxNovel      int    `json:"max_novel"`      // index batch size
	MemTable      uint64 `json:"mem_table"`      // memtable bytes
	// MmapArchives: archives opened from disk read their index through the memory-mapped reader
	// (dbfactory's mmap_archive_indexes) instead of the in-memory one
	MmapArchives bool `json:"mmap_archives,omitempty"`
}

type JOp struct {
	Kind string `json:"kind"` // put | commit | reopen | rebase | stalecommit
	C    []int  `json:"c,omitempty"`
	Root int    `json:"root,omitempty"`
}

// CrashSpec pins one crash image (used in replay files and by the minimiser).
type CrashSpec struct {
	Pos     int           `json:"pos"`
	Variant simos.Variant `json:"variant"`
	// AtRest, when set, is an at-rest corruption of the final journal instead of a crash image.
	AtRest *AtRest `json:"at_rest,omitempty"`
}

type AtRest struct {
	Record int    `json:"record"` // index of the damaged record in the final journal
	Off    int    `json:"off"`    // byte within the record
	Mask   byte   `json:"mask"`
	Expect string `json:"expect"` // "dataloss" | "silent"
}

type JBody struct {
	Cfg    JCfg        `json:"cfg"`
	Chunks []ChunkSpec `json:"chunks"`
	Ops    []JOp       `json:"ops"`
	Only   *CrashSpec  `json:"only,omitempty"`
	// MaxImages caps the enumeration per history (0 = no cap); the cap is applied by sampling
	// positions evenly, never by stopping early.
	MaxImages int `json:"max_images,omitempty"`
}

func genJournalHistory(r *core.Rand, maxOps int) JBody {
	var b JBody
	b.Cfg.BuffSize = uint32([]int{4 << 10, 16 << 10, 64 << 10, 256 << 10}[r.Intn(4)])
	b.Cfg.SyncThreshold = uint64([]int{256, 1 << 10, 2 << 10, 8 << 10, 32 << 10, 64 << 20}[r.Intn(6)])
	b.Cfg.MaxNovel = []int{2, 3, 5, 8, 20, 50}[r.Intn(6)]
	b.Cfg.MemTable = uint64([]int{1 << 10, 4 << 10, 64 << 10, 1 << 20}[r.Intn(4)])
	maxChunk := int(b.Cfg.BuffSize) / 3
	if maxChunk > 6000 {
		maxChunk = 6000
	}
	if lim := int(b.Cfg.MemTable)/2 - 200; maxChunk > lim {
		maxChunk = lim // a chunk that cannot fit an empty memtable is rejected by Put
	}
	nops := r.Range(3, maxOps)
	// live = chunks a later chunk may reference: durable (put before a commit) + pending (put
	// since). A clean reopen drops whatever was only in the memtable, so pending is forgotten.
	var durable, pending []int
	lastRoot := -1
	newChunk := func(size int, kids []int) int {
		b.Chunks = append(b.Chunks, ChunkSpec{Size: size, Fill: r.Uint64(), Comp: r.Chance(1, 4), Kids: kids})
		return len(b.Chunks) - 1
	}
	pickKids := func(max int) []int {
		nl := len(durable) + len(pending)
		if nl == 0 {
			return nil
		}
		n := r.Intn(max + 1)
		var ks []int
		for i := 0; i < n; i++ {
			x := r.Intn(nl)
			if x < len(durable) {
				ks = append(ks, durable[x])
			} else {
				ks = append(ks, pending[x-len(durable)])
			}
		}
		return ks
	}
	// one history in three carries a chunk whose journal record is larger than the journal writer's
	// buffer (the store must either refuse it or be able to read it back after a reopen)
	oversizeAt := -1
	if b.Cfg.MemTable >= 1<<20 && b.Cfg.BuffSize <= 64<<10 && r.Chance(2, 3) {
		oversizeAt = r.Intn(nops)
	}
	for len(b.Ops) < nops {
		if len(b.Ops) >= oversizeAt && oversizeAt >= 0 {
			oversizeAt = -1
			c := newChunk(int(b.Cfg.BuffSize)+r.Range(64, int(b.Cfg.BuffSize)), pickKids(1))
			b.Chunks[c].Comp = false
			pending = append(pending, c)
			b.Ops = append(b.Ops, JOp{Kind: "put", C: []int{c}})
			continue
		}
		switch x := r.Intn(100); {
		case x < 40: // put a batch
			n := r.Range(1, 5)
			var cs []int
			for i := 0; i < n; i++ {
				sz := r.Intn(min(200, maxChunk))
				if r.Chance(1, 5) {
					sz = r.Intn(maxChunk)
				}
				if r.Chance(1, 30) {
					sz = 0
				}
				c := newChunk(sz, pickKids(2))
				cs = append(cs, c)
				pending = append(pending, c)
			}
			b.Ops = append(b.Ops, JOp{Kind: "put", C: cs})
		case x < 50: // big non-committing write: many sizeable chunks
			n := r.Range(4, 14)
			var cs []int
			for i := 0; i < n; i++ {
				cs = append(cs, newChunk(r.Range(maxChunk/2, maxChunk), nil))
			}
			pending = append(pending, cs...)
			b.Ops = append(b.Ops, JOp{Kind: "put", C: cs})
		case x < 85: // commit a fresh root referencing earlier chunks (and the previous root)
			kids := pickKids(5)
			if lastRoot >= 0 {
				kids = append(kids, lastRoot)
			}
			root := newChunk(r.Intn(40), kids)
			lastRoot = root
			durable = append(append(durable, pending...), root)
			pending = nil
			b.Ops = append(b.Ops, JOp{Kind: "put", C: []int{root}}, JOp{Kind: "commit", Root: root})
			if r.Chance(1, 4) {
				// immediately followed by a root-only commit back to an older stored chunk
				root2 := durable[r.Intn(len(durable))]
				lastRoot = root2
				b.Ops = append(b.Ops, JOp{Kind: "commit", Root: root2})
			}
		case x < 88:
			// root-only commit: move the root to a chunk that is already stored, with nothing
			// else to write (the journal receives a lone root record)
			if len(durable) > 0 && len(pending) == 0 {
				root := durable[r.Intn(len(durable))]
				lastRoot = root
				b.Ops = append(b.Ops, JOp{Kind: "commit", Root: root})
			}
		case x < 92:
			pending = nil
			b.Ops = append(b.Ops, JOp{Kind: "reopen"})
		case x < 96:
			b.Ops = append(b.Ops, JOp{Kind: "rebase"})
		default: // commit with a stale expected root: must fail and change nothing
			if lastRoot >= 0 {
				root := newChunk(r.Intn(40), pickKids(2))
				pending = append(pending, root)
				b.Ops = append(b.Ops, JOp{Kind: "put", C: []int{root}}, JOp{Kind: "stalecommit", Root: root})
			}
		}
	}
	return b
}

// jrun is a live journaling store plus bookkeeping.
type jrun struct {
	ctx      context.Context
	dir      string
	st       *nbs.NomsBlockStore
	warnings int
}

func applyJCfg(c JCfg) func() {
	ob := nbs.DsimSetJournalWriterBuffSize(c.BuffSize)
	os_ := nbs.DsimSetMaybeSyncThreshold(c.SyncThreshold)
	om := nbs.DsimJournalMaxNovel
	nbs.DsimJournalMaxNovel = c.MaxNovel
	omm := nbs.DsimMmapArchiveIndexes
	nbs.DsimMmapArchiveIndexes = c.MmapArchives
	return func() {
		nbs.DsimMmapArchiveIndexes = omm
		nbs.DsimSetJournalWriterBuffSize(ob)
		nbs.DsimSetMaybeSyncThreshold(os_)
		nbs.DsimJournalMaxNovel = om
	}
}

func openJournal(ctx context.Context, dir string, memTable uint64, warn *int) (*nbs.NomsBlockStore, error) {
	st, err := nbs.NewLocalJournalingStore(ctx, constants.FormatDefaultString, dir, nbs.NewUnlimitedMemQuotaProvider(), nbs.DsimMmapArchiveIndexes, func(error) {
		if warn != nil {
			*warn++
		}
	})
	if err != nil {
		return nil, err
	}
	// force the lazy load so that open errors surface here
	if _, err := st.Root(ctx); err != nil {
		st.Close()
		return nil, err
	}
	if memTable != 0 {
		nbs.DsimSetMemTableSize(st, memTable)
	}
	return st, nil
}

// Markers written to the op log by the history executor.
const (
	mkBegin = "BEGIN" // Aux = root about to be committed
	mkAck   = "ACK"   // Aux = root acknowledged (Commit returned true)
	mkNack  = "NACK"  // Commit returned false / error: Aux = root
	mkOp    = "OP"    // Aux = op index
)

// runJournalHistory executes the ops on a fresh journaling store below sos.Root/db and closes it.
// It returns the chunk universe. Any unexpected error is returned (machinery error unless the
// caller decides otherwise).
func runJournalHistory(ctx context.Context, sos *simos.OS, b *JBody, res *core.Result) (*Universe, error) {
	u := BuildUniverse(b.Chunks)
	dir := filepath.Join(sos.Root, "db")
	if err := os.Mkdir(dir, 0o755); err != nil {
		return nil, err
	}
	var warn int
	st, err := openJournal(ctx, dir, b.Cfg.MemTable, &warn)
	if err != nil {
		return nil, fmt.Errorf("initial open: %w", err)
	}
	defer func() {
		if st != nil {
			st.Close()
		}
	}()
	for i, op := range b.Ops {
		sos.Mark(mkOp, fmt.Sprint(i))
		switch op.Kind {
		case "put":
			for _, ci := range op.C {
				if ci < 0 || ci >= len(u.Chunks) {
					continue
				}
				c := u.Chunks[ci]
				if err := st.Put(ctx, chunks.NewChunkWithHash(c.Addr, c.Data), GetAddrsCurry); err != nil {
					res.Probe("put_error")
					res.Probe("put_error:" + firstLine(err))
				}
			}
		case "commit", "stalecommit":
			if op.Root < 0 || op.Root >= len(u.Chunks) {
				continue
			}
			cur, err := st.Root(ctx)
			if err != nil {
				return nil, fmt.Errorf("root: %w", err)
			}
			expected := cur
			if op.Kind == "stalecommit" {
				expected = hash.Of([]byte("stale"))
			}
			nr := u.Chunks[op.Root].Addr
			sos.Mark(mkBegin, nr.String())
			ok, err := st.Commit(ctx, nr, expected)
			if err == nil && ok {
				sos.Mark(mkAck, nr.String())
				res.Probe("commit_ack")
				if op.Kind == "stalecommit" {
					res.Violate("stale-commit-succeeded", "stalecommit", i, "Commit with a stale expected root returned true")
				}
			} else {
				sos.Mark(mkNack, nr.String())
				if err != nil {
					res.Probe("commit_error")
					res.Probe("commit_error:" + firstLine(err))
				} else {
					res.Probe("commit_cas_fail")
				}
			}
		case "rebase":
			if err := st.Rebase(ctx); err != nil {
				return nil, fmt.Errorf("rebase: %w", err)
			}
		case "reopen":
			if err := st.Close(); err != nil {
				// e.g. closing a store that bootstrapped a journal but never committed; the lock is
				// released regardless and nothing acknowledged is involved
				res.Probe("close_error")
				res.Probe("close_error:" + firstLine(err))
			}
			st = nil
			if onClose != nil {
				onClose(dir)
			}
			st, err = openJournal(ctx, dir, b.Cfg.MemTable, &warn)
			if err != nil {
				return nil, fmt.Errorf("reopen: %w", err)
			}
			res.Probe("clean_reopen")
		}
	}
	sos.Mark(mkOp, "close")
	err = st.Close()
	st = nil
	if err != nil {
		res.Probe("close_error")
		res.Probe("close_error:" + firstLine(err))
	}
	if onClose != nil {
		onClose(dir)
	}
	if warn > 0 {
		res.ProbeN("journal_warnings_during_history", warn)
	}
	return u, nil
}

// ---------------------------------------------------------------------------------------------
// C03
// ---------------------------------------------------------------------------------------------

type C03 struct{}

func (C03) Generate(seed uint64, tier string) *core.Scenario {
	r := core.NewRand(seed)
	maxOps := 40
	if tier == "thorough" {
		maxOps = 60
	}
	b := genJournalHistory(r, maxOps)
	if tier != "thorough" {
		b.MaxImages = 1500
	} else {
		b.MaxImages = 6000
	}
	raw, _ := json.Marshal(b)
	return &core.Scenario{Property: "C03", Harness: "C03", Seed: seed, Tier: tier, Body: raw}
}

// allowedRoots computes, for a crash at log position pos, the set of roots the recovered store may
// show: the last acknowledged one plus every commit in flight at pos.
func allowedRoots(log []simos.Event, pos int) (allowed map[string]string, lastAck string) {
	allowed = map[string]string{}
	lastAck = hash.Hash{}.String()
	var pending string
	for i := 0; i < pos && i < len(log); i++ {
		e := &log[i]
		if e.Kind != simos.EvMarker {
			continue
		}
		switch e.Label {
		case mkBegin:
			pending = e.Aux
		case mkAck:
			lastAck = e.Aux
			pending = ""
		case mkNack:
			pending = ""
		}
	}
	allowed[lastAck] = "last-acked"
	if pending != "" {
		allowed[pending] = "in-flight"
	}
	return
}

type imgCase struct {
	pos int
	v   simos.Variant
}

const journalName = nbs.DsimJournalFileName
const indexName = nbs.DsimJournalIndexFileName

// crashVariants enumerates the variants for the model at one position.
func crashVariants(m *simos.Model, r *core.Rand, tier string) []simos.Variant {
	vs := []simos.Variant{
		{Name: "lose-all-unsynced", Dirs: "durable", Default: simos.FileVariant{Mode: "durable"}},
		{Name: "keep-all", Dirs: "all", Default: simos.FileVariant{Mode: "all"}},
		{Name: "names-only", Dirs: "all", Default: simos.FileVariant{Mode: "durable"}},
	}
	jpath := "db/" + journalName
	total, _, _ := m.PendingBytes(jpath)
	if total == 0 {
		// still vary the index alone
		if t, _, _ := m.PendingBytes("db/" + indexName); t > 0 {
			vs = append(vs, simos.Variant{Name: "idx-only", Dirs: "all", Default: simos.FileVariant{Mode: "durable"},
				Files: map[string]simos.FileVariant{indexName: {Mode: "all"}}})
			vs = append(vs, simos.Variant{Name: "idx-torn", Dirs: "all", Default: simos.FileVariant{Mode: "all"},
				Files: map[string]simos.FileVariant{indexName: {Mode: "prefix", K: int64(r.Intn(int(t)))}}})
		}
		return vs
	}
	pd := m.PendingData(jpath)
	offs, lens, _, _ := nbs.DsimParseJournal(pd)
	type cut struct {
		k    int64
		kind string
	}
	var cuts []cut
	for i := range offs {
		if offs[i] > 0 {
			cuts = append(cuts, cut{offs[i], "boundary"})
		}
		l := int64(lens[i])
		cuts = append(cuts, cut{offs[i] + 1 + int64(r.Intn(int(l-1))), "mid"})
		if r.Chance(1, 3) {
			cuts = append(cuts, cut{offs[i] + l - 1, "mid-last-byte"})
		}
		if r.Chance(1, 3) {
			cuts = append(cuts, cut{offs[i] + int64(r.Intn(4)) + 1, "mid-length-field"})
		}
	}
	limit := 24
	if tier == "thorough" {
		limit = 80
	}
	if len(cuts) > limit {
		// sample evenly but always keep the last few (they surround the root record)
		keep := cuts[len(cuts)-6:]
		rest := cuts[:len(cuts)-6]
		var s []cut
		for i := 0; i < limit-6; i++ {
			s = append(s, rest[r.Intn(len(rest))])
		}
		cuts = append(s, keep...)
	}
	idxModes := []string{"durable", "all"}
	for i, c := range cuts {
		for _, mode := range []string{"prefix", "zero", "garbage"} {
			if c.kind == "boundary" && mode != "prefix" && !r.Chance(1, 3) {
				continue
			}
			v := simos.Variant{Name: fmt.Sprintf("journal-%s@%d(%s)", mode, c.k, c.kind), Dirs: "all", Default: simos.FileVariant{Mode: "all"},
				Files: map[string]simos.FileVariant{journalName: {Mode: mode, K: c.k}}}
			if im := idxModes[(i+len(mode))%2]; im == "durable" {
				v.Files[indexName] = simos.FileVariant{Mode: "durable"}
				v.Name += "+idx-lost"
			}
			vs = append(vs, v)
		}
	}
	for h := 0; h < 3; h++ {
		vs = append(vs, simos.Variant{Name: fmt.Sprintf("journal-hole#%d", h), Dirs: "all", Default: simos.FileVariant{Mode: "all"},
			Files: map[string]simos.FileVariant{journalName: {Mode: "hole", K: int64(h)}}})
	}
	// the manifest-rename and directory state vary independently of the journal tail
	vs = append(vs, simos.Variant{Name: "dirs-durable+data-all", Dirs: "durable", Default: simos.FileVariant{Mode: "all"}})
	return vs
}

func imageHash(img *simos.Image) string {
	s := core.NewSig()
	for _, p := range sortedPaths(img.Files) {
		s.Add(p)
		s.AddBytes(img.Files[p])
	}
	for _, d := range img.Dirs {
		s.Add("dir", d)
	}
	return s.Sum()
}

func sortedPaths(m map[string][]byte) []string {
	ks := make([]string, 0, len(m))
	for k := range m {
		ks = append(ks, k)
	}
	sort.Strings(ks)
	return ks
}

// checkRecovered opens the materialised image and applies the C03 oracle. It returns a violation
// class ("" = ok) and detail.
func checkRecovered(ctx context.Context, u *Universe, imgDir string, allowed map[string]string, memTable uint64, res *core.Result, extend bool) (class, detail string) {
	dbDir := filepath.Join(imgDir, "db")
	if _, err := os.Stat(dbDir); err != nil {
		// the directory itself was not durable yet: nothing was acknowledged before that
		if _, ok := allowed[hash.Hash{}.String()]; ok {
			res.Probe("image_without_db_dir")
			return "", ""
		}
		return "db-dir-lost", "database directory missing although a commit had been acknowledged"
	}
	var warn int
	st, err := openJournal(ctx, dbDir, memTable, &warn)
	if err != nil {
		if errors.Is(err, nbs.ErrJournalDataLoss) {
			return "crash-reported-as-data-loss", "reopen after crash failed with possible-data-loss: " + firstLine(err)
		}
		return "reopen-failed", "reopen after crash failed: " + firstLine(err)
	}
	defer func() {
		if st != nil {
			st.Close()
		}
	}()
	if warn > 0 {
		res.Probe("recovery_warning")
	}
	root, err := st.Root(ctx)
	if err != nil {
		return "root-failed", firstLine(err)
	}
	why, ok := allowed[root.String()]
	if !ok {
		return "wrong-root", fmt.Sprintf("recovered root %s not in allowed set %v", short(root), keysShort(allowed))
	}
	res.Probe("recovered_" + why)
	if c, d := checkClosure(ctx, st, u, root); c != "" {
		return c, d
	}
	if !extend {
		return "", ""
	}
	// the recovered store must accept and persist further commits
	filler := EncodeChunk([]hash.Hash{root}, 24, uint64(len(allowed))+77, false)
	if root.IsEmpty() {
		filler = EncodeChunk(nil, 24, 78, false)
	}
	nc := chunks.NewChunk(filler)
	if err := st.Put(ctx, nc, GetAddrsCurry); err != nil {
		return "post-recovery-put-failed", firstLine(err)
	}
	ok2, err := st.Commit(ctx, nc.Hash(), root)
	if err != nil || !ok2 {
		return "post-recovery-commit-failed", fmt.Sprintf("ok=%v err=%v", ok2, err)
	}
	if err := st.Close(); err != nil {
		st = nil
		return "post-recovery-close-failed", firstLine(err)
	}
	st = nil
	st, err = openJournal(ctx, dbDir, memTable, &warn)
	if err != nil {
		return "post-recovery-reopen-failed", firstLine(err)
	}
	r2, err := st.Root(ctx)
	if err != nil || r2 != nc.Hash() {
		return "post-recovery-root-lost", fmt.Sprintf("after commit+reopen root=%s want %s err=%v", short(r2), short(nc.Hash()), err)
	}
	got, err := st.Get(ctx, nc.Hash())
	if err != nil || !bytes.Equal(got.Data(), filler) {
		return "post-recovery-chunk-lost", fmt.Sprintf("err=%v", err)
	}
	if !root.IsEmpty() {
		if c, d := checkClosure(ctx, st, u, root); c != "" {
			return "post-recovery-" + c, d
		}
	}
	return "", ""
}

func checkClosure(ctx context.Context, st chunks.ChunkStore, u *Universe, root hash.Hash) (string, string) {
	if root.IsEmpty() {
		return "", ""
	}
	idx, missing := u.Closure(root)
	if len(missing) > 0 {
		return "model-error", "model closure has unknown address " + short(missing[0])
	}
	for _, i := range idx {
		c := u.Chunks[i]
		got, err := st.Get(ctx, c.Addr)
		if err != nil {
			return "reachable-chunk-unreadable", fmt.Sprintf("chunk #%d %s: %s", i, short(c.Addr), firstLine(err))
		}
		if got.IsEmpty() && len(c.Data) != 0 {
			return "reachable-chunk-missing", fmt.Sprintf("chunk #%d %s reachable from root %s is absent", i, short(c.Addr), short(root))
		}
		if !bytes.Equal(got.Data(), c.Data) {
			return "reachable-chunk-wrong-bytes", fmt.Sprintf("chunk #%d %s", i, short(c.Addr))
		}
	}
	return "", ""
}

func firstLine(err error) string {
	s := err.Error()
	if i := strings.IndexByte(s, '\n'); i >= 0 {
		s = s[:i]
	}
	if len(s) > 300 {
		s = s[:300]
	}
	return s
}

func keysShort(m map[string]string) []string {
	var out []string
	for _, k := range core.SortedKeys(m) {
		out = append(out, k[:8]+"("+m[k]+")")
	}
	return out
}

var scratchBase = func() string {
	if s := os.Getenv("VERIF_SCRATCH"); s != "" {
		return s
	}
	if fi, err := os.Stat("/dev/shm"); err == nil && fi.IsDir() {
		return "/dev/shm"
	}
	return "/var/tmp"
}()

var scratchSeq int

func newScratch(tag string) string {
	scratchSeq++
	return filepath.Join(scratchBase, fmt.Sprintf("dsim.%d.%s.%d", os.Getpid(), tag, scratchSeq))
}

func (C03) Execute(t *testing.T, sc *core.Scenario) *core.Result {
	res := &core.Result{}
	var b JBody
	if err := json.Unmarshal(sc.Body, &b); err != nil {
		res.Panic = "bad scenario body: " + err.Error()
		return res
	}
	ctx := context.Background()
	start := time.Now()
	restore := applyJCfg(b.Cfg)
	defer restore()

	root := newScratch("c03")
	sos, err := simos.New(root)
	if err != nil {
		res.Panic = err.Error()
		return res
	}
	defer simos.RemoveTree(root)
	sos.Install()
	defer simos.Uninstall()

	u, err := runJournalHistory(ctx, sos, &b, res)
	if err != nil {
		// a fault-free history must run: anything else is a harness problem to look at
		res.Panic = "history failed: " + err.Error()
		return res
	}
	log := sos.Log()
	res.Ops = len(b.Ops)
	if os.Getenv("DSIM_DUMPLOG") != "" {
		for i := range log {
			e := &log[i]
			fmt.Fprintf(os.Stderr, "%4d %-8s a=%d %s %s ino=%d off=%d size=%d len=%d %s %s\n", i, e.Kind, e.Actor, e.Path, e.Path2, e.Ino, e.Off, e.Size, len(e.Data), e.Label, e.Aux)
		}
	}
	lh := core.NewSig()
	for i := range log {
		e := &log[i]
		lh.Add(e.Kind.String(), e.Path, e.Path2, fmt.Sprint(e.Ino, e.Off, e.Size, len(e.Data)), e.Label, e.Aux)
	}

	imgRoot := newScratch("c03img")
	if err := os.Mkdir(imgRoot, 0o755); err != nil {
		res.Panic = err.Error()
		return res
	}
	defer simos.RemoveTree(imgRoot)
	vr := core.NewRand(sc.Seed ^ 0x5eed)
	seenImg := map[string]bool{}
	nimg := 0

	evalOne := func(pos int, v simos.Variant, m *simos.Model) bool {
		v0 := v
		allowed, _ := allowedRoots(log, pos)
		img := m.Build(v, sc.Seed)
		ih := imageHash(img)
		key := ih + "|" + strings.Join(core.SortedKeys(allowed), ",")
		if seenImg[key] && b.Only == nil {
			res.Probe("duplicate_image_skipped")
			return true
		}
		seenImg[key] = true
		nimg++
		dir := filepath.Join(imgRoot, fmt.Sprint(nimg))
		if err := img.Materialize(dir); err != nil {
			res.Panic = "materialize: " + err.Error()
			return false
		}
		class, detail := checkRecovered(ctx, u, dir, allowed, b.Cfg.MemTable, res, true)
		simos.RemoveTree(dir)
		res.Evaluations++
		vclass := v.Name
		if i := strings.IndexAny(vclass, "@#"); i >= 0 {
			vclass = vclass[:i]
		}
		res.Fault("crash:" + vclass)
		if len(allowed) > 1 || v.Name != "lose-all-unsynced" {
			res.CaseHashes = append(res.CaseHashes, core.Hash64(ih, key))
		} else {
			res.Trivial++
		}
		if class != "" {
			key := c03Key(log, pos, img)
			if v := res.Violate(class, key, pos, "crash at op-log position %d (%s), variant %s: %s", pos, describePos(log, pos), v.Name, detail); v != nil {
				b2 := b
				b2.Only = &CrashSpec{Pos: pos, Variant: v0}
				v.Pinned, _ = json.Marshal(b2)
			}
			return len(res.Violations) < 6
		}
		return true
	}

	if b.Only != nil && b.Only.AtRest == nil {
		m := simos.Replay(log, b.Only.Pos)
		evalOne(b.Only.Pos, b.Only.Variant, m)
	} else if b.Only == nil {
		// positions: after every mutating event
		var positions []int
		for i := range log {
			if k := log[i].Kind; k != simos.EvMarker && k != simos.EvFault {
				positions = append(positions, i+1)
			}
		}
		m := simos.Replay(log, 0)
		at := 0
		stop := false
		// estimate and subsample positions if the cap would be exceeded
		stride := 1
		if b.MaxImages > 0 && len(positions)*8 > b.MaxImages {
			stride = (len(positions)*8 + b.MaxImages - 1) / b.MaxImages
		}
		for pi, pos := range positions {
			for at < pos {
				m.Apply(&log[at])
				at++
			}
			if stride > 1 && pi%stride != int(sc.Seed%uint64(stride)) && !nearMarker(log, pos) {
				continue
			}
			for _, v := range crashVariants(m, vr, sc.Tier) {
				if !evalOne(pos, v, m) {
					stop = true
					break
				}
			}
			if stop {
				break
			}
		}
	}
	// at-rest damage sub-check (second sentence of the property)
	if res.Panic == "" && (b.Only == nil || b.Only.AtRest != nil) {
		c03AtRest(ctx, sc, &b, u, log, imgRoot, res)
	}
	res.LogHash = lh.Sum()
	res.SimTimeMS = time.Since(start).Milliseconds()
	if res.Sample == nil {
		res.Sample = map[string]any{"cfg": b.Cfg, "ops": len(b.Ops), "chunks": len(b.Chunks), "oplog_events": len(log), "images": res.Evaluations, "first_ops": firstOps(b.Ops, 8)}
	}
	return res
}

// c03Key names the specific history shape of a crash violation for the known-findings file.
func c03Key(log []simos.Event, pos int, img *simos.Image) string {
	acks := 0
	for i := 0; i < pos && i < len(log); i++ {
		if log[i].Kind == simos.EvMarker && log[i].Label == mkAck {
			acks++
		}
	}
	roots := 0
	if j, ok := img.Files["db/"+journalName]; ok {
		_, _, kinds, _ := nbs.DsimParseJournal(j)
		for _, k := range kinds {
			if k == 1 {
				roots++
			}
		}
	}
	cls := func(n int) string {
		if n == 0 {
			return "0"
		}
		return "1+"
	}
	after := "start"
	if pos > 0 && pos <= len(log) {
		e := log[pos-1]
		after = e.Kind.String() + ":" + fileClass(e.Path, e.Path2)
	}
	return fmt.Sprintf("acks_before=%s;journal_root_records=%s;crash_after=%s", cls(acks), cls(roots), after)
}

func fileClass(p, p2 string) string {
	if p2 != "" {
		p = p2
	}
	b := filepath.Base(p)
	switch {
	case b == journalName:
		return "journal"
	case b == indexName:
		return "journal.idx"
	case b == nbs.DsimManifestFileName:
		return "manifest"
	case strings.HasPrefix(b, "nbs_manifest_"):
		return "temp-manifest"
	case b == "" || b == ".":
		return "-"
	case len(b) == 32:
		return "table-file"
	}
	return "other"
}

func firstOps(ops []JOp, n int) []JOp {
	if len(ops) > n {
		return ops[:n]
	}
	return ops
}

func nearMarker(log []simos.Event, pos int) bool {
	for i := pos - 3; i <= pos+2; i++ {
		if i >= 0 && i < len(log) && log[i].Kind == simos.EvMarker && log[i].Label != mkOp {
			return true
		}
	}
	return false
}

func describePos(log []simos.Event, pos int) string {
	if pos <= 0 || pos > len(log) {
		return "start"
	}
	e := log[pos-1]
	return fmt.Sprintf("after %s %s off=%d len=%d", e.Kind, filepath.Base(e.Path), e.Off, len(e.Data))
}

// c03AtRest damages single records of the final (cleanly closed) journal.
func c03AtRest(ctx context.Context, sc *core.Scenario, b *JBody, u *Universe, log []simos.Event, imgRoot string, res *core.Result) {
	m := simos.Replay(log, len(log))
	img := m.Build(simos.Variant{Name: "keep-all", Dirs: "all", Default: simos.FileVariant{Mode: "all"}}, 0)
	j, ok := img.Files["db/"+journalName]
	if !ok {
		return
	}
	offs, lens, kinds, addrs := nbs.DsimParseJournal(j)
	if len(offs) < 2 {
		return
	}
	r := core.NewRand(sc.Seed ^ 0xa7e57)
	type cand struct {
		rec    int
		expect string
	}
	var cands []cand
	// a record is "provably acknowledged-before" if after it there is a root record followed by one more record
	for i := range offs {
		rootAfter := -1
		for k := i + 1; k < len(offs); k++ {
			if kinds[k] == 1 {
				rootAfter = k
				break
			}
		}
		if rootAfter >= 0 && rootAfter+1 < len(offs) {
			cands = append(cands, cand{i, "dataloss"})
		}
	}
	cands = append(cands, cand{len(offs) - 1, "silent"})
	limit := 12
	if sc.Tier == "thorough" {
		limit = 40
	}
	if b.Only != nil && b.Only.AtRest != nil {
		cands = []cand{{b.Only.AtRest.Record, b.Only.AtRest.Expect}}
	} else if len(cands) > limit {
		last := cands[len(cands)-1]
		var s []cand
		for i := 0; i < limit-1; i++ {
			s = append(s, cands[r.Intn(len(cands)-1)])
		}
		cands = append(s, last)
	}
	for ci, c := range cands {
		off := int(offs[c.rec])
		l := int(lens[c.rec])
		bo := r.Intn(l)
		mask := byte(1 << r.Intn(8))
		if b.Only != nil && b.Only.AtRest != nil {
			bo, mask = b.Only.AtRest.Off, b.Only.AtRest.Mask
		}
		dmg := append([]byte(nil), j...)
		dmg[off+bo] ^= mask
		// skip damage that leaves the record valid (cannot happen with a CRC, but be exact)
		o2, _, _, _ := nbs.DsimParseJournal(dmg)
		if len(o2) == len(offs) {
			res.Probe("atrest_damage_undetectable_by_crc")
			continue
		}
		img2 := &simos.Image{Dirs: img.Dirs, Files: map[string][]byte{}}
		for p, d := range img.Files {
			img2.Files[p] = d
		}
		img2.Files["db/"+journalName] = dmg
		if ci%2 == 1 {
			delete(img2.Files, "db/"+indexName)
		}
		dir := filepath.Join(imgRoot, fmt.Sprintf("ar%d", ci))
		if err := img2.Materialize(dir); err != nil {
			res.Panic = err.Error()
			return
		}
		var warn int
		st, err := openJournal(ctx, filepath.Join(dir, "db"), b.Cfg.MemTable, &warn)
		res.Evaluations++
		res.Fault("atrest:" + c.expect)
		res.CaseHashes = append(res.CaseHashes, core.Hash64("atrest", imageHash(img2)))
		fail := func(class, detail string) {
			key := fmt.Sprintf("expect=%s;record_kind=%d;index_present=%v", c.expect, kinds[c.rec], ci%2 == 0)
			if v := res.Violate(class, key, c.rec, "at-rest flip of byte %d (mask %#x) of journal record %d/%d (kind %d, offset %d): %s", bo, mask, c.rec, len(offs), kinds[c.rec], off, detail); v != nil {
				b2 := *b
				b2.Only = &CrashSpec{AtRest: &AtRest{Record: c.rec, Off: bo, Mask: mask, Expect: c.expect}}
				v.Pinned, _ = json.Marshal(b2)
			}
		}
		switch c.expect {
		case "dataloss":
			if err == nil {
				// Opening succeeded although acknowledged data was damaged. That is a violation iff
				// the journal was silently truncated, i.e. the store rolled back to an earlier
				// root. (With a valid index covering the damaged record the open does not read
				// it and nothing is truncated: the root is still the final one; the damaged
				// chunk then fails its CRC on read, which is C10's subject, not this one.)
				rt, _ := st.Root(ctx)
				st.Close()
				final := hash.Hash{}
				for k := len(offs) - 1; k >= 0; k-- {
					if kinds[k] == 1 {
						final = addrs[k]
						break
					}
				}
				if rt != final {
					fail("damage-silently-truncated", fmt.Sprintf("open succeeded with root %s (final acknowledged root %s); expected possible-data-loss error", short(rt), short(final)))
				} else {
					res.Probe("atrest_damage_not_read_thanks_to_index")
				}
			} else if !errors.Is(err, nbs.ErrJournalDataLoss) {
				res.Probe("atrest_other_error")
			} else {
				res.Probe("atrest_dataloss_reported")
			}
		case "silent":
			if err != nil {
				if errors.Is(err, nbs.ErrJournalDataLoss) {
					fail("torn-tail-reported-as-data-loss", firstLine(err))
				} else {
					fail("torn-tail-open-failed", firstLine(err))
				}
			} else {
				rt, _ := st.Root(ctx)
				// must be the previous root record's root
				want := hash.Hash{}
				for k := c.rec - 1; k >= 0; k-- {
					if kinds[k] == 1 {
						want = addrs[k]
						break
					}
				}
				if kinds[c.rec] != 1 {
					// damaged final record is a chunk record: root unchanged = last root record
					for k := len(offs) - 1; k >= 0; k-- {
						if kinds[k] == 1 {
							want = addrs[k]
							break
						}
					}
				}
				// If no valid root record is left in the journal the store falls back to the
				// manifest, which a clean close trued-up to the final root: also legitimate.
				final := hash.Hash{}
				for k := len(offs) - 1; k >= 0; k-- {
					if kinds[k] == 1 {
						final = addrs[k]
						break
					}
				}
				if rt != want && rt != final {
					st.Close()
					fail("torn-tail-wrong-root", fmt.Sprintf("root %s want %s or %s", short(rt), short(want), short(final)))
				} else {
					cl, d := checkClosure(ctx, st, u, rt)
					st.Close()
					if cl != "" {
						fail("torn-tail-"+cl, d)
					} else {
						res.Probe("atrest_final_record_rolled_back_silently")
					}
				}
			}
		}
		simos.RemoveTree(dir)
		if len(res.Violations) >= 6 {
			return
		}
	}
}

func (C03) Shrinks(sc *core.Scenario) []*core.Scenario {
	var b JBody
	if json.Unmarshal(sc.Body, &b) != nil {
		return nil
	}
	var out []*core.Scenario
	emit := func(nb JBody) {
		raw, _ := json.Marshal(nb)
		c := *sc
		c.Body = raw
		out = append(out, &c)
	}
	// Dropping ops shifts log positions, so the pinned crash image is released and the
	// enumeration re-finds the violation class.
	for i := range b.Ops {
		nb := b
		nb.Only = nil
		nb.Ops = append(append([]JOp(nil), b.Ops[:i]...), b.Ops[i+1:]...)
		emit(nb)
	}
	// halve
	if len(b.Ops) > 3 {
		nb := b
		nb.Only = nil
		nb.Ops = append([]JOp(nil), b.Ops[:len(b.Ops)/2]...)
		emit(nb)
	}
	// shrink chunk sizes
	for i := range b.Chunks {
		if b.Chunks[i].Size > 8 {
			nb := b
			nb.Only = nil
			nb.Chunks = append([]ChunkSpec(nil), b.Chunks...)
			nb.Chunks[i].Size = b.Chunks[i].Size / 4
			emit(nb)
		}
	}
	return out
}
