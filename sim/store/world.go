package store

import (
	"context"
	"fmt"
	"os"
	"path/filepath"
	"sort"

	"dsim/core"

	"github.com/dolthub/dolt/go/store/chunks"
	"github.com/dolthub/dolt/go/store/constants"
	"github.com/dolthub/dolt/go/store/hash"
	"github.com/dolthub/dolt/go/store/nbs"
)

// A "world" is a small valid store directory built with the real writers; it is the fixture for
// the at-rest corruption checks (C10) and the read-path checks (C01, C06).

type WorldSpec struct {
	Kind     string      `json:"kind"` // journal | local | local-gc | local-archive | journal-gc | journal-archive
	Chunks   []ChunkSpec `json:"chunks"`
	Batches  [][]int     `json:"batches"` // each batch: put these chunks, then commit a root over them
	MemTable uint64      `json:"mem_table"`
	MaxTab   int         `json:"max_tables"`
	Cfg      JCfg        `json:"cfg"`
}

func genWorld(r *core.Rand, kinds []string, maxChunks, maxSize int) WorldSpec {
	w := WorldSpec{Kind: kinds[r.Intn(len(kinds))]}
	w.MemTable = uint64([]int{512, 2048, 1 << 16}[r.Intn(3)])
	w.MaxTab = []int{2, 3, 5, 256}[r.Intn(4)]
	w.Cfg = JCfg{BuffSize: 64 << 10, SyncThreshold: 64 << 20, MaxNovel: []int{2, 4, 16384}[r.Intn(3)], MemTable: w.MemTable, MmapArchives: r.Chance(1, 2)}
	n := r.Range(3, maxChunks)
	nb := r.Range(1, 4)
	per := (n + nb - 1) / nb
	lim := int(w.MemTable)/2 - 100
	if maxSize > lim {
		maxSize = lim
	}
	var all []int
	for len(w.Chunks) < n {
		var batch []int
		for i := 0; i < per && len(w.Chunks) < n; i++ {
			var kids []int
			if len(all) > 0 && r.Chance(1, 2) {
				kids = append(kids, all[r.Intn(len(all))])
			}
			sz := r.Intn(maxSize)
			if r.Chance(1, 12) {
				sz = 0
			}
			w.Chunks = append(w.Chunks, ChunkSpec{Size: sz, Fill: r.Uint64(), Comp: r.Chance(1, 3), Kids: kids})
			batch = append(batch, len(w.Chunks)-1)
			all = append(all, len(w.Chunks)-1)
		}
		w.Batches = append(w.Batches, batch)
	}
	return w
}

type World struct {
	Spec   WorldSpec
	U      *Universe
	Roots  []int // index (into U.Chunks) of each committed root chunk, appended to the universe
	Dir    string
	Stored map[int]bool // universe index -> expected present after the build (reachable from final root)
}

// openWorld opens the directory with the store type its kind needs.
func openWorld(ctx context.Context, kind, dir string, memTable uint64, maxTables int) (*nbs.NomsBlockStore, error) {
	switch kind {
	case "journal", "journal-gc", "journal-archive":
		st, err := nbs.NewLocalJournalingStore(ctx, constants.FormatDefaultString, dir, nbs.NewUnlimitedMemQuotaProvider(), nbs.DsimMmapArchiveIndexes, func(error) {})
		if err != nil {
			return nil, err
		}
		if _, err := st.Root(ctx); err != nil {
			st.Close()
			return nil, err
		}
		if memTable != 0 {
			nbs.DsimSetMemTableSize(st, memTable)
		}
		return st, nil
	default:
		if maxTables == 0 {
			maxTables = 256
		}
		return nbs.DsimNewLocalStore(ctx, constants.FormatDefaultString, dir, memTable, maxTables, nbs.NewUnlimitedMemQuotaProvider())
	}
}

// buildWorld creates dir and fills it. The returned universe has one extra root chunk per batch.
func buildWorld(ctx context.Context, spec WorldSpec, dir string) (*World, error) {
	if err := os.MkdirAll(dir, 0o755); err != nil {
		return nil, err
	}
	specs := append([]ChunkSpec(nil), spec.Chunks...)
	w := &World{Spec: spec, Dir: dir, Stored: map[int]bool{}}
	// root chunk of batch b references all chunks of the batch and the previous root
	prevRoot := -1
	for b, batch := range spec.Batches {
		kids := append([]int(nil), batch...)
		if prevRoot >= 0 {
			kids = append(kids, prevRoot)
		}
		specs = append(specs, ChunkSpec{Size: 4, Fill: uint64(b) + 991, Kids: kids})
		prevRoot = len(specs) - 1
		w.Roots = append(w.Roots, prevRoot)
	}
	w.U = BuildUniverse(specs)
	st, err := openWorld(ctx, spec.Kind, dir, spec.MemTable, spec.MaxTab)
	if err != nil {
		return nil, fmt.Errorf("open: %w", err)
	}
	closeSt := func() error {
		if st == nil {
			return nil
		}
		err := st.Close()
		st = nil
		return err
	}
	defer closeSt()
	for b, batch := range spec.Batches {
		for _, ci := range append(append([]int(nil), batch...), w.Roots[b]) {
			c := w.U.Chunks[ci]
			if err := st.Put(ctx, chunks.NewChunkWithHash(c.Addr, c.Data), GetAddrsCurry); err != nil {
				return nil, fmt.Errorf("put #%d: %w", ci, err)
			}
		}
		cur, err := st.Root(ctx)
		if err != nil {
			return nil, err
		}
		ok, err := st.Commit(ctx, w.U.Chunks[w.Roots[b]].Addr, cur)
		if err != nil || !ok {
			return nil, fmt.Errorf("commit batch %d: ok=%v err=%v", b, ok, err)
		}
		nbs.DsimWaitConjoin(st)
	}
	switch spec.Kind {
	case "local-gc", "journal-gc":
		if err := gcSingle(ctx, st, nil, chunks.GCConfig{Mode: chunks.GCMode_Full, ArchiveLevel: chunks.NoArchive}, nil); err != nil {
			return nil, fmt.Errorf("gc: %w", err)
		}
		if err := st.PruneTableFiles(ctx); err != nil {
			return nil, fmt.Errorf("prune: %w", err)
		}
	case "local-archive", "journal-archive":
		if err := gcSingle(ctx, st, nil, chunks.GCConfig{Mode: chunks.GCMode_Full, ArchiveLevel: chunks.SimpleArchive}, nil); err != nil {
			return nil, fmt.Errorf("gc(archive): %w", err)
		}
		if err := st.PruneTableFiles(ctx); err != nil {
			return nil, fmt.Errorf("prune: %w", err)
		}
	}
	if err := closeSt(); err != nil {
		return nil, fmt.Errorf("close: %w", err)
	}
	if len(w.Roots) > 0 {
		idx, _ := w.U.Closure(w.U.Chunks[w.Roots[len(w.Roots)-1]].Addr)
		for _, i := range idx {
			w.Stored[i] = true
		}
	}
	return w, nil
}

// readDirFiles loads every regular file below dir (relative path -> bytes).
func readDirFiles(dir string) (map[string][]byte, []string, error) {
	files := map[string][]byte{}
	var dirs []string
	err := filepath.Walk(dir, func(p string, info os.FileInfo, err error) error {
		if err != nil {
			return err
		}
		rel, _ := filepath.Rel(dir, p)
		if rel == "." {
			return nil
		}
		if info.IsDir() {
			dirs = append(dirs, rel)
			return nil
		}
		b, err := os.ReadFile(p)
		if err != nil {
			return err
		}
		files[rel] = b
		return nil
	})
	sort.Strings(dirs)
	return files, dirs, err
}

func flipAddr(h hash.Hash, pos int, mask byte) hash.Hash {
	h[pos%hash.ByteLen] ^= mask
	return h
}
