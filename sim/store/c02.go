package store

import (
	"context"
	"encoding/json"
	"fmt"
	"os"
	"path/filepath"
	"strings"
	"testing"

	"dsim/core"
	"dsim/simos"

	"github.com/dolthub/dolt/go/store/chunks"
	"github.com/dolthub/dolt/go/store/constants"
	"github.com/dolthub/dolt/go/store/hash"
	"github.com/dolthub/dolt/go/store/nbs"
)

// C02 — root commit is an atomic compare-and-swap and acknowledged commits persist.
//
// S1: committer tasks run under the seeded scheduler. Mode "shared": several tasks use ONE store
// object through a yielding ChunkStore wrapper (journaling or file-manifest store). Mode "procs":
// each task owns its own NomsBlockStore on one shared directory (file manifest + LOCK) and is
// interleaved at file-operation granularity, the way separate OS processes are.

type C02 struct{}

type C02Body struct {
	Mode     string `json:"mode"`  // shared | procs
	Store    string `json:"store"` // journal | local   (procs: local only)
	NTasks   int    `json:"ntasks"`
	Iters    int    `json:"iters"`
	MemTable uint64 `json:"mem_table"`
	MaxTab   int    `json:"max_tables"`
	Readers  int    `json:"readers"` // tasks that open a fresh instance and read
	// Conjoin (procs mode): one more process conjoins the directory's table files (ConjoinTableFiles):
	// a manifest update that changes the table set and must leave the root alone
	Conjoin bool `json:"conjoin,omitempty"`
	// YieldOps: which classes of file operations are scheduling points in procs mode
	YieldOps []string `json:"yield_ops"`
	Seed     uint64   `json:"sched_seed"`
	Sched    []int    `json:"sched,omitempty"`
	PCT      int      `json:"pct"` // 0 = random walk, d>0 = priority-based strategy of depth d // recorded decisions (replay / minimised)
}

func (C02) Generate(seed uint64, tier string) *core.Scenario {
	r := core.NewRand(seed)
	b := C02Body{Seed: r.Uint64()}
	b.PCT = []int{0, 0, 2, 3, 4, 5}[r.Intn(6)]
	if r.Chance(1, 2) {
		b.Mode = "shared"
		b.Store = []string{"journal", "local"}[r.Intn(2)]
	} else {
		b.Mode = "procs"
		b.Store = "local"
	}
	b.NTasks = r.Range(2, 4)
	b.Iters = r.Range(2, 5)
	b.Readers = r.Range(0, 2)
	b.Conjoin = b.Mode == "procs" && r.Chance(1, 2)
	b.MemTable = uint64([]int{1 << 10, 64 << 10}[r.Intn(2)])
	b.MaxTab = []int{2, 3, 256}[r.Intn(3)]
	all := []string{"rename", "remove", "create", "open", "stat", "fsync", "readdir", "write", "read"}
	for _, o := range all {
		if r.Chance(1, 2) {
			b.YieldOps = append(b.YieldOps, o)
		}
	}
	if len(b.YieldOps) == 0 {
		b.YieldOps = []string{"rename", "open"}
	}
	raw, _ := json.Marshal(b)
	return &core.Scenario{Property: "C02", Harness: "C02", Seed: seed, Tier: tier, Body: raw}
}

// yieldingStore parks the calling task before each ChunkStore operation that matters for the CAS.
type yieldingStore struct {
	chunks.ChunkStore
	s     *core.Sched
	noPut bool // do not park before Put (value-layer harnesses: a commit flushes many chunks)
	// quietAfterCommit: after a successful Commit the task stops yielding until the harness clears
	// Task.Quiet, so that the value layer's re-read of what it just installed is atomic with it
	quietAfterCommit bool
	noYield          bool // never park (procs mode: the file-operation seams do the interleaving)
}

func (y yieldingStore) Root(ctx context.Context) (hash.Hash, error) {
	if !y.noYield {
		y.s.YieldHere("cs.Root")
	}
	return y.ChunkStore.Root(ctx)
}
func (y yieldingStore) Rebase(ctx context.Context) error {
	if !y.noYield {
		y.s.YieldHere("cs.Rebase")
	}
	return y.ChunkStore.Rebase(ctx)
}
func (y yieldingStore) Commit(ctx context.Context, cur, last hash.Hash) (bool, error) {
	if !y.noYield {
		y.s.YieldHere("cs.Commit")
	}
	ok, err := y.ChunkStore.Commit(ctx, cur, last)
	if ok && err == nil && y.quietAfterCommit && cur != last {
		if t := y.s.Current(); t != nil {
			t.Quiet = true
		}
	}
	return ok, err
}
func (y yieldingStore) Put(ctx context.Context, c chunks.Chunk, ga chunks.InsertAddrsCurry) error {
	if !y.noPut && !y.noYield {
		y.s.YieldHere("cs.Put")
	}
	return y.ChunkStore.Put(ctx, c, ga)
}

type c02hist struct {
	seq int64
	ops []core.RegOp
}

func (h *c02hist) tick() int64 { h.seq++; return h.seq }

func (C02) Execute(t *testing.T, sc *core.Scenario) *core.Result {
	res := &core.Result{}
	var b C02Body
	if err := json.Unmarshal(sc.Body, &b); err != nil {
		res.Panic = "bad scenario body: " + err.Error()
		return res
	}
	ctx := context.Background()
	restore := applyJCfg(JCfg{BuffSize: 64 << 10, SyncThreshold: 64 << 20, MaxNovel: 16384})
	defer restore()
	root := newScratch("c02")
	sos, err := simos.New(root)
	if err != nil {
		res.Panic = err.Error()
		return res
	}
	defer simos.RemoveTree(root)
	sos.Install()
	defer simos.Uninstall()
	dir := filepath.Join(root, "db")
	os.Mkdir(dir, 0o755)
	q := nbs.NewUnlimitedMemQuotaProvider()
	openStore := func() (*nbs.NomsBlockStore, error) {
		if b.Store == "journal" {
			return openJournal(ctx, dir, b.MemTable, nil)
		}
		st, err := nbs.DsimNewLocalStore(ctx, constants.FormatDefaultString, dir, b.MemTable, b.MaxTab, q)
		if err == nil {
			st.DisableConjoin() // background conjoin is not raced; see DESIGN §3.2
		}
		return st, err
	}

	ch := core.NewChooser(b.Seed, b.Sched)
	s := core.NewSched(ch)
	s.PCTDepth = b.PCT
	s.KeepTrace = len(b.Sched) > 0
	hist := &c02hist{}
	data := map[string][]byte{} // every chunk any task wrote: address -> bytes
	kidsOf := map[string][]hash.Hash{}
	ackedBefore := map[string][]string{} // root -> addresses written before its commit returned (its closure by construction)
	var violations []string
	unknownOutcome := false
	fail := func(class, key, format string, a ...any) {
		res.Violate(class, key, int(hist.seq), format, a...)
		violations = append(violations, class)
	}

	// seed state: one initial commit so that every configuration starts from a non-empty root
	var shared *nbs.NomsBlockStore
	{
		st, err := openStore()
		if err != nil {
			res.Panic = "open: " + err.Error()
			return res
		}
		c := chunks.NewChunk(EncodeChunk(nil, 10, 1, false))
		st.Put(ctx, c, GetAddrsCurry)
		if ok, err := st.Commit(ctx, c.Hash(), hash.Hash{}); err != nil || !ok {
			res.Panic = fmt.Sprintf("seed commit: %v %v", ok, err)
			return res
		}
		data[c.Hash().String()] = c.Data()
		if b.Mode == "shared" {
			shared = st
		} else {
			st.Close()
		}
		hist.ops = append(hist.ops, core.RegOp{Client: 99, Kind: "cas", Exp: hash.Hash{}.String(), New: c.Hash().String(), Ok: true, Call: hist.tick(), Ret: hist.tick()})
	}
	initRoot := hash.Hash{}.String()

	if b.Mode == "procs" {
		elig := map[string]bool{}
		for _, o := range b.YieldOps {
			elig[o] = true
		}
		sos.Yield = func(c *simos.Call) {
			op := c.Op
			switch op {
			case "readat":
				op = "read"
			case "writeat":
				op = "write"
			case "lstat", "fstat":
				op = "stat"
			case "ftruncate", "truncate":
				op = "write"
			}
			if !elig[op] {
				return
			}
			base := filepath.Base(c.Path)
			// temp-file creation happens under the process-wide temp file provider's mutex
			if op == "create" && (strings.HasPrefix(base, "nbs_manifest_") || strings.HasPrefix(base, "nbs_table_") || strings.HasPrefix(c.Path, "tmp/")) {
				return
			}
			s.YieldHere(op + ":" + fileClass(c.Path, c.Path2))
		}
	}

	committer := func(id int) func(*core.Task) {
		return func(tk *core.Task) {
			var st *nbs.NomsBlockStore
			var cs chunks.ChunkStore
			if b.Mode == "shared" {
				st = shared
				cs = yieldingStore{ChunkStore: st, s: s}
			} else {
				sos.SetActor(id + 1)
				var err error
				st, err = openStore()
				if err != nil {
					fail("open-failed", "mode=procs", "task %d: %s", id, firstLine(err))
					return
				}
				defer func() { sos.SetActor(id + 1); st.Close() }()
				cs = st
			}
			r := core.NewRand(b.Seed ^ uint64(id+1)*7919)
			for it := 0; it < b.Iters; it++ {
				tk.Yield("iter")
				sos.SetActor(id + 1)
				// linearizable read = rebase + root
				call := hist.tick()
				if err := cs.Rebase(ctx); err != nil {
					res.Probe("rebase_error")
					continue
				}
				sos.SetActor(id + 1)
				cur, err := cs.Root(ctx)
				if err != nil {
					res.Probe("root_error")
					continue
				}
				hist.ops = append(hist.ops, core.RegOp{Client: id, Kind: "read", Val: cur.String(), Call: call, Ret: hist.tick()})
				// write 1-3 fresh chunks and a root over them and the previous root
				var kids []hash.Hash
				if !cur.IsEmpty() {
					kids = append(kids, cur)
				}
				var written []string
				n := r.Range(1, 3)
				for k := 0; k < n; k++ {
					c := chunks.NewChunk(EncodeChunk(nil, r.Intn(120), r.Uint64(), false))
					sos.SetActor(id + 1)
					if err := cs.Put(ctx, c, GetAddrsCurry); err != nil {
						res.Probe("put_error")
					}
					data[c.Hash().String()] = c.Data()
					kids = append(kids, c.Hash())
					written = append(written, c.Hash().String())
				}
				rc := chunks.NewChunk(EncodeChunk(kids, 6, r.Uint64(), false))
				sos.SetActor(id + 1)
				if err := cs.Put(ctx, rc, GetAddrsCurry); err != nil {
					res.Probe("put_error")
				}
				data[rc.Hash().String()] = rc.Data()
				kidsOf[rc.Hash().String()] = kids
				call = hist.tick()
				sos.SetActor(id + 1)
				ok, err := cs.Commit(ctx, rc.Hash(), cur)
				ret := hist.tick()
				op := core.RegOp{Client: id, Kind: "cas", Exp: cur.String(), New: rc.Hash().String(), Ok: ok && err == nil, Call: call, Ret: ret}
				if err != nil {
					if strings.Contains(err.Error(), "timed out") {
						// the LOCK could not be taken: nothing was written, a definite failure
						res.Fault("lock-timeout")
					} else {
						// an error may come from after the point of no return: outcome unknown;
						// the register check of this run is then inconclusive
						op.Unknown = true
						unknownOutcome = true
						res.Probe("commit_error:" + firstLine(err)[:min(60, len(firstLine(err)))])
					}
				} else if ok {
					res.Probe("commit_ok")
					ackedBefore[rc.Hash().String()] = append(written, rc.Hash().String())
				} else {
					res.Fault("cas-contention")
				}
				hist.ops = append(hist.ops, op)
			}
		}
	}
	reader := func(id int) func(*core.Task) {
		return func(tk *core.Task) {
			for it := 0; it < b.Iters; it++ {
				tk.Yield("reader-iter")
				sos.SetActor(50 + id)
				call := hist.tick()
				var st *nbs.NomsBlockStore
				var err error
				if b.Mode == "shared" && b.Store == "journal" {
					// a second opener of a journaled directory is read-only
					st, err = nbs.NewLocalJournalingStoreWithOptions(ctx, constants.FormatDefaultString, dir, q, nbs.DsimMmapArchiveIndexes, func(error) {}, nbs.JournalingStoreOptions{SkipLockFileTimeout: true})
				} else {
					st, err = nbs.DsimNewLocalStore(ctx, constants.FormatDefaultString, dir, b.MemTable, 256, q)
				}
				if err != nil {
					fail("reopen-failed", "store="+b.Store, "fresh instance: %s", firstLine(err))
					continue
				}
				rt, err := st.Root(ctx)
				ret := hist.tick()
				if err != nil {
					st.Close()
					fail("reopen-failed", "store="+b.Store, "fresh instance root: %s", firstLine(err))
					continue
				}
				hist.ops = append(hist.ops, core.RegOp{Client: 50 + id, Kind: "read", Val: rt.String(), Call: call, Ret: ret})
				res.Fault("reopen")
				// everything written before that root's commit must be readable: walk its closure
				seen := map[string]bool{}
				stack := []hash.Hash{rt}
				for len(stack) > 0 {
					h := stack[len(stack)-1]
					stack = stack[:len(stack)-1]
					if h.IsEmpty() || seen[h.String()] {
						continue
					}
					seen[h.String()] = true
					want, known := data[h.String()]
					if !known {
						fail("reopen-sees-unknown-root", "store="+b.Store, "fresh instance shows %s which nobody wrote", short(h))
						break
					}
					sos.SetActor(50 + id)
					got, err := st.Get(ctx, h)
					if err != nil || string(got.Data()) != string(want) {
						fail("acknowledged-chunk-unreadable", "store="+b.Store+";mode="+b.Mode, "root %s: chunk %s written before its commit is not readable in a fresh instance (err=%v, %d bytes)", short(rt), short(h), err, len(got.Data()))
						break
					}
					stack = append(stack, kidsOf[h.String()]...)
				}
				res.Evaluations++
				sos.SetActor(50 + id)
				st.Close()
			}
		}
	}
	s.OnRelease = func(t *core.Task) { sos.SetActor(t.Actor) }
	for i := 0; i < b.NTasks; i++ {
		s.Go(fmt.Sprintf("committer%d", i), committer(i)).Actor = i + 1
	}
	for i := 0; i < b.Readers; i++ {
		s.Go(fmt.Sprintf("reader%d", i), reader(i)).Actor = 50 + i
	}
	if b.Conjoin && b.Mode == "procs" {
		s.Go("conjoiner", func(tk *core.Task) {
			sos.SetActor(40)
			st, err := openStore()
			if err != nil {
				return
			}
			defer func() { sos.SetActor(40); st.Close() }()
			for it := 0; it < b.Iters; it++ {
				tk.Yield("conjoin-iter")
				sos.SetActor(40)
				if err := st.Rebase(ctx); err != nil {
					continue
				}
				srcs, err := st.Sources(ctx)
				if err != nil {
					continue
				}
				var ids []hash.Hash
				for _, tf := range srcs.TableFiles {
					if id, ok := hash.MaybeParse(tf.FileID()); ok {
						ids = append(ids, id)
					}
				}
				if len(ids) < 2 {
					continue
				}
				sos.SetActor(40)
				if _, err := st.ConjoinTableFiles(ctx, ids); err != nil {
					res.Probe("conjoin_error:" + firstLine(err)[:min(50, len(firstLine(err)))])
				} else {
					res.Fault("conjoin")
				}
			}
		}).Actor = 40
	}
	if msg := s.Run(); msg != "" {
		res.Panic = "scheduler: " + msg + "\n" + strings.Join(s.Trace, "\n")
		return res
	}
	sos.Yield = nil
	if shared != nil {
		shared.Close()
	}
	// final state: a fresh instance sees a root that the history explains (checked as a last read)
	{
		sos.SetActor(90)
		st, err := nbs.DsimNewLocalStore(ctx, constants.FormatDefaultString, dir, b.MemTable, 256, q)
		if b.Store == "journal" {
			st, err = openJournal(ctx, dir, b.MemTable, nil)
		}
		if err != nil {
			fail("final-open-failed", "store="+b.Store, "%s", firstLine(err))
		} else {
			call := hist.tick()
			rt, _ := st.Root(ctx)
			hist.ops = append(hist.ops, core.RegOp{Client: 90, Kind: "read", Val: rt.String(), Call: call, Ret: hist.tick()})
			st.Close()
		}
	}
	// linearizability of (rebase+root, commit, fresh-open root) against a CAS register
	if len(hist.ops) <= 80 && !unknownOutcome {
		switch core.CheckRegister(initRoot, hist.ops) {
		case "illegal":
			var lines []string
			for _, o := range hist.ops {
				if o.Kind == "read" {
					lines = append(lines, fmt.Sprintf("[%d,%d] c%d read -> %.8s", o.Call, o.Ret, o.Client, o.Val))
				} else {
					lines = append(lines, fmt.Sprintf("[%d,%d] c%d cas(%.8s -> %.8s) = %v unknown=%v", o.Call, o.Ret, o.Client, o.Exp, o.New, o.Ok, o.Unknown))
				}
			}
			res.Violate("history-not-linearizable", "mode="+b.Mode+";store="+b.Store, len(hist.ops), "the recorded root history is not a linearizable CAS register:\n%s", strings.Join(lines, "\n"))
		case "unknown":
			res.Inconcl++
		default:
			res.Probe("porcupine_ok")
		}
	} else {
		res.Inconcl++
	}
	res.Ops = len(hist.ops)
	res.LogHash = s.Hash()
	if res.Evaluations == 0 {
		res.Evaluations = 1
	}
	res.FaultN("context-switch", s.Switches)
	res.FaultN("clock-advance", s.TimeAdv)
	if s.Switches > 0 && res.Probes["commit_ok"] > 0 {
		res.CaseHashes = append(res.CaseHashes, core.Hash64(s.Hash()))
	} else {
		res.Trivial = 1
	}
	// pin the schedule for replay / minimisation
	if res.Violated() {
		b2 := b
		b2.Sched = s.Decisions()
		pinned, _ := json.Marshal(b2)
		for _, v := range res.Violations {
			v.Pinned = pinned
		}
	}
	res.Sample = map[string]any{"mode": b.Mode, "store": b.Store, "tasks": b.NTasks, "readers": b.Readers, "iters": b.Iters, "yield_ops": b.YieldOps, "decisions": len(ch.Taken), "switches": s.Switches, "history_ops": len(hist.ops)}
	return res
}

func (C02) Shrinks(sc *core.Scenario) []*core.Scenario {
	var b C02Body
	if json.Unmarshal(sc.Body, &b) != nil || len(b.Sched) == 0 {
		return nil
	}
	var out []*core.Scenario
	emit := func(nb C02Body) {
		raw, _ := json.Marshal(nb)
		c := *sc
		c.Body = raw
		out = append(out, &c)
	}
	// fewer tasks / iterations / readers
	if b.NTasks > 2 {
		nb := b
		nb.NTasks--
		emit(nb)
	}
	if b.Iters > 1 {
		nb := b
		nb.Iters--
		emit(nb)
	}
	if b.Readers > 0 {
		nb := b
		nb.Readers--
		emit(nb)
	}
	// canonicalise the schedule towards fewer context switches: zero a window of decisions
	for w := len(b.Sched) / 2; w >= 1; w /= 2 {
		for i := 0; i+w <= len(b.Sched); i += w {
			changed := false
			ns := append([]int(nil), b.Sched...)
			for k := i; k < i+w; k++ {
				if ns[k] != 0 {
					ns[k] = 0
					changed = true
				}
			}
			if changed {
				nb := b
				nb.Sched = ns
				emit(nb)
			}
		}
		if len(out) > 60 {
			break
		}
	}
	return out
}
