package store

import (
	"context"
	"encoding/json"
	"errors"
	"fmt"
	"os"
	"path/filepath"
	"testing"

	"dsim/core"
	"dsim/simos"

	"github.com/dolthub/dolt/go/store/chunks"
	"github.com/dolthub/dolt/go/store/constants"
	"github.com/dolthub/dolt/go/store/hash"
	"github.com/dolthub/dolt/go/store/nbs"
	"github.com/dolthub/fslock"
)

// C41 — only one process can write a database directory.

type C41 struct{}

type C41Op struct {
	Kind string `json:"kind"`           // open | write | read | close | kill | tear | stale-index
	P    int    `json:"p"`              // process
	Mode string `json:"mode,omitempty"` // open: default | failfast | skiptimeout | failfast-skip
	Seed uint64 `json:"seed,omitempty"`
}

type C41Body struct {
	NProc int     `json:"nproc"`
	Cfg   JCfg    `json:"cfg"`
	Ops   []C41Op `json:"ops"`
}

func (C41) Generate(seed uint64, tier string) *core.Scenario {
	r := core.NewRand(seed)
	b := C41Body{NProc: r.Range(2, 4)}
	b.Cfg = JCfg{BuffSize: 64 << 10, SyncThreshold: 64 << 20, MaxNovel: []int{2, 4, 16384}[r.Intn(3)], MemTable: uint64([]int{1 << 10, 64 << 10}[r.Intn(2)])}
	n := r.Range(8, 50)
	for len(b.Ops) < n {
		p := r.Intn(b.NProc)
		switch x := r.Intn(100); {
		case x < 28:
			b.Ops = append(b.Ops, C41Op{Kind: "open", P: p, Mode: []string{"default", "default", "failfast", "skiptimeout", "failfast-skip"}[r.Intn(5)]})
		case x < 58:
			b.Ops = append(b.Ops, C41Op{Kind: "write", P: p, Seed: r.Uint64()})
		case x < 75:
			b.Ops = append(b.Ops, C41Op{Kind: "read", P: p})
		case x < 86:
			b.Ops = append(b.Ops, C41Op{Kind: "close", P: p})
		case x < 93:
			b.Ops = append(b.Ops, C41Op{Kind: "kill", P: p})
		case x < 94:
			b.Ops = append(b.Ops, C41Op{Kind: "tear", Seed: r.Uint64()})
		case x < 95:
			b.Ops = append(b.Ops, C41Op{Kind: "stale-index"})
		case x < 97:
			// what a writer that died inside the very first commit leaves: chunk records, no root
			// record. Everybody has to be gone for that; then (often) the next writer has the lock
			// but has not loaded the store when a second process opens the directory.
			for q := 0; q < b.NProc; q++ {
				b.Ops = append(b.Ops, C41Op{Kind: "kill", P: q})
			}
			b.Ops = append(b.Ops, C41Op{Kind: "extunlock"}, C41Op{Kind: "rootless"})
			if r.Chance(2, 3) {
				b.Ops = append(b.Ops, C41Op{Kind: "extlock"}, C41Op{Kind: "open", P: p, Mode: []string{"default", "skiptimeout"}[r.Intn(2)]}, C41Op{Kind: "read", P: p}, C41Op{Kind: "close", P: p}, C41Op{Kind: "extunlock"})
			}
		case x < 99:
			// a writer process that holds the lock but has not loaded the store yet (the lock is
			// taken eagerly, the journal is bootstrapped lazily)
			b.Ops = append(b.Ops, C41Op{Kind: "extlock"})
		default:
			b.Ops = append(b.Ops, C41Op{Kind: "extunlock"})
		}
	}
	raw, _ := json.Marshal(b)
	return &core.Scenario{Property: "C41", Harness: "C41", Seed: seed, Tier: tier, Body: raw}
}

type c41proc struct {
	st       *nbs.NomsBlockStore
	mode     chunks.ExclusiveAccessMode
	openedAt int // op-log position at open (for attribution)
	// roots acknowledged (by any writer) at the time this instance was opened, plus anything later
	okRoots map[hash.Hash]bool
}

func (C41) Execute(t *testing.T, sc *core.Scenario) *core.Result {
	res := &core.Result{}
	var b C41Body
	if err := json.Unmarshal(sc.Body, &b); err != nil {
		res.Panic = "bad scenario body: " + err.Error()
		return res
	}
	ctx := context.Background()
	restore := applyJCfg(b.Cfg)
	defer restore()
	root := newScratch("c41")
	sos, err := simos.New(root)
	if err != nil {
		res.Panic = err.Error()
		return res
	}
	defer simos.RemoveTree(root)
	sos.Install()
	defer simos.Uninstall()
	dir := filepath.Join(root, "db")
	os.Mkdir(dir, 0o755)
	procs := make([]*c41proc, b.NProc)
	defer func() {
		for _, p := range procs {
			if p != nil && p.st != nil {
				p.st.Close()
			}
		}
	}()
	acked := map[hash.Hash]bool{{}: true} // every root ever acknowledged (or possibly written: in flight)
	var lastAcked hash.Hash
	var idxSnap []byte
	contended, roOpens := 0, 0
	rootless := false // the journal was cut back before its first root record: roots come from the manifest
	sig := core.NewSig()

	var extLock *fslock.Lock
	defer func() {
		if extLock != nil {
			extLock.Unlock()
			extLock.Close()
		}
	}()
	writers := func() []int {
		var w []int
		if extLock != nil {
			w = append(w, 98)
		}
		for i, p := range procs {
			if p != nil && p.mode == chunks.ExclusiveAccessMode_Exclusive {
				w = append(w, i)
			}
		}
		return w
	}
	// auditReadOnly: no mutating file operation may be attributed to a read-only instance
	audit := func(step int) {
		log := sos.Log()
		for pi, p := range procs {
			if p == nil || p.mode != chunks.ExclusiveAccessMode_ReadOnly {
				continue
			}
			for _, e := range log[p.openedAt:] {
				if e.Actor != pi+1 {
					continue
				}
				switch e.Kind {
				case simos.EvMarker, simos.EvFault, simos.EvSync, simos.EvSyncDir:
					continue
				}
				if filepath.Base(e.Path) == nbs.DsimLockFileName {
					continue
				}
				res.Violate("read-only-instance-modified-directory", "what="+e.Kind.String()+":"+fileClass(e.Path, e.Path2), step,
					"process %d holds a read-only instance but performed %s on %s%s", pi, e.Kind, e.Path, e.Path2)
			}
		}
	}

	for i, op := range b.Ops {
		if op.P >= b.NProc {
			continue
		}
		sos.SetActor(op.P + 1)
		p := procs[op.P]
		sig.Add(op.Kind, fmt.Sprint(op.P))
		switch op.Kind {
		case "open":
			if p != nil {
				continue
			}
			opts := nbs.JournalingStoreOptions{
				FailOnLockTimeout:   op.Mode == "failfast" || op.Mode == "failfast-skip",
				SkipLockFileTimeout: op.Mode == "skiptimeout" || op.Mode == "failfast-skip",
			}
			pos := sos.LogLen()
			others := writers()
			st, err := nbs.NewLocalJournalingStoreWithOptions(ctx, constants.FormatDefaultString, dir, nbs.NewUnlimitedMemQuotaProvider(), nbs.DsimMmapArchiveIndexes, func(error) {}, opts)
			if err == nil {
				_, err = st.Root(ctx) // force the lazy load
				if err != nil {
					st.Close()
				}
			}
			if err != nil {
				sig.Add("openerr")
				switch {
				case errors.Is(err, nbs.ErrDatabaseLocked):
					res.Fault("open-failfast-locked")
					contended++
					if len(others) == 0 {
						res.Violate("locked-without-writer", "mode="+op.Mode, i, "open failed with ErrDatabaseLocked although no process holds the directory for writing")
					}
					if !opts.FailOnLockTimeout {
						res.Violate("locked-error-without-failfast", "mode="+op.Mode, i, "open returned ErrDatabaseLocked although fail-fast was not requested")
					}
				default:
					res.Violate("open-failed", "mode="+op.Mode, i, "%s", firstLine(err))
				}
				continue
			}
			np := &c41proc{st: st, mode: st.AccessMode(), openedAt: pos, okRoots: map[hash.Hash]bool{}}
			procs[op.P] = np
			sig.Add(fmt.Sprint(np.mode))
			switch np.mode {
			case chunks.ExclusiveAccessMode_Exclusive:
				res.Probe("open_exclusive")
				if len(others) > 0 {
					res.Violate("two-writers", "mode="+op.Mode, i, "process %d obtained write access while process %d holds it", op.P, others[0])
				}
			case chunks.ExclusiveAccessMode_ReadOnly:
				res.Fault("open-read-only")
				roOpens++
				contended++
				if len(others) == 0 {
					res.Violate("read-only-without-writer", "mode="+op.Mode, i, "process %d got a read-only instance although nobody holds the directory for writing", op.P)
				}
				if opts.FailOnLockTimeout {
					res.Violate("failfast-fell-back-to-read-only", "mode="+op.Mode, i, "fail-fast open returned a read-only instance instead of ErrDatabaseLocked")
				}
				r, _ := st.Root(ctx)
				if !acked[r] && !rootless {
					res.Violate("read-only-sees-unacknowledged-root", "-", i, "read-only instance shows root %s which no writer has written", short(r))
				}
			default:
				res.Violate("unexpected-access-mode", "-", i, "mode %d", np.mode)
			}
		case "write":
			if p == nil {
				continue
			}
			r := core.NewRand(op.Seed)
			cur, err := p.st.Root(ctx)
			if err != nil {
				res.Probe("root_error")
				continue
			}
			var kids []hash.Hash
			if !cur.IsEmpty() {
				kids = []hash.Hash{cur}
			}
			leaf := chunks.NewChunk(EncodeChunk(nil, r.Intn(300), r.Uint64(), false))
			rootc := chunks.NewChunk(EncodeChunk(append(kids, leaf.Hash()), 8, r.Uint64(), false))
			e1 := p.st.Put(ctx, leaf, GetAddrsCurry)
			e2 := p.st.Put(ctx, rootc, GetAddrsCurry)
			acked[rootc.Hash()] = true // in flight from here on
			ok, e3 := p.st.Commit(ctx, rootc.Hash(), cur)
			if p.mode == chunks.ExclusiveAccessMode_ReadOnly {
				if e3 == nil && ok {
					res.Violate("write-through-read-only-instance", "-", i, "Commit succeeded on a read-only instance")
				} else {
					res.Probe("read_only_write_refused")
				}
				delete(acked, rootc.Hash())
				continue
			}
			if e1 != nil || e2 != nil || e3 != nil || !ok {
				res.Probe("writer_commit_failed")
				res.Probe("writer_commit_failed:" + fmt.Sprint(e1, e2, e3, ok)[:min(80, len(fmt.Sprint(e1, e2, e3, ok)))])
				continue
			}
			lastAcked = rootc.Hash()
			res.Probe("writer_commit_ok")
		case "read":
			if p == nil {
				continue
			}
			if err := p.st.Rebase(ctx); err != nil {
				res.Probe("rebase_error")
			}
			r, err := p.st.Root(ctx)
			if err != nil {
				res.Probe("root_error")
				continue
			}
			if !acked[r] && !rootless {
				res.Violate("instance-sees-unwritten-root", "-", i, "process %d reads root %s which nobody wrote", op.P, short(r))
			}
			if !r.IsEmpty() && !rootless {
				if c, err := p.st.Get(ctx, r); err != nil || c.IsEmpty() {
					res.Violate("root-chunk-unreadable", fmt.Sprintf("mode=%d", p.mode), i, "process %d cannot read its root chunk %s: %v", op.P, short(r), err)
				}
			}
			res.Evaluations++
		case "close":
			if p == nil {
				continue
			}
			if err := p.st.Close(); err != nil {
				res.Probe("close_error")
			}
			audit(i)
			procs[op.P] = nil
		case "kill":
			if p == nil {
				continue
			}
			// the process dies: its descriptors (and locks) are released, nothing is flushed
			audit(i)
			sos.Kill(op.P + 1)
			sos.Revive(op.P + 1)
			procs[op.P] = nil
			res.Fault("process-killed")
			// bytes the journal writer had buffered in memory are gone; a commit in flight is not
			// modelled (S0: the kill falls between operations), so the last acknowledged root holds
		case "tear":
			// a writer that died mid-write leaves a torn record at the end of the journal
			if len(writers()) > 0 {
				continue
			}
			jp := filepath.Join(dir, journalName)
			if fi, err := os.Stat(jp); err == nil && fi.Size() > 0 {
				r := core.NewRand(op.Seed)
				sos.SetActor(99)
				f, err := os.OpenFile(jp, os.O_WRONLY|os.O_APPEND, 0)
				if err == nil {
					g := r.Bytes(r.Range(1, 60))
					if r.Chance(1, 2) && len(g) >= 4 {
						g[0], g[1], g[2], g[3] = 0, 0, 0, byte(len(g)+r.Intn(40)) // plausible length, cut short
					}
					f.Write(g)
					f.Close()
					res.Fault("torn-journal-tail")
				}
			}
		case "rootless":
			if len(writers()) > 0 {
				continue
			}
			idle := true
			for _, q := range procs {
				if q != nil {
					idle = false
				}
			}
			jp := filepath.Join(dir, journalName)
			if jb, err := os.ReadFile(jp); idle && err == nil {
				offs, _, kinds, _ := nbs.DsimParseJournal(jb)
				for k := range offs {
					if kinds[k] == 1 {
						if offs[k] > 0 {
							sos.SetActor(99)
							os.Truncate(jp, offs[k])
							os.Remove(filepath.Join(dir, indexName))
							res.Fault("journal-without-root-record")
							// every acknowledged root is gone with it: the manifest's root is what counts now
							rootless = true
						}
						break
					}
				}
			}
		case "extlock":
			if extLock == nil && len(writers()) == 0 {
				sos.SetActor(98)
				if lk, err := fslock.New(filepath.Join(dir, nbs.DsimLockFileName)); err == nil {
					if lk.TryLock() == nil {
						extLock = lk
						res.Fault("lock-held-by-unloaded-writer")
					} else {
						lk.Close()
					}
				}
			}
		case "extunlock":
			if extLock != nil {
				sos.SetActor(98)
				extLock.Unlock()
				extLock.Close()
				extLock = nil
			}
		case "stale-index":
			if len(writers()) > 0 {
				continue
			}
			ip := filepath.Join(dir, indexName)
			cur, err := os.ReadFile(ip)
			if err != nil {
				continue
			}
			sos.SetActor(99)
			if idxSnap != nil {
				os.WriteFile(ip, idxSnap, 0o644)
				res.Fault("stale-index-installed")
			}
			idxSnap = cur
		}
		audit(i)
		if len(res.Violations) >= 5 {
			break
		}
		// global invariant
		if w := writers(); len(w) > 1 {
			res.Violate("two-writers", "invariant", i, "processes %v all hold write access", w)
		}
	}
	_ = lastAcked
	res.Ops = len(b.Ops)
	res.LogHash = sig.Sum()
	if contended > 0 {
		res.CaseHashes = append(res.CaseHashes, core.Hash64(sig.Sum()))
	} else {
		res.Trivial = 1
	}
	if res.Evaluations == 0 {
		res.Evaluations = 1
	}
	res.Sample = map[string]any{"processes": b.NProc, "ops": len(b.Ops), "contended_opens": contended, "read_only_opens": roOpens}
	return res
}

func (C41) Shrinks(sc *core.Scenario) []*core.Scenario {
	var b C41Body
	if json.Unmarshal(sc.Body, &b) != nil {
		return nil
	}
	var out []*core.Scenario
	for i := range b.Ops {
		nb := b
		nb.Ops = append(append([]C41Op(nil), b.Ops[:i]...), b.Ops[i+1:]...)
		raw, _ := json.Marshal(nb)
		c := *sc
		c.Body = raw
		out = append(out, &c)
	}
	return out
}
