package store

import (
	"context"
	"os"
	"path/filepath"

	"dsim/core"
	"dsim/simos"

	"github.com/dolthub/dolt/go/store/chunks"
	"github.com/dolthub/dolt/go/store/nbs"
	"github.com/dolthub/dolt/go/store/util/tempfiles"
)

func init() {
	// production points the movable-temp-file provider at a directory that can be renamed into the
	// database directory (.dolt/tmp, or the system's if that is on the same file system): the
	// harnesses do the same inside the simulated root
	simos.OnInstall = func(root string) func() {
		old := tempfiles.MovableTempFileProvider
		dir := filepath.Join(root, "tmp")
		os.MkdirAll(dir, 0o755)
		tempfiles.MovableTempFileProvider = tempfiles.NewTempFileProviderAt(dir)
		return func() { tempfiles.MovableTempFileProvider = old }
	}
}

// Exports for the other harness packages (refs, sql).

func NewScratch(tag string) string  { return newScratch(tag) }
func FirstLine(err error) string    { return firstLine(err) }
func FileClass(p, p2 string) string { return fileClass(p, p2) }

// NewYieldingStore wraps cs so that the calling task parks before Root / Rebase / Put / Commit.
func NewYieldingStore(cs chunks.ChunkStore, s *core.Sched) chunks.ChunkStore {
	return yieldingStore{ChunkStore: cs, s: s, noPut: true, quietAfterCommit: true}
}

// NewQuietingStore does not park by itself (separate-process mode, where file operations are the
// seams) but still marks the task quiet after a successful Commit.
func NewQuietingStore(cs chunks.ChunkStore, s *core.Sched) chunks.ChunkStore {
	return yieldingStore{ChunkStore: cs, s: s, noPut: true, quietAfterCommit: true, noYield: true}
}

func OpenJournal(ctx context.Context, dir string, memTable uint64) (*nbs.NomsBlockStore, error) {
	return openJournal(ctx, dir, memTable, nil)
}

func ApplyJCfg(c JCfg) func() { return applyJCfg(c) }

const JournalName = journalName
const IndexName = indexName

// ImageHash identifies a crash image by content.
func ImageHash(img *simos.Image) string { return imageHash(img) }
