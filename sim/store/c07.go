package store

import (
	"context"
	"encoding/json"
	"errors"
	"fmt"
	"io"
	"os"
	"path/filepath"
	"strings"
	"syscall"
	"testing"

	"dsim/core"
	"dsim/simos"

	"github.com/dolthub/dolt/go/store/chunks"
	"github.com/dolthub/dolt/go/store/constants"
	"github.com/dolthub/dolt/go/store/hash"
	"github.com/dolthub/dolt/go/store/nbs"
)

// C07 — committed state never contains dangling references.

type C07 struct{}

type C07Op struct {
	Kind  string `json:"kind"` // put | commit | reopen | addtable | rebase
	C     []int  `json:"c,omitempty"`
	Root  int    `json:"root,omitempty"`
	Stale bool   `json:"stale,omitempty"`
	// Fault: commit - the first write of a table file inside this commit fails with ENOSPC (the
	// memtable cannot be persisted: the commit fails for a reason that is not a dangling reference)
	Fault bool `json:"fault,omitempty"`
}

type C07Body struct {
	Config   string      `json:"config"` // local | journal
	MemTable uint64      `json:"mem_table"`
	MaxTab   int         `json:"max_tables"`
	Cfg      JCfg        `json:"cfg"`
	Chunks   []ChunkSpec `json:"chunks"`
	Ops      []C07Op     `json:"ops"`
}

func (C07) Generate(seed uint64, tier string) *core.Scenario {
	r := core.NewRand(seed)
	b := C07Body{Config: []string{"local", "journal"}[r.Intn(2)]}
	b.MemTable = uint64([]int{512, 1 << 10, 4 << 10, 64 << 10}[r.Intn(4)])
	b.MaxTab = []int{3, 256}[r.Intn(2)]
	b.Cfg = JCfg{BuffSize: 64 << 10, SyncThreshold: 64 << 20, MaxNovel: 16384, MemTable: b.MemTable}
	nops := r.Range(6, 50)
	if tier == "thorough" {
		nops = r.Range(6, 100)
	}
	maxSz := int(b.MemTable)/3 - 80
	if maxSz > 400 {
		maxSz = 400
	}
	newChunk := func() int {
		var kids []int
		n := r.Intn(4)
		for i := 0; i < n && len(b.Chunks) > 0; i++ {
			kids = append(kids, r.Intn(len(b.Chunks))) // may or may not have been put: that is the point
		}
		d := 0
		if r.Chance(1, 8) {
			d = 1
		}
		b.Chunks = append(b.Chunks, ChunkSpec{Size: r.Intn(maxSz), Fill: r.Uint64(), Kids: kids, Dangle: d})
		return len(b.Chunks) - 1
	}
	for len(b.Ops) < nops {
		switch x := r.Intn(100); {
		case x < 40:
			var cs []int
			for i := 0; i < r.Range(1, 5); i++ {
				if len(b.Chunks) > 0 && r.Chance(1, 4) {
					cs = append(cs, r.Intn(len(b.Chunks))) // (re)put an earlier chunk, e.g. a missing child
				} else {
					cs = append(cs, newChunk())
				}
			}
			b.Ops = append(b.Ops, C07Op{Kind: "put", C: cs})
		case x < 75:
			root := newChunk()
			if r.Chance(1, 3) && len(b.Chunks) > 1 {
				root = r.Intn(len(b.Chunks))
				b.Ops = append(b.Ops, C07Op{Kind: "commit", Root: root, Stale: r.Chance(1, 6), Fault: r.Chance(1, 7)})
			} else {
				b.Ops = append(b.Ops, C07Op{Kind: "put", C: []int{root}}, C07Op{Kind: "commit", Root: root, Stale: r.Chance(1, 6), Fault: r.Chance(1, 7)})
			}
		case x < 83:
			b.Ops = append(b.Ops, C07Op{Kind: "reopen"})
		case x < 87:
			b.Ops = append(b.Ops, C07Op{Kind: "rebase"})
		default:
			var cs []int
			for i := 0; i < r.Range(1, 4); i++ {
				cs = append(cs, newChunk())
			}
			b.Ops = append(b.Ops, C07Op{Kind: "addtable", C: cs})
		}
	}
	if r.Chance(1, 4) {
		// directed: a commit whose references all check out fails because the memtable cannot be
		// persisted (disk full); a commit with a genuinely dangling reference is rejected next, which
		// drops the memtable - the first commit's chunks with it; a third commit then refers to one of
		// those chunks without writing it again: nothing may remember it as present
		b.Config = "local"
		mk := func(kids ...int) int {
			b.Chunks = append(b.Chunks, ChunkSpec{Size: r.Intn(maxSz), Fill: r.Uint64(), Kids: kids})
			return len(b.Chunks) - 1
		}
		a := mk()
		p1 := mk(a)
		z := mk() // never put
		x := mk(z)
		p2 := mk(a)
		seq := []C07Op{
			{Kind: "put", C: []int{a, p1}}, {Kind: "commit", Root: p1, Fault: true},
			{Kind: "put", C: []int{x}}, {Kind: "commit", Root: x},
			{Kind: "put", C: []int{p2}}, {Kind: "commit", Root: p2},
		}
		at := r.Intn(len(b.Ops) + 1)
		b.Ops = append(b.Ops[:at], append(seq, b.Ops[at:]...)...)
	}
	raw, _ := json.Marshal(b)
	return &core.Scenario{Property: "C07", Harness: "C07", Seed: seed, Tier: tier, Body: raw}
}

func openC07(ctx context.Context, b *C07Body, dir string) (*nbs.NomsBlockStore, error) {
	if b.Config == "journal" {
		return openJournal(ctx, dir, b.MemTable, nil)
	}
	return nbs.DsimNewLocalStore(ctx, constants.FormatDefaultString, dir, b.MemTable, b.MaxTab, nbs.NewUnlimitedMemQuotaProvider())
}

func (C07) Execute(t *testing.T, sc *core.Scenario) *core.Result {
	res := &core.Result{}
	var b C07Body
	if err := json.Unmarshal(sc.Body, &b); err != nil {
		res.Panic = "bad scenario body: " + err.Error()
		return res
	}
	ctx := context.Background()
	restore := applyJCfg(b.Cfg)
	defer restore()
	root := newScratch("c07")
	sos, err := simos.New(root)
	if err != nil {
		res.Panic = err.Error()
		return res
	}
	defer simos.RemoveTree(root)
	sos.Install()
	defer simos.Uninstall()
	dir := filepath.Join(root, "db")
	side := filepath.Join(root, "side")
	os.Mkdir(dir, 0o755)
	u := BuildUniverse(b.Chunks)
	st, err := openC07(ctx, &b, dir)
	if err != nil {
		res.Panic = "open: " + err.Error()
		return res
	}
	defer func() {
		if st != nil {
			st.Close()
		}
	}()
	durable := map[int]bool{} // canonical chunk index -> committed (or added through a table file)
	pending := map[int]bool{} // put since the last commit / rejection / reopen
	var persisted hash.Hash   // the model's persisted root
	rejections, dangerous := 0, 0
	taint := "" // set once the store accepted a dangling table file: later dangling states are its consequences
	sig := core.NewSig()

	present := func(i int) bool { return durable[i] || pending[i] }
	// After a rejection the store drops its memtable, but chunks already flushed to (uncommitted)
	// table files stay: ask the store which pending chunks are still there.
	refreshPending := func() {
		for k := range pending {
			if ok, err := st.Has(ctx, u.Chunks[k].Addr); err != nil || !ok {
				delete(pending, k)
			}
		}
	}
	// wouldDangle: does the closure of root (over the model's graph) leave the present set?
	wouldDangle := func(rootIdx int) (bool, string) {
		seen := map[int]bool{}
		stack := []hash.Hash{u.Chunks[rootIdx].Addr}
		for len(stack) > 0 {
			h := stack[len(stack)-1]
			stack = stack[:len(stack)-1]
			i, ok := u.ByAddr[h]
			if !ok {
				return true, "reference to never-written address " + short(h)
			}
			if seen[i] {
				continue
			}
			seen[i] = true
			if !present(i) {
				return true, fmt.Sprintf("chunk #%d %s is not in the store", i, short(h))
			}
			if durable[i] {
				continue // closed under references by induction (the invariant being checked)
			}
			stack = append(stack, u.Chunks[i].Kids...)
		}
		return false, ""
	}
	// checkPersisted opens an independent instance and verifies the invariant on what is on disk.
	checkPersisted := func(step int, why string) {
		v, err := openC07(ctx, &b, dir)
		if err != nil {
			res.Violate("second-open-failed", "-", step, "%s: %s", why, firstLine(err))
			return
		}
		defer v.Close()
		r, err := v.Root(ctx)
		if err != nil {
			res.Violate("second-open-failed", "-", step, "%s: root: %s", why, firstLine(err))
			return
		}
		if r != persisted {
			res.Violate("persisted-root-unexpected", "after="+why, step, "persisted root is %s, the model expects %s", short(r), short(persisted))
			return
		}
		if r.IsEmpty() {
			return
		}
		// reachability walk with the store's own contents (not the model's) as the source of kids
		seen := hash.NewHashSet()
		stack := []hash.Hash{r}
		for len(stack) > 0 {
			h := stack[len(stack)-1]
			stack = stack[:len(stack)-1]
			if seen.Has(h) {
				continue
			}
			seen.Insert(h)
			c, err := v.Get(ctx, h)
			if err != nil {
				res.Violate("reachable-chunk-unreadable", "after="+why, step, "%s: %s", short(h), firstLine(err))
				return
			}
			if c.IsEmpty() {
				if ok, _ := v.Has(ctx, h); !ok {
					res.Violate("dangling-reference-persisted", "after="+why+taint, step, "persisted root %s reaches %s which is not in the store", short(r), short(h))
					return
				}
			}
			kids, err := DecodeKids(c.Data())
			if err != nil {
				res.Violate("reachable-chunk-garbled", "after="+why, step, "%s", short(h))
				return
			}
			stack = append(stack, kids...)
		}
		res.Evaluations++
	}

	for i, op := range b.Ops {
		sig.Add(op.Kind)
		switch op.Kind {
		case "put":
			for _, ci := range op.C {
				if ci < 0 || ci >= len(u.Chunks) {
					continue
				}
				ci = u.Canon(ci)
				c := u.Chunks[ci]
				if err := st.Put(ctx, chunks.NewChunkWithHash(c.Addr, c.Data), GetAddrsCurry); err != nil {
					// a flush triggered by this put found a dangling child: the memtable is dropped
					res.Probe("put_rejected")
					sig.Add("putrej")
					refreshPending()
					continue
				}
				if !durable[ci] {
					pending[ci] = true
				}
			}
		case "commit":
			if op.Root < 0 || op.Root >= len(u.Chunks) {
				continue
			}
			ri := u.Canon(op.Root)
			cur, err := st.Root(ctx)
			if err != nil {
				res.Violate("root-error", "-", i, "%s", firstLine(err))
				continue
			}
			expected := cur
			if op.Stale {
				expected = hash.Of([]byte("stale expectation"))
			}
			dangles, why := wouldDangle(ri)
			if dangles {
				dangerous++
			}
			if op.Fault {
				fired := false
				sos.Fault = func(c *simos.Call) error {
					if !fired && c.Mut && (c.Op == "write" || c.Op == "writeat") && strings.HasPrefix(filepath.Base(c.Path), "nbs_table_") {
						fired = true
						res.Fault("persist-enospc")
						return syscall.ENOSPC
					}
					return nil
				}
			}
			ok, err := st.Commit(ctx, u.Chunks[ri].Addr, expected)
			sos.Fault = nil
			switch {
			case err == nil && ok:
				if op.Stale {
					res.Violate("stale-commit-succeeded", "-", i, "commit with a stale expected root succeeded")
				}
				if dangles {
					// The model's presence bookkeeping is approximate (flushes move chunks out of the
					// memtable at points it does not see); the arbiter is the reachability walk over
					// the persisted bytes that follows (checkPersisted).
					res.Probe("model_predicted_dangle_on_accepted_commit")
					_ = why
				}
				persisted = u.Chunks[ri].Addr
				for k := range pending {
					durable[k] = true
					delete(pending, k)
				}
				sig.Add("ok")
				res.Probe("commit_ok")
			case err != nil && errors.Is(err, nbs.ErrDanglingRef):
				rejections++
				sig.Add("rejected")
				res.Fault("dangling-commit-rejected")
				if !dangles {
					// stricter than the model: allowed (e.g. a child still sits in a memtable that a
					// flush has to check against durable tables only)
					res.Probe("rejected_although_model_says_closed")
				}
				refreshPending() // the memtable is dropped by design
				// a subsequent well-formed commit must work: put a fresh leaf and commit it over the current root
				leaf := EncodeChunk(nil, 8, uint64(i)+4242, false)
				if !persisted.IsEmpty() {
					leaf = EncodeChunk([]hash.Hash{persisted}, 8, uint64(i)+4242, false)
				}
				lc := chunks.NewChunk(leaf)
				if err := st.Put(ctx, lc, GetAddrsCurry); err != nil {
					res.Violate("store-wedged-after-rejection", "op=put", i, "%s", firstLine(err))
					break
				}
				cur2, _ := st.Root(ctx)
				ok2, err2 := st.Commit(ctx, lc.Hash(), cur2)
				if err2 != nil || !ok2 {
					res.Violate("store-wedged-after-rejection", "op=commit", i, "ok=%v err=%v", ok2, err2)
					break
				}
				// the leaf is outside the universe: track it by extending the universe
				u.Chunks = append(u.Chunks, MChunk{Addr: lc.Hash(), Data: leaf})
				u.ByAddr[lc.Hash()] = len(u.Chunks) - 1
				durable[len(u.Chunks)-1] = true
				persisted = lc.Hash()
				res.Probe("recovered_after_rejection")
			case err == nil && !ok:
				sig.Add("cas")
				res.Fault("cas-failure")
				if !op.Stale {
					res.Probe("cas_failure_without_stale_expectation")
				}
			default:
				sig.Add("err")
				res.Probe("commit_other_error:" + firstLine(err)[:min(50, len(firstLine(err)))])
				refreshPending()
			}
			checkPersisted(i, "commit")
		case "rebase":
			if err := st.Rebase(ctx); err != nil {
				res.Violate("rebase-error", "-", i, "%s", firstLine(err))
			}
		case "reopen":
			st.Close()
			st = nil
			st, err = openC07(ctx, &b, dir)
			if err != nil {
				res.Violate("reopen-failed", "-", i, "%s", firstLine(err))
				return res
			}
			// Uncommitted chunks that had been flushed to the journal are still there after a clean
			// reopen (the journal replays every valid record); those that only sat in the memtable or
			// in uncommitted table files are gone. Ask the store; survivors now live in a table source.
			for k := range pending {
				if ok, err := st.Has(ctx, u.Chunks[k].Addr); err == nil && ok {
					durable[k] = true
				}
				delete(pending, k)
			}
			res.Fault("clean-restart")
			checkPersisted(i, "reopen")
		case "addtable":
			// build a table file in a side store, then hand it to the store under test
			var idx []int
			for _, ci := range op.C {
				if ci >= 0 && ci < len(u.Chunks) {
					idx = append(idx, u.Canon(ci))
				}
			}
			if len(idx) == 0 {
				continue
			}
			simos.RemoveTree(side)
			os.Mkdir(side, 0o755)
			sst, err := nbs.DsimNewLocalStore(ctx, constants.FormatDefaultString, side, 1<<20, 256, nbs.NewUnlimitedMemQuotaProvider())
			if err != nil {
				res.Panic = "side store: " + err.Error()
				return res
			}
			noCheck := func(c chunks.Chunk) chunks.InsertAddrsCb {
				return func(context.Context, hash.HashSet, chunks.PendingRefExists) error { return nil }
			}
			for _, ci := range idx {
				c := u.Chunks[ci]
				sst.Put(ctx, chunks.NewChunkWithHash(c.Addr, c.Data), noCheck)
			}
			sroot := u.Chunks[idx[0]].Addr
			if ok, err := sst.Commit(ctx, sroot, hash.Hash{}); err != nil || !ok {
				sst.Close()
				res.Probe("side_commit_failed")
				continue
			}
			srcs, err := sst.Sources(ctx)
			if err != nil || len(srcs.TableFiles) == 0 {
				sst.Close()
				continue
			}
			files := map[string]int{}
			failed := false
			for _, tf := range srcs.TableFiles {
				tf := tf
				_, err := st.WriteTableFile(ctx, tf.FileID()+tf.LocationSuffix(), tf.SplitOffset(), tf.NumChunks(), nil, func() (io.ReadCloser, uint64, error) {
					return tf.Open(ctx)
				})
				if err != nil {
					res.Probe("write_table_file_error:" + firstLine(err)[:min(50, len(firstLine(err)))])
					failed = true
					break
				}
				files[tf.FileID()] = tf.NumChunks()
			}
			sst.Close()
			if failed {
				continue
			}
			// would the file's chunks dangle against the store's durable contents + the file itself?
			inFile := map[int]bool{}
			for _, ci := range idx {
				inFile[ci] = true
			}
			dangles := false
			whyDangles := ""
			for _, ci := range idx {
				for _, k := range u.Chunks[ci].Kids {
					ki, ok := u.ByAddr[k]
					if !ok || !(durable[ki] || inFile[ki]) {
						// children that only sit in the memtable are not durable: adding the file would
						// leave the manifest naming a chunk whose child is not in any table file
						dangles = true
						w := "child-absent"
						if ok && pending[ki] {
							w = "child-uncommitted"
						}
						if whyDangles == "" || w == "child-absent" {
							whyDangles = w
						}
					}
				}
			}
			if persisted.IsEmpty() && dangles {
				whyDangles = "store-root-empty"
			}
			// The model's idea of what the store holds can lag behind the store: a chunk that was put,
			// written to the journal and never committed is gone for the model after a reopen, but the
			// journal still has its record and the store still serves it. What decides whether a child is
			// absent is the store, asked before the addition; only children it does not have make the
			// file dangle for the reason "child-absent".
			var absentKids []string
			if dangles && whyDangles == "child-absent" {
				reallyAbsent, uncommitted := false, false
				for _, ci := range idx {
					for _, k := range u.Chunks[ci].Kids {
						ki, ok := u.ByAddr[k]
						if ok && (durable[ki] || inFile[ki]) {
							continue
						}
						if ok && pending[ki] {
							uncommitted = true
							continue
						}
						has, herr := st.Has(ctx, k)
						if herr == nil && has {
							res.Probe("child_unknown_to_the_model_but_in_the_store")
							continue
						}
						reallyAbsent = true
						absentKids = append(absentKids, fmt.Sprintf("chunk #%d -> child %s (store.Has: %v %v)", ci, short(k), has, herr))
					}
				}
				switch {
				case reallyAbsent:
				case uncommitted:
					whyDangles = "child-uncommitted"
				default:
					dangles, whyDangles = false, ""
				}
			}
			err = st.AddTableFilesToManifest(ctx, files, GetAddrsCurry)
			if err == nil {
				if dangles {
					res.Violate("dangling-table-file-accepted", "why="+whyDangles, i, "AddTableFilesToManifest accepted a file whose chunks reference chunks that are in no table file (%s) %v", whyDangles, absentKids)
					if taint == "" {
						taint = ";tainted-by=dangling-table-file(" + whyDangles + ")"
					}
				}
				for _, ci := range idx {
					durable[ci] = true
					delete(pending, ci)
				}
				res.Fault("table-file-added")
			} else if errors.Is(err, nbs.ErrDanglingRef) || errors.Is(err, nbs.ErrTableFileNotFound) {
				res.Fault("dangling-table-file-rejected")
				if !dangles {
					res.Probe("table_file_rejected_although_closed")
				}
			} else {
				res.Probe("addtable_other_error:" + firstLine(err)[:min(50, len(firstLine(err)))])
			}
			checkPersisted(i, "addtable")
		}
		nbs.DsimWaitConjoin(st)
		if len(res.Violations) >= 5 {
			break
		}
	}
	res.Ops = len(b.Ops)
	res.LogHash = sig.Sum()
	if rejections > 0 || res.Faults["dangling-table-file-rejected"] > 0 {
		res.CaseHashes = append(res.CaseHashes, core.Hash64(sig.Sum()))
	} else {
		res.Trivial = 1
	}
	if res.Evaluations == 0 {
		res.Evaluations = 1
	}
	res.ProbeN("commits_that_would_dangle", dangerous)
	res.Sample = map[string]any{"config": b.Config, "mem_table": b.MemTable, "ops": len(b.Ops), "chunks": len(b.Chunks), "rejections": rejections}
	return res
}

func (C07) Shrinks(sc *core.Scenario) []*core.Scenario {
	var b C07Body
	if json.Unmarshal(sc.Body, &b) != nil {
		return nil
	}
	var out []*core.Scenario
	for i := range b.Ops {
		nb := b
		nb.Ops = append(append([]C07Op(nil), b.Ops[:i]...), b.Ops[i+1:]...)
		raw, _ := json.Marshal(nb)
		c := *sc
		c.Body = raw
		out = append(out, &c)
	}
	return out
}
