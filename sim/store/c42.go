package store

import (
	"bytes"
	"context"
	"encoding/json"
	"errors"
	"fmt"
	"io"
	"os"
	"os/exec"
	"path/filepath"
	"strings"
	"testing"
	"time"

	"dsim/core"
	"dsim/simos"

	"github.com/dolthub/dolt/go/store/blobstore"
	"github.com/dolthub/dolt/go/store/chunks"
	"github.com/dolthub/dolt/go/store/constants"
	"github.com/dolthub/dolt/go/store/hash"
	"github.com/dolthub/dolt/go/store/nbs"
	"github.com/dolthub/dolt/go/store/testutils/gitrepo"
	"github.com/dolthub/dolt/go/store/util/tempfiles"
)

// C42 — blobstores provide a correct conditional manifest update and byte ranges.
//
// Part "blob": 2-4 tasks do Get(manifest) -> CheckAndPutManifest(version, unique contents) on one
// blobstore (LocalBlobstore: separate instances on one directory, interleaved at file-operation
// granularity with flock emulated as a scheduling point; InMemoryBlobstore: one shared object,
// interleaved at call granularity); the history is checked against a versioned register with
// porcupine. Byte ranges and Concatenate ride along against a byte-slice model.
// Part "stack": NewBSStore over the simulated blobstore runs the C02 committer workload.

type C42 struct{}

type C42Body struct {
	Part     string   `json:"part"`    // blob | stack
	Backend  string   `json:"backend"` // local | inmem
	NTasks   int      `json:"ntasks"`
	Iters    int      `json:"iters"`
	YieldOps []string `json:"yield_ops"`
	Seed     uint64   `json:"sched_seed"`
	Sched    []int    `json:"sched,omitempty"`
	PCT      int      `json:"pct"` // 0 = random walk, d>0 = priority-based strategy of depth d
	MemTable uint64   `json:"mem_table"`
}

func (C42) Generate(seed uint64, tier string) *core.Scenario {
	r := core.NewRand(seed)
	b := C42Body{Seed: r.Uint64()}
	b.PCT = []int{0, 0, 2, 3, 4, 5}[r.Intn(6)]
	b.Part = []string{"blob", "blob", "stack"}[r.Intn(3)]
	b.Backend = []string{"local", "local", "inmem"}[r.Intn(3)]
	b.NTasks = r.Range(2, 4)
	b.Iters = r.Range(2, 4)
	gitOneIn := 16 // every git call is a subprocess: few of these runs in the quick tier
	if tier == "thorough" {
		gitOneIn = 7
	}
	if r.Chance(1, gitOneIn) {
		// the git-backed blobstore: independent clients (own local repository each) of one bare
		// remote, interleaved at the granularity of git subprocesses
		b.Part, b.Backend, b.NTasks, b.Iters = "blob", "git", r.Range(2, 3), r.Range(2, 3)
	}
	b.MemTable = uint64([]int{1 << 10, 64 << 10}[r.Intn(2)])
	for _, o := range []string{"rename", "open", "stat", "create", "write", "read", "remove"} {
		if r.Chance(1, 2) {
			b.YieldOps = append(b.YieldOps, o)
		}
	}
	if len(b.YieldOps) == 0 {
		b.YieldOps = []string{"rename", "open"}
	}
	raw, _ := json.Marshal(b)
	return &core.Scenario{Property: "C42", Harness: "C42", Seed: seed, Tier: tier, Body: raw}
}

// yieldingBlobstore parks the calling task before every blobstore call (interface granularity).
type yieldingBlobstore struct {
	blobstore.Blobstore
	s *core.Sched
}

func (y yieldingBlobstore) Get(ctx context.Context, key string, br blobstore.BlobRange) (rc io.ReadCloser, size uint64, ver string, err error) {
	y.s.YieldHere("bs.Get")
	return y.Blobstore.Get(ctx, key, br)
}
func (y yieldingBlobstore) Put(ctx context.Context, key string, n int64, r io.Reader) (string, error) {
	y.s.YieldHere("bs.Put")
	return y.Blobstore.Put(ctx, key, n, r)
}
func (y yieldingBlobstore) CheckAndPutManifest(ctx context.Context, exp string, contents []byte) (string, error) {
	y.s.YieldHere("bs.CheckAndPutManifest")
	return y.Blobstore.CheckAndPutManifest(ctx, exp, contents)
}
func (y yieldingBlobstore) Exists(ctx context.Context, key string) (bool, error) {
	y.s.YieldHere("bs.Exists")
	return y.Blobstore.Exists(ctx, key)
}

func (C42) Execute(t *testing.T, sc *core.Scenario) *core.Result {
	res := &core.Result{}
	var b C42Body
	if err := json.Unmarshal(sc.Body, &b); err != nil {
		res.Panic = "bad scenario body: " + err.Error()
		return res
	}
	ctx := context.Background()
	root := newScratch("c42")
	sos, err := simos.New(root)
	if err != nil {
		res.Panic = err.Error()
		return res
	}
	defer simos.RemoveTree(root)
	sos.Now = time.Now
	sos.Install()
	defer simos.Uninstall()
	dir := filepath.Join(root, "bs")
	tmp := filepath.Join(root, "tmp")
	os.Mkdir(dir, 0o755)
	os.Mkdir(tmp, 0o755)
	oldTFP := tempfiles.MovableTempFileProvider
	tempfiles.MovableTempFileProvider = tempfiles.NewTempFileProviderAt(tmp)
	defer func() { tempfiles.MovableTempFileProvider = oldTFP }()

	ch := core.NewChooser(b.Seed, b.Sched)
	s := core.NewSched(ch)
	s.PCTDepth = b.PCT
	s.KeepTrace = len(b.Sched) > 0
	s.OnRelease = func(t *core.Task) { sos.SetActor(t.Actor) }
	sos.LockWait = func() bool { return s.Regain("woken:flock") || s.YieldBlocked("flock-wait") }
	elig := map[string]bool{}
	for _, o := range b.YieldOps {
		elig[o] = true
	}
	if b.Backend == "local" {
		sos.Yield = func(c *simos.Call) {
			op := c.Op
			switch op {
			case "readat":
				op = "read"
			case "writeat":
				op = "write"
			case "lstat", "fstat":
				op = "stat"
			}
			// temp files are created under the temp file provider's mutex
			if op == "create" && strings.HasPrefix(c.Path, "tmp/") {
				return
			}
			// a task that slept (LocalBlobstore.Put waits 10 ms for the mtime to move) comes back
			// under the scheduler at its first file operation, whatever the operation
			if s.Regain("woken:" + op) {
				return
			}
			if !elig[op] {
				return
			}
			s.YieldHere(op + ":" + filepath.Base(filepath.Dir(c.Path)))
		}
	}
	var sharedMem *blobstore.InMemoryBlobstore
	if b.Backend == "inmem" {
		sharedMem = blobstore.NewInMemoryBlobstore("mem")
	}
	nGit := 0
	if b.Backend == "git" {
		// real git subprocesses on real directories below the scratch root (they are not part of the
		// simulated file system); what the simulator owns is who runs the next subprocess
		if _, err := exec.LookPath("git"); err != nil {
			res.Probe("git_not_installed")
			res.Trivial = 1
			res.Evaluations = 1
			res.LogHash = "no-git"
			return res
		}
		if _, err := gitrepo.InitBare(ctx, filepath.Join(root, "remote.git")); err != nil {
			res.Panic = "git init: " + err.Error()
			return res
		}
		blobstore.DsimSetGitYield(func(sub string) {
			switch sub {
			case "fetch", "push", "update-ref", "commit-tree", "write-tree":
				s.YieldHere("git:" + sub)
			}
		})
		defer blobstore.DsimSetGitYield(nil)
	}
	newBS := func() blobstore.Blobstore {
		if b.Backend == "inmem" {
			return yieldingBlobstore{sharedMem, s}
		}
		if b.Backend == "git" {
			nGit++
			local, err := gitrepo.InitBare(ctx, filepath.Join(root, fmt.Sprintf("client%d.git", nGit)))
			if err == nil {
				cmd := exec.CommandContext(ctx, "git", "--git-dir", local.GitDir, "remote", "add", "origin", filepath.Join(root, "remote.git"))
				if out, cerr := cmd.CombinedOutput(); cerr != nil {
					err = fmt.Errorf("git remote add: %v: %s", cerr, out)
				}
			}
			var gbs *blobstore.GitBlobstore
			if err == nil {
				// a negative TTL switches the read-side fetch de-duplication off: within the window a Get
				// may by design return what an earlier fetch saw, and the simulated clock does not move
				gbs, err = blobstore.NewGitBlobstoreWithOptions(local.GitDir, blobstore.DoltDataRef, blobstore.GitBlobstoreOptions{RemoteName: "origin", SyncForReadTTL: -1})
			}
			if err != nil {
				res.Panic = "git client: " + err.Error()
				return blobstore.NewInMemoryBlobstore("unused")
			}
			return gbs
		}
		return blobstore.NewLocalBlobstore(dir)
	}

	res.Probe("backend:" + b.Backend)
	if b.Part == "stack" {
		return c42Stack(ctx, sc, &b, s, sos, newBS, res)
	}

	var seq int64
	tick := func() int64 { seq++; return seq }
	var ops []core.RegOp
	contentsOf := map[string]string{"": ""} // version -> contents (as far as known)
	for i := 0; i < b.NTasks; i++ {
		id := i
		tk := s.Go(fmt.Sprintf("client%d", id), func(tk *core.Task) {
			bs := newBS()
			r := core.NewRand(b.Seed ^ uint64(id+1)*31337)
			blobs := map[string][]byte{}
			for it := 0; it < b.Iters; it++ {
				tk.Yield("iter")
				// read the manifest: version + contents
				call := tick()
				data, ver, err := blobstore.GetBytes(ctx, bs, blobstore.ManifestKey, blobstore.AllRange)
				ret := tick()
				if err != nil && !blobstore.IsNotFoundError(err) {
					res.Probe("get_error:" + firstLine(err)[:min(40, len(firstLine(err)))])
					continue
				}
				if err != nil {
					ver, data = "", nil
				}
				ops = append(ops, core.RegOp{Client: id, Kind: "read", Val: ver, Call: call, Ret: ret})
				if want, known := contentsOf[ver]; known && want != string(data) {
					res.Violate("manifest-version-content-mismatch", "backend="+b.Backend, int(seq), "version %q was written with %q but read back as %q", ver, want, string(data))
				}
				// conditional update with unique contents
				contents := fmt.Sprintf("manifest-by-%d-iter-%d-%x", id, it, r.Uint64())
				call = tick()
				nv, err := bs.CheckAndPutManifest(ctx, ver, []byte(contents))
				ret = tick()
				var cpe blobstore.CheckAndPutError
				switch {
				case err == nil:
					ops = append(ops, core.RegOp{Client: id, Kind: "cas", Exp: ver, New: nv, Ok: true, Call: call, Ret: ret})
					contentsOf[nv] = contents
					res.Probe("cas_ok")
				case errors.As(err, &cpe) || blobstore.IsCheckAndPutError(err):
					ops = append(ops, core.RegOp{Client: id, Kind: "cas", Exp: ver, New: "", Ok: false, Call: call, Ret: ret})
					res.Fault("cas-contention")
				default:
					res.Probe("cas_error:" + firstLine(err)[:min(40, len(firstLine(err)))])
				}
				if b.Backend == "git" {
					res.Evaluations++
					continue // non-manifest writes are deferred to the next manifest update there
				}
				// ride-along: a blob, ranges of it, a concatenation
				key := fmt.Sprintf("blob-%d-%d", id, it)
				payload := r.Bytes(r.Range(1, 700))
				if _, err := blobstore.PutBytes(ctx, bs, key, payload); err != nil {
					res.Probe("put_error")
					continue
				}
				blobs[key] = payload
				for k := 0; k < 4; k++ {
					n := int64(len(payload))
					var off, ln int64
					switch r.Intn(4) {
					case 0:
						off, ln = r.Int63n(n), 0 // to the end
					case 1:
						off = r.Int63n(n)
						ln = 1 + r.Int63n(n-off)
					case 2:
						off, ln = -(1 + r.Int63n(n)), 0 // suffix
					default:
						off = -(1 + r.Int63n(n))
						ln = 1 + r.Int63n(-off)
					}
					got, _, err := blobstore.GetBytes(ctx, bs, key, blobstore.NewBlobRange(off, ln))
					if err != nil {
						res.Violate("range-read-error", "backend="+b.Backend, int(seq), "Get(%s, off=%d len=%d): %s", key, off, ln, firstLine(err))
						continue
					}
					po := off
					if po < 0 {
						po = n + po
					}
					pe := n
					if ln != 0 && po+ln < n {
						pe = po + ln
					}
					if !bytes.Equal(got, payload[po:pe]) {
						res.Violate("range-read-wrong-bytes", fmt.Sprintf("backend=%s;neg=%v;len0=%v", b.Backend, off < 0, ln == 0), int(seq), "Get(%s, off=%d len=%d) on %d bytes returned %d bytes, want [%d:%d]", key, off, ln, n, len(got), po, pe)
					}
					res.Evaluations++
				}
				if len(blobs) >= 2 {
					var keys []string
					for _, k := range core.SortedKeys(blobs) {
						keys = append(keys, k)
					}
					srcs := []string{keys[r.Intn(len(keys))], keys[r.Intn(len(keys))]}
					ck := fmt.Sprintf("cat-%d-%d", id, it)
					if _, err := bs.Concatenate(ctx, ck, srcs); err == nil {
						got, _, err := blobstore.GetBytes(ctx, bs, ck, blobstore.AllRange)
						want := append(append([]byte(nil), blobs[srcs[0]]...), blobs[srcs[1]]...)
						if err != nil || !bytes.Equal(got, want) {
							res.Violate("concatenate-wrong", "backend="+b.Backend, int(seq), "Concatenate(%v): %d bytes, want %d (err=%v)", srcs, len(got), len(want), err)
						}
					}
				}
			}
		})
		tk.Actor = id + 1
	}
	if msg := s.Run(); msg != "" {
		res.Panic = "scheduler: " + msg + "\n" + strings.Join(s.Trace, "\n")
		return res
	}
	sos.Yield = nil
	switch core.CheckRegister("", ops) {
	case "illegal":
		var lines []string
		for _, o := range ops {
			if o.Kind == "read" {
				lines = append(lines, fmt.Sprintf("[%d,%d] c%d get -> version %q", o.Call, o.Ret, o.Client, o.Val))
			} else {
				lines = append(lines, fmt.Sprintf("[%d,%d] c%d checkAndPut(expected %q) = %v -> %q", o.Call, o.Ret, o.Client, o.Exp, o.Ok, o.New))
			}
		}
		res.Violate("manifest-history-not-linearizable", "backend="+b.Backend, len(ops), "the Get / CheckAndPutManifest history is not a linearizable versioned register:\n%s", strings.Join(lines, "\n"))
	case "unknown":
		res.Inconcl++
	default:
		res.Probe("porcupine_ok")
	}
	c42Finish(sc, &b, s, res, len(ops))
	return res
}

func c42Finish(sc *core.Scenario, b *C42Body, s *core.Sched, res *core.Result, nops int) {
	res.Ops = nops
	res.LogHash = s.Hash()
	res.FaultN("context-switch", s.Switches)
	res.FaultN("clock-advance", s.TimeAdv)
	if s.Switches > 0 {
		res.CaseHashes = append(res.CaseHashes, core.Hash64(s.Hash()))
	} else {
		res.Trivial = 1
	}
	if res.Evaluations == 0 {
		res.Evaluations = 1
	}
	if res.Violated() {
		b2 := *b
		b2.Sched = s.Decisions()
		pinned, _ := json.Marshal(b2)
		for _, v := range res.Violations {
			v.Pinned = pinned
		}
	}
	res.Sample = map[string]any{"part": b.Part, "backend": b.Backend, "tasks": b.NTasks, "iters": b.Iters, "yield_ops": b.YieldOps, "switches": s.Switches, "history_ops": nops}
}

// c42Stack: the C02 committer workload on NewBSStore over the simulated blobstore.
func c42Stack(ctx context.Context, sc *core.Scenario, b *C42Body, s *core.Sched, sos *simos.OS, newBS func() blobstore.Blobstore, res *core.Result) *core.Result {
	q := nbs.NewUnlimitedMemQuotaProvider()
	var seq int64
	tick := func() int64 { seq++; return seq }
	var ops []core.RegOp
	data := map[string][]byte{}
	kidsOf := map[string][]hash.Hash{}
	unknown := false
	open := func() (*nbs.NomsBlockStore, error) {
		return nbs.NewNoConjoinBSStore(ctx, constants.FormatDefaultString, newBS(), b.MemTable, q)
	}
	for i := 0; i < b.NTasks; i++ {
		id := i
		tk := s.Go(fmt.Sprintf("committer%d", id), func(tk *core.Task) {
			st, err := open()
			if err != nil {
				res.Violate("open-failed", "backend="+b.Backend, 0, "%s", firstLine(err))
				return
			}
			defer st.Close()
			r := core.NewRand(b.Seed ^ uint64(id+1)*7919)
			for it := 0; it < b.Iters; it++ {
				tk.Yield("iter")
				call := tick()
				if err := st.Rebase(ctx); err != nil {
					res.Probe("rebase_error")
					continue
				}
				cur, err := st.Root(ctx)
				if err != nil {
					continue
				}
				ops = append(ops, core.RegOp{Client: id, Kind: "read", Val: cur.String(), Call: call, Ret: tick()})
				var kids []hash.Hash
				if !cur.IsEmpty() {
					kids = append(kids, cur)
				}
				for k := 0; k < r.Range(1, 3); k++ {
					c := chunks.NewChunk(EncodeChunk(nil, r.Intn(120), r.Uint64(), false))
					st.Put(ctx, c, GetAddrsCurry)
					data[c.Hash().String()] = c.Data()
					kids = append(kids, c.Hash())
				}
				rc := chunks.NewChunk(EncodeChunk(kids, 6, r.Uint64(), false))
				st.Put(ctx, rc, GetAddrsCurry)
				data[rc.Hash().String()] = rc.Data()
				kidsOf[rc.Hash().String()] = kids
				call = tick()
				ok, err := st.Commit(ctx, rc.Hash(), cur)
				ret := tick()
				if err != nil {
					unknown = true
					res.Probe("commit_error:" + firstLine(err)[:min(50, len(firstLine(err)))])
					continue
				}
				ops = append(ops, core.RegOp{Client: id, Kind: "cas", Exp: cur.String(), New: rc.Hash().String(), Ok: ok, Call: call, Ret: ret})
				if ok {
					res.Probe("commit_ok")
				} else {
					res.Fault("cas-contention")
				}
			}
		})
		tk.Actor = id + 1
	}
	// a reader: fresh store, root, closure
	rd := s.Go("reader", func(tk *core.Task) {
		for it := 0; it < b.Iters; it++ {
			tk.Yield("reader-iter")
			call := tick()
			st, err := open()
			if err != nil {
				res.Violate("reopen-failed", "backend="+b.Backend, 0, "%s", firstLine(err))
				continue
			}
			rt, _ := st.Root(ctx)
			ops = append(ops, core.RegOp{Client: 50, Kind: "read", Val: rt.String(), Call: call, Ret: tick()})
			seen := map[string]bool{}
			stack := []hash.Hash{rt}
			for len(stack) > 0 {
				h := stack[len(stack)-1]
				stack = stack[:len(stack)-1]
				if h.IsEmpty() || seen[h.String()] {
					continue
				}
				seen[h.String()] = true
				want, known := data[h.String()]
				got, err := st.Get(ctx, h)
				if !known || err != nil || !bytes.Equal(got.Data(), want) {
					res.Violate("acknowledged-chunk-unreadable", "backend="+b.Backend, int(seq), "root %s: chunk %s not readable through a fresh blobstore-backed store (known=%v err=%v)", short(rt), short(h), known, err)
					break
				}
				stack = append(stack, kidsOf[h.String()]...)
			}
			res.Evaluations++
			st.Close()
		}
	})
	rd.Actor = 50
	if msg := s.Run(); msg != "" {
		res.Panic = "scheduler: " + msg + "\n" + strings.Join(s.Trace, "\n")
		return res
	}
	sos.Yield = nil
	if !unknown && len(ops) <= 80 {
		switch core.CheckRegister(hash.Hash{}.String(), ops) {
		case "illegal":
			var lines []string
			for _, o := range ops {
				lines = append(lines, fmt.Sprintf("[%d,%d] c%d %s val=%.8s exp=%.8s new=%.8s ok=%v", o.Call, o.Ret, o.Client, o.Kind, o.Val, o.Exp, o.New, o.Ok))
			}
			res.Violate("history-not-linearizable", "part=stack;backend="+b.Backend, len(ops), "root history over the blobstore-backed store is not a linearizable CAS register:\n%s", strings.Join(lines, "\n"))
		case "unknown":
			res.Inconcl++
		default:
			res.Probe("porcupine_ok")
		}
	} else {
		res.Inconcl++
	}
	c42Finish(sc, b, s, res, len(ops))
	return res
}

func (C42) Shrinks(sc *core.Scenario) []*core.Scenario {
	var b C42Body
	if json.Unmarshal(sc.Body, &b) != nil || len(b.Sched) == 0 {
		return nil
	}
	var out []*core.Scenario
	for w := len(b.Sched) / 2; w >= 1; w /= 2 {
		for i := 0; i+w <= len(b.Sched); i += w {
			changed := false
			ns := append([]int(nil), b.Sched...)
			for k := i; k < i+w; k++ {
				if ns[k] != 0 {
					ns[k] = 0
					changed = true
				}
			}
			if changed {
				nb := b
				nb.Sched = ns
				raw, _ := json.Marshal(nb)
				c := *sc
				c.Body = raw
				out = append(out, &c)
			}
		}
		if len(out) > 60 {
			break
		}
	}
	return out
}
