package store

import (
	"context"
	"encoding/json"
	"errors"
	"fmt"
	"os"
	"path/filepath"
	"strings"
	"testing"
	"time"

	"dsim/core"
	"dsim/simos"

	"github.com/dolthub/dolt/go/store/chunks"
	"github.com/dolthub/dolt/go/store/constants"
	"github.com/dolthub/dolt/go/store/hash"
	"github.com/dolthub/dolt/go/store/nbs"
)

// C05 — the manifest is replaced atomically and never names a missing table file.
//
// Part 1 (S1): writer, conjoiner, GC and grace-pruner "processes" (own store objects, one shared
// directory) interleaved at file-operation granularity; after EVERY recorded file-system event the
// manifest on disk must parse completely and every file it names must exist.
// Part 2 (S2): for the recorded op log, crash images at the positions inside manifest updates and
// table-file publications: the manifest must be a complete version that some update wrote and
// every table file it names must read back completely.

type C05 struct{}

type C05Body struct {
	Writers  int      `json:"writers"`
	Conjoin  bool     `json:"conjoin"`
	GC       bool     `json:"gc"`
	Prune    bool     `json:"prune"`
	GraceMS  int      `json:"grace_ms"`
	LockMS   int      `json:"lock_ms,omitempty"` // manifest LOCK time-out (0 = the shipped 100 ms)
	Iters    int      `json:"iters"`
	MemTable uint64   `json:"mem_table"`
	YieldOps []string `json:"yield_ops"`
	Seed     uint64   `json:"sched_seed"`
	Sched    []int    `json:"sched,omitempty"`
	PCT      int      `json:"pct"` // 0 = random walk, d>0 = priority-based strategy of depth d
	// crash part
	Images int        `json:"images"`
	Only   *CrashSpec `json:"only,omitempty"`
}

func (C05) Generate(seed uint64, tier string) *core.Scenario {
	r := core.NewRand(seed)
	b := C05Body{Seed: r.Uint64()}
	b.PCT = []int{0, 0, 2, 3, 4, 5}[r.Intn(6)]
	b.Writers = r.Range(1, 3)
	b.Conjoin = r.Chance(1, 2)
	b.GC = r.Chance(1, 2)
	b.Prune = r.Chance(2, 3)
	b.GraceMS = []int{1, 5, 20, 50, 400, 3000}[r.Intn(6)] // mostly short: a writer parked for a few simulated ms has then stalled "longer than grace"
	b.LockMS = []int{0, 0, 1000, 10000}[r.Intn(4)]
	b.Iters = r.Range(2, 4)
	b.MemTable = uint64([]int{512, 2 << 10, 64 << 10}[r.Intn(3)])
	for _, o := range []string{"rename", "remove", "create", "open", "stat", "fsync", "readdir", "write"} {
		if r.Chance(1, 2) {
			b.YieldOps = append(b.YieldOps, o)
		}
	}
	if len(b.YieldOps) == 0 {
		b.YieldOps = []string{"rename", "remove", "stat"}
	}
	b.Images = 120
	if tier == "thorough" {
		b.Images = 600
	}
	raw, _ := json.Marshal(b)
	return &core.Scenario{Property: "C05", Harness: "C05", Seed: seed, Tier: tier, Body: raw}
}

// parseManifestBytes is an independent parser of the v5 manifest text.
func parseManifestBytes(b []byte) (names []string, ok bool) {
	s := string(b)
	f := strings.Split(s, ":")
	if len(f) < 5 || f[0] != "5" || len(f)%2 != 1 {
		return nil, false
	}
	for _, h := range f[2:5] {
		if _, ok := hash.MaybeParse(h); !ok {
			return nil, false
		}
	}
	for i := 5; i+1 < len(f); i += 2 {
		if _, ok := hash.MaybeParse(f[i]); !ok {
			return nil, false
		}
		for _, c := range f[i+1] {
			if c < '0' || c > '9' {
				return nil, false
			}
		}
		if f[i+1] == "" {
			return nil, false
		}
		names = append(names, f[i])
	}
	return names, true
}

func readReal(path string) ([]byte, error) {
	f, err := os.DsimRealOpenFile(path, os.O_RDONLY, 0)
	if err != nil {
		return nil, err
	}
	defer os.DsimRealClose(f)
	var out []byte
	buf := make([]byte, 8192)
	for {
		n, err := os.DsimRealRead(f, buf)
		out = append(out, buf[:n]...)
		if err != nil || n == 0 {
			break
		}
	}
	return out, nil
}

func (C05) Execute(t *testing.T, sc *core.Scenario) *core.Result {
	res := &core.Result{}
	var b C05Body
	if err := json.Unmarshal(sc.Body, &b); err != nil {
		res.Panic = "bad scenario body: " + err.Error()
		return res
	}
	ctx := context.Background()
	root := newScratch("c05")
	sos, err := simos.New(root)
	if err != nil {
		res.Panic = err.Error()
		return res
	}
	defer simos.RemoveTree(root)
	sos.Now = time.Now // simulated mtimes (fake clock inside the bubble)
	sos.Install()
	defer simos.Uninstall()
	oldLock := nbs.DsimSetLockFileTimeout(time.Duration(b.LockMS) * time.Millisecond)
	defer nbs.DsimSetLockFileTimeout(oldLock)
	dir := filepath.Join(root, "db")
	os.Mkdir(dir, 0o755)
	q := nbs.NewUnlimitedMemQuotaProvider()
	open := func() (*nbs.NomsBlockStore, error) {
		st, err := nbs.DsimNewLocalStore(ctx, constants.FormatDefaultString, dir, b.MemTable, 256, q)
		if err == nil {
			st.DisableConjoin()
		}
		return st, err
	}
	ch := core.NewChooser(b.Seed, b.Sched)
	s := core.NewSched(ch)
	s.PCTDepth = b.PCT
	s.KeepTrace = len(b.Sched) > 0

	// ---- the "at every moment" invariant --------------------------------------------------------
	manifestPath := filepath.Join(dir, nbs.DsimManifestFileName)
	events := 0
	checkLive := func(e *simos.Event) {
		if e.Kind == simos.EvSync || e.Kind == simos.EvSyncDir || e.Kind == simos.EvWrite {
			return // these change neither the manifest's identity nor the directory listing
		}
		events++
		mb, err := readReal(manifestPath)
		if err != nil {
			return // no manifest yet
		}
		names, ok := parseManifestBytes(mb)
		if !ok {
			res.Violate("manifest-incomplete", "when=live", e.Seq, "after %s %s%s the manifest does not parse as a complete version: %q", e.Kind, e.Path, e.Path2, string(mb[:min(80, len(mb))]))
			return
		}
		for _, n := range names {
			if _, err := os.DsimRealStat(filepath.Join(dir, n)); err == nil {
				continue
			}
			if _, err := os.DsimRealStat(filepath.Join(dir, n+".darc")); err == nil {
				continue
			}
			who := "actor " + fmt.Sprint(e.Actor)
			res.Violate("manifest-names-missing-file", "when=live;after="+e.Kind.String()+":"+fileClass(e.Path, e.Path2), e.Seq,
				"after %s %s%s by %s the manifest names table file %s which does not exist", e.Kind, e.Path, e.Path2, who, n)
			return
		}
		res.Evaluations++
	}
	sos.AfterEvent = checkLive

	elig := map[string]bool{}
	for _, o := range b.YieldOps {
		elig[o] = true
	}
	sos.Yield = func(c *simos.Call) {
		op := c.Op
		switch op {
		case "readat":
			op = "read"
		case "writeat", "ftruncate", "truncate":
			op = "write"
		case "lstat", "fstat":
			op = "stat"
		}
		if !elig[op] {
			return
		}
		base := filepath.Base(c.Path)
		if op == "create" && (strings.HasPrefix(base, "nbs_manifest_") || strings.HasPrefix(base, "nbs_table_") || strings.HasPrefix(c.Path, "tmp/") || strings.HasPrefix(base, ".dolt_prune_probe_")) {
			return // temp-file creation runs under a process-wide mutex
		}
		s.YieldHere(op + ":" + fileClass(c.Path, c.Path2))
	}

	published := map[string]bool{} // roots acknowledged by any writer
	writer := func(id int) func(*core.Task) {
		return func(tk *core.Task) {
			sos.SetActor(id + 1)
			st, err := open()
			if err != nil {
				res.Violate("open-failed", "actor=writer", 0, "%s", firstLine(err))
				return
			}
			defer func() { sos.SetActor(id + 1); st.Close() }()
			r := core.NewRand(b.Seed ^ uint64(id+1)*104729)
			for it := 0; it < b.Iters; it++ {
				tk.Yield("writer-iter")
				sos.SetActor(id + 1)
				if err := st.Rebase(ctx); err != nil {
					res.Probe("writer_rebase_error")
					continue
				}
				cur, _ := st.Root(ctx)
				var kids []hash.Hash
				if !cur.IsEmpty() {
					kids = append(kids, cur)
				}
				for k := 0; k < r.Range(1, 6); k++ {
					c := chunks.NewChunk(EncodeChunk(nil, r.Intn(300), r.Uint64(), false))
					sos.SetActor(id + 1)
					if err := st.Put(ctx, c, GetAddrsCurry); err != nil {
						res.Probe("writer_put_error")
					}
					kids = append(kids, c.Hash())
				}
				rc := chunks.NewChunk(EncodeChunk(kids, 4, r.Uint64(), false))
				sos.SetActor(id + 1)
				st.Put(ctx, rc, GetAddrsCurry)
				sos.SetActor(id + 1)
				ok, err := st.Commit(ctx, rc.Hash(), cur)
				switch {
				case err != nil && errors.Is(err, nbs.ErrManifestSpecMissingTableFile):
					res.Fault("update-refused-missing-table-file")
				case err != nil:
					res.Probe("writer_commit_error:" + firstLine(err)[:min(50, len(firstLine(err)))])
				case ok:
					published[rc.Hash().String()] = true
					res.Probe("writer_commit_ok")
				default:
					res.Fault("cas-contention")
				}
			}
		}
	}
	conjoiner := func(tk *core.Task) {
		sos.SetActor(10)
		st, err := open()
		if err != nil {
			return
		}
		defer func() { sos.SetActor(10); st.Close() }()
		for it := 0; it < b.Iters; it++ {
			tk.Yield("conjoin-iter")
			sos.SetActor(10)
			if err := st.Rebase(ctx); err != nil {
				continue
			}
			srcs, err := st.Sources(ctx)
			if err != nil {
				continue
			}
			var ids []hash.Hash
			for _, tf := range srcs.TableFiles {
				if id, ok := hash.MaybeParse(tf.FileID()); ok {
					ids = append(ids, id)
				}
			}
			if len(ids) < 2 {
				continue
			}
			sos.SetActor(10)
			if _, err := st.ConjoinTableFiles(ctx, ids); err != nil {
				res.Probe("conjoin_error:" + firstLine(err)[:min(50, len(firstLine(err)))])
			} else {
				res.Fault("conjoin")
			}
		}
	}
	collector := func(tk *core.Task) {
		sos.SetActor(11)
		st, err := open()
		if err != nil {
			return
		}
		defer func() { sos.SetActor(11); st.Close() }()
		for it := 0; it < b.Iters; it++ {
			tk.Yield("gc-iter")
			sos.SetActor(11)
			if err := st.Rebase(ctx); err != nil {
				continue
			}
			sos.SetActor(11)
			err := gcSingle(ctx, st, nil, chunks.GCConfig{Mode: chunks.GCMode_Full, ArchiveLevel: chunks.GCArchiveLevel(it % 2)}, &GCHooks{Phase: func(string) { tk.Yield("gc-phase"); sos.SetActor(11) }})
			// NomsBlockStore.PruneTableFiles is deliberately NOT called here: it protects only the
			// files its own process has open or pending and is unsafe against writers in other
			// processes by design (that is what the grace-period prune exists for).
			if err != nil && !errors.Is(err, chunks.ErrNothingToCollect) {
				res.Probe("gc_error:" + firstLine(err)[:min(50, len(firstLine(err)))])
			} else if err == nil {
				res.Fault("gc-swap")
			}
		}
	}
	pruner := func(tk *core.Task) {
		sos.SetActor(12)
		st, err := open()
		if err != nil {
			return
		}
		defer func() { sos.SetActor(12); st.Close() }()
		for it := 0; it < 2*b.Iters+2; it++ {
			tk.Yield("prune-iter")
			sos.SetActor(12)
			if err := st.Rebase(ctx); err != nil {
				continue
			}
			sos.SetActor(12)
			stats, err := st.PruneUnreferencedWithGrace(ctx, time.Duration(b.GraceMS)*time.Millisecond)
			if err != nil {
				res.Probe("prune_error:" + firstLine(err)[:min(50, len(firstLine(err)))])
				continue
			}
			if stats.FilesDeleted > 0 {
				res.FaultN("grace-prune-unlinked", stats.FilesDeleted)
			}
			if len(stats.Skipped) > 0 {
				res.Probe("grace_prune_skipped")
			}
		}
	}
	s.OnRelease = func(t *core.Task) { sos.SetActor(t.Actor) }
	for i := 0; i < b.Writers; i++ {
		s.Go(fmt.Sprintf("writer%d", i), writer(i)).Actor = i + 1
	}
	if b.Conjoin {
		s.Go("conjoiner", conjoiner).Actor = 10
	}
	if b.GC {
		s.Go("gc", collector).Actor = 11
	}
	if b.Prune {
		s.Go("pruner", pruner).Actor = 12
	}
	if b.Only == nil {
		if msg := s.Run(); msg != "" {
			res.Panic = "scheduler: " + msg + "\n" + strings.Join(s.Trace, "\n")
			return res
		}
	} else {
		if msg := s.Run(); msg != "" {
			res.Panic = "scheduler: " + msg
			return res
		}
	}
	sos.Yield = nil
	sos.AfterEvent = nil
	res.ProbeN("live_invariant_checks", events)
	// a published root must still be fully readable at the end, unless a later GC/commit replaced it
	{
		sos.SetActor(90)
		st, err := open()
		if err != nil {
			res.Violate("final-open-failed", "-", 0, "%s", firstLine(err))
		} else {
			rt, _ := st.Root(ctx)
			seen := hash.NewHashSet()
			if !rt.IsEmpty() {
				stack := []hash.Hash{rt}
				for len(stack) > 0 {
					h := stack[len(stack)-1]
					stack = stack[:len(stack)-1]
					if seen.Has(h) {
						continue
					}
					seen.Insert(h)
					c, err := st.Get(ctx, h)
					if err != nil || c.IsEmpty() {
						res.Violate("final-root-closure-broken", "-", 0, "root %s: chunk %s unreadable at the end (err=%v)", short(rt), short(h), err)
						break
					}
					kids, _ := DecodeKids(c.Data())
					stack = append(stack, kids...)
				}
			}
			// every root chunk names the root it replaced, so the final root's closure holds every root
			// whose commit was acknowledged: a manifest update by a conjoin or a collection that puts an
			// older root back loses acknowledged commits
			if !res.Violated() {
				for _, h := range core.SortedKeys(published) {
					if hh, ok := hash.MaybeParse(h); ok && !seen.Has(hh) {
						res.Violate("acknowledged-commit-lost", "final-root="+map[bool]string{true: "empty", false: "older-or-foreign"}[rt.IsEmpty()], 0, "commit of root %s was acknowledged to a writer, the final root %s does not descend from it (%d roots acknowledged, %d chunks under the final root)", short(hh), short(rt), len(published), seen.Size())
						break
					}
				}
			}
			st.Close()
		}
	}

	// ---- part 2: crash images ------------------------------------------------------------------
	log := sos.Log()
	if os.Getenv("DSIM_DUMPLOG") != "" {
		for i := range log {
			e := &log[i]
			fmt.Fprintf(os.Stderr, "%4d %-8s a=%d %s %s ino=%d off=%d len=%d %s %s\n", i, e.Kind, e.Actor, e.Path, e.Path2, e.Ino, e.Off, len(e.Data), e.Label, e.Aux)
		}
		for _, tl := range s.Trace {
			fmt.Fprintln(os.Stderr, tl)
		}
	}
	b.Sched = s.Decisions() // a pinned crash image needs the schedule that produced this log
	if !res.Violated() || b.Only != nil {
		c05Crash(ctx, sc, &b, log, res)
	}

	res.Ops = len(log)
	res.LogHash = s.Hash()
	res.FaultN("context-switch", s.Switches)
	res.FaultN("clock-advance", s.TimeAdv)
	if s.Switches > 0 && res.Probes["writer_commit_ok"] > 0 {
		res.CaseHashes = append(res.CaseHashes, core.Hash64(s.Hash()))
	} else {
		res.Trivial++
	}
	if res.Evaluations == 0 {
		res.Evaluations = 1
	}
	if res.Violated() {
		for _, v := range res.Violations {
			if len(v.Pinned) == 0 {
				b2 := b
				b2.Sched = s.Decisions()
				v.Pinned, _ = json.Marshal(b2)
			}
		}
	}
	res.Sample = map[string]any{"writers": b.Writers, "conjoin": b.Conjoin, "gc": b.GC, "prune": b.Prune, "grace_ms": b.GraceMS, "yield_ops": b.YieldOps, "oplog_events": len(log), "switches": s.Switches}
	return res
}

// c05Crash enumerates crash images around manifest updates and table-file publications.
func c05Crash(ctx context.Context, sc *core.Scenario, b *C05Body, log []simos.Event, res *core.Result) {
	// complete manifest versions: the content of every temp manifest at the moment it was renamed
	versions := map[string]bool{}
	inoData := map[int][]byte{}
	var positions []int
	for i := range log {
		e := &log[i]
		switch e.Kind {
		case simos.EvCreate:
			inoData[e.Ino] = nil
		case simos.EvWrite:
			d := inoData[e.Ino]
			end := int(e.Off) + len(e.Data)
			if len(d) < end {
				d = append(d, make([]byte, end-len(d))...)
			}
			copy(d[e.Off:], e.Data)
			inoData[e.Ino] = d
		case simos.EvRename:
			if filepath.Base(e.Path2) == nbs.DsimManifestFileName {
				// find the inode that was at e.Path
				for j := i - 1; j >= 0; j-- {
					if log[j].Kind == simos.EvCreate && log[j].Path == e.Path {
						versions[string(inoData[log[j].Ino])] = true
						break
					}
				}
			}
		}
		fc := fileClass(e.Path, e.Path2)
		if e.Kind != simos.EvMarker && e.Kind != simos.EvFault && (fc == "manifest" || fc == "temp-manifest" || fc == "table-file" || e.Kind == simos.EvSyncDir || strings.HasPrefix(filepath.Base(e.Path), "nbs_table_")) {
			positions = append(positions, i+1)
		}
	}
	if len(positions) == 0 {
		return
	}
	variants := []simos.Variant{
		{Name: "lose-all-unsynced", Dirs: "durable", Default: simos.FileVariant{Mode: "durable"}},
		{Name: "keep-all", Dirs: "all", Default: simos.FileVariant{Mode: "all"}},
		{Name: "names-only", Dirs: "all", Default: simos.FileVariant{Mode: "durable"}},
		{Name: "dirs-durable+data-all", Dirs: "durable", Default: simos.FileVariant{Mode: "all"}},
	}
	type cs struct {
		pos int
		v   simos.Variant
	}
	var cases []cs
	if b.Only != nil {
		cases = []cs{{b.Only.Pos, b.Only.Variant}}
	} else {
		r := core.NewRand(sc.Seed ^ 0xc05)
		stride := 1
		if len(positions)*len(variants) > b.Images {
			stride = (len(positions)*len(variants) + b.Images - 1) / b.Images
		}
		off := r.Intn(stride)
		for pi, p := range positions {
			if pi%stride != off {
				continue
			}
			for _, v := range variants {
				cases = append(cases, cs{p, v})
			}
		}
	}
	imgRoot := newScratch("c05img")
	os.Mkdir(imgRoot, 0o755)
	defer simos.RemoveTree(imgRoot)
	seen := map[string]bool{}
	m := simos.Replay(log, 0)
	at := 0
	for ci, c := range cases {
		if c.pos < at {
			m = simos.Replay(log, 0)
			at = 0
		}
		for at < c.pos {
			m.Apply(&log[at])
			at++
		}
		img := m.Build(c.v, sc.Seed)
		ih := imageHash(img)
		if seen[ih] && b.Only == nil {
			continue
		}
		seen[ih] = true
		pin := func(v *core.Violation) {
			if v != nil {
				b2 := *b
				b2.Only = &CrashSpec{Pos: c.pos, Variant: c.v}
				v.Pinned, _ = json.Marshal(b2)
			}
		}
		res.Evaluations++
		res.Fault("crash:" + c.v.Name)
		res.CaseHashes = append(res.CaseHashes, core.Hash64("img", ih))
		mb, ok := img.Files["db/"+nbs.DsimManifestFileName]
		if !ok {
			continue // no manifest persisted yet
		}
		names, okp := parseManifestBytes(mb)
		if !okp || !versions[string(mb)] {
			pin(res.Violate("manifest-not-a-complete-version", "when=crash;variant="+c.v.Name, c.pos, "crash at %d (%s), %s: the persisted manifest is not one of the versions an update wrote completely (%d bytes)", c.pos, describePos(log, c.pos), c.v.Name, len(mb)))
			continue
		}
		missing := ""
		for _, n := range names {
			if _, ok := img.Files["db/"+n]; ok {
				continue
			}
			if _, ok := img.Files["db/"+n+".darc"]; ok {
				continue
			}
			missing = n
			break
		}
		if missing != "" {
			pin(res.Violate("manifest-names-missing-file", "when=crash;variant="+c.v.Name, c.pos, "crash at %d (%s), %s: the persisted manifest names %s which is not in the directory", c.pos, describePos(log, c.pos), c.v.Name, missing))
			continue
		}
		// the named files must read back completely
		dirp := filepath.Join(imgRoot, fmt.Sprint(ci))
		if err := img.Materialize(dirp); err != nil {
			res.Panic = err.Error()
			return
		}
		for _, n := range names {
			fn := n
			if _, ok := img.Files["db/"+n]; !ok {
				fn = n + ".darc"
			}
			if _, _, err := nbs.DsimReadTableFile(ctx, filepath.Join(dirp, "db"), fn); err != nil {
				pin(res.Violate("manifest-names-damaged-file", "when=crash;variant="+c.v.Name, c.pos, "crash at %d (%s), %s: table file %s named by the persisted manifest does not read back: %s", c.pos, describePos(log, c.pos), c.v.Name, fn, firstLine(err)))
				break
			}
		}
		simos.RemoveTree(dirp)
		if len(res.Violations) >= 5 {
			return
		}
	}
}

func (C05) Shrinks(sc *core.Scenario) []*core.Scenario {
	var b C05Body
	if json.Unmarshal(sc.Body, &b) != nil || len(b.Sched) == 0 || b.Only != nil {
		return nil
	}
	var out []*core.Scenario
	for w := len(b.Sched) / 2; w >= 1; w /= 2 {
		for i := 0; i+w <= len(b.Sched); i += w {
			changed := false
			ns := append([]int(nil), b.Sched...)
			for k := i; k < i+w; k++ {
				if ns[k] != 0 {
					ns[k] = 0
					changed = true
				}
			}
			if changed {
				nb := b
				nb.Sched = ns
				raw, _ := json.Marshal(nb)
				c := *sc
				c.Body = raw
				out = append(out, &c)
			}
		}
		if len(out) > 60 {
			break
		}
	}
	return out
}
