package store

import (
	"testing"

	"dsim/core"
)

var registry = map[string]core.Harness{
	"C02": C02{},
	"C03": C03{},
	"C01": C01{},
	"C04": C04{},
	"C05": C05{},
	"C06": C06{},
	"C07": C07{},
	"C10": C10{},
	"C41": C41{},
	"C42": C42{},
}

func TestSim(t *testing.T) { core.WorkerMain(t, registry) }
