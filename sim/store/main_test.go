package store

import (
	"testing"

	"dsim/core"
)

var registry = map[string]core.Harness{
	"C03": C03{},
}

func TestSim(t *testing.T) { core.WorkerMain(t, registry) }
