package store

import (
	"bytes"
	"context"
	"encoding/binary"
	"encoding/json"
	"fmt"
	"hash/crc32"
	"os"
	"path/filepath"
	"syscall"
	"testing"

	"dsim/core"
	"dsim/simos"

	"github.com/dolthub/dolt/go/store/chunks"
	"github.com/dolthub/dolt/go/store/hash"
	"github.com/dolthub/dolt/go/store/nbs"
	"github.com/dolthub/fslock"
)

// C04 — the journal index never changes what the database contains.

type C04 struct{}

type IdxVariant struct {
	Kind string `json:"kind"` // truncate | flip | empty | random | stale | other | swap-ranges | shift-offset | length | addr-recrc | end-recrc | eio
	A    int    `json:"a,omitempty"`
	B    int    `json:"b,omitempty"`
	Mask byte   `json:"mask,omitempty"`
}

type C04Body struct {
	J      JBody       `json:"j"`
	Other  JBody       `json:"other"` // a second, unrelated history whose index is used as a foreign index
	Only   *IdxVariant `json:"only,omitempty"`
	OnlyRO *bool       `json:"only_ro,omitempty"`
	MaxVar int         `json:"max_variants"`
}

func (C04) Generate(seed uint64, tier string) *core.Scenario {
	r := core.NewRand(seed)
	b := C04Body{}
	b.J = genJournalHistory(r, 40)
	// make several index batches likely
	if r.Chance(3, 4) {
		b.J.Cfg.MaxNovel = []int{2, 3, 5}[r.Intn(3)]
	}
	// always end some histories with uncommitted puts (partial trailing batch) — the generator does that naturally
	b.Other = genJournalHistory(r, 12)
	b.Other.Cfg = b.J.Cfg
	b.MaxVar = 900
	if tier == "thorough" {
		b.MaxVar = 6000
	}
	raw, _ := json.Marshal(b)
	return &core.Scenario{Property: "C04", Harness: "C04", Seed: seed, Tier: tier, Body: raw}
}

const (
	idxLookupSz = 1 + 16 + 8 + 4
	idxMetaSz   = 1 + 8 + 8 + 4 + 20
)

type idxRec struct {
	off  int
	meta bool
}

var crcTable = crc32.MakeTable(crc32.Castagnoli)

// parseIdx splits an index file into records (stops at the first malformed / partial one).
func parseIdx(b []byte) []idxRec {
	var out []idxRec
	off := 0
	for off < len(b) {
		switch b[off] {
		case 0:
			if off+idxLookupSz > len(b) {
				return out
			}
			out = append(out, idxRec{off, false})
			off += idxLookupSz
		case 1:
			if off+idxMetaSz > len(b) {
				return out
			}
			out = append(out, idxRec{off, true})
			off += idxMetaSz
		default:
			return out
		}
	}
	return out
}

// idxField names the field of the index that byte i belongs to.
func idxField(b []byte, i int) string {
	for _, r := range parseIdx(b) {
		if r.meta {
			if i >= r.off && i < r.off+idxMetaSz {
				switch d := i - r.off; {
				case d == 0:
					return "meta.tag"
				case d < 9:
					return "meta.start"
				case d < 17:
					return "meta.end"
				case d < 21:
					return "meta.crc"
				default:
					return "meta.root"
				}
			}
		} else if i >= r.off && i < r.off+idxLookupSz {
			switch d := i - r.off; {
			case d == 0:
				return "lookup.tag"
			case d < 17:
				return "lookup.addr"
			case d < 25:
				return "lookup.offset"
			default:
				return "lookup.length"
			}
		}
	}
	return "trailing-partial"
}

// recrc recomputes every batch checksum the way the format defines it (CRC over the 16-byte
// address prefixes of the batch), so that a deliberately wrong index is "checksummed but wrong".
func recrc(b []byte) {
	var crc uint32
	for _, r := range parseIdx(b) {
		if !r.meta {
			crc = crc32.Update(crc, crcTable, b[r.off+1:r.off+17])
		} else {
			binary.BigEndian.PutUint32(b[r.off+17:], crc)
			crc = 0
		}
	}
}

type storeView struct {
	openErr  string
	root     hash.Hash
	present  []int8 // per universe chunk: 1 readable with right bytes, 0 absent, -1 error, -2 wrong bytes
	count    uint32
	mode     int
	panicMsg string
}

// safeGet converts a panic inside the store into a value: a crash of the process on a read is
// itself an observable difference.
func safeGet(ctx context.Context, st *nbs.NomsBlockStore, h hash.Hash) (c chunks.Chunk, err error, pan string) {
	defer func() {
		if r := recover(); r != nil {
			pan = fmt.Sprint(r)
		}
	}()
	c, err = st.Get(ctx, h)
	return
}

func viewStore(ctx context.Context, dir string, u *Universe, opts nbs.JournalingStoreOptions, res *core.Result) storeView {
	var v storeView
	var warn int
	st, err := nbs.NewLocalJournalingStoreWithOptions(ctx, "__DOLT__", dir, nbs.NewUnlimitedMemQuotaProvider(), nbs.DsimMmapArchiveIndexes, func(error) { warn++ }, opts)
	if err != nil {
		v.openErr = firstLine(err)
		return v
	}
	defer st.Close()
	v.root, err = st.Root(ctx)
	if err != nil {
		v.openErr = firstLine(err)
		return v
	}
	if warn > 0 {
		res.Probe("open_warned")
	}
	v.mode = int(st.AccessMode())
	v.count, _ = st.Count(ctx)
	v.present = make([]int8, len(u.Chunks))
	for i, c := range u.Chunks {
		got, err, pan := safeGet(ctx, st, c.Addr)
		switch {
		case pan != "":
			v.present[i] = -3
			v.panicMsg = pan
		case err != nil:
			v.present[i] = -1
		case got.IsEmpty():
			// an empty payload is a legitimate chunk; Has disambiguates
			if ok, _ := st.Has(ctx, c.Addr); ok && len(c.Data) == 0 {
				v.present[i] = 1
			}
		case bytes.Equal(got.Data(), c.Data):
			v.present[i] = 1
		default:
			v.present[i] = -2
		}
	}
	return v
}

func (a storeView) diff(b storeView, u *Universe) string {
	if a.openErr != b.openErr {
		return fmt.Sprintf("open: %q vs %q", a.openErr, b.openErr)
	}
	if a.openErr != "" {
		return ""
	}
	if a.root != b.root {
		return fmt.Sprintf("root %s vs %s", short(a.root), short(b.root))
	}
	for i := range a.present {
		if a.present[i] != b.present[i] {
			return fmt.Sprintf("chunk #%d %s: %s without index, %s with this index %s", i, short(u.Chunks[i].Addr), presName(a.present[i]), presName(b.present[i]), b.panicMsg)
		}
	}
	return ""
}

func presName(p int8) string {
	switch p {
	case 1:
		return "readable"
	case 0:
		return "absent"
	case -1:
		return "read error"
	case -3:
		return "PANIC"
	}
	return "WRONG BYTES"
}

func (C04) Execute(t *testing.T, sc *core.Scenario) *core.Result {
	res := &core.Result{}
	var b C04Body
	if err := json.Unmarshal(sc.Body, &b); err != nil {
		res.Panic = "bad scenario body: " + err.Error()
		return res
	}
	ctx := context.Background()
	restore := applyJCfg(b.J.Cfg)
	defer restore()

	// 1. produce the journal + index by running the history (and the foreign one)
	build := func(jb *JBody, tag string) (*Universe, *simos.Image, [][]byte, bool) {
		root := newScratch("c04" + tag)
		sos, err := simos.New(root)
		if err != nil {
			res.Panic = err.Error()
			return nil, nil, nil, false
		}
		defer simos.RemoveTree(root)
		sos.Install()
		defer simos.Uninstall()
		var snaps [][]byte
		onClose = func(dir string) {
			if d, err := os.ReadFile(filepath.Join(dir, indexName)); err == nil {
				snaps = append(snaps, d)
			}
		}
		defer func() { onClose = nil }()
		u, err := runJournalHistory(ctx, sos, jb, res)
		if err != nil {
			res.Panic = "history failed: " + err.Error()
			return nil, nil, nil, false
		}
		log := sos.Log()
		img := simos.Replay(log, len(log)).Build(simos.Variant{Dirs: "all", Default: simos.FileVariant{Mode: "all"}}, 0)
		return u, img, snaps, true
	}
	u, img, snaps, ok := build(&b.J, "a")
	if !ok {
		return res
	}
	_, img2, _, ok := build(&b.Other, "b")
	if !ok {
		return res
	}
	idx := img.Files["db/"+indexName]
	jrn := img.Files["db/"+journalName]
	if len(jrn) == 0 {
		res.Probe("history_without_journal")
		res.Evaluations = 1
		res.Trivial = 1
		return res
	}
	recs := parseIdx(idx)
	nmeta := 0
	for _, r := range recs {
		if r.meta {
			nmeta++
		}
	}
	res.ProbeN("index_batches", nmeta)
	if len(recs) > 0 && !recs[len(recs)-1].meta {
		res.Probe("index_partial_trailing_batch")
	}
	res.Ops = len(b.J.Ops)

	work := newScratch("c04w")
	if err := os.Mkdir(work, 0o755); err != nil {
		res.Panic = err.Error()
		return res
	}
	defer simos.RemoveTree(work)
	n := 0
	mat := func(index []byte, withIndex bool) string {
		n++
		dir := filepath.Join(work, fmt.Sprint(n))
		im := &simos.Image{Dirs: img.Dirs, Files: map[string][]byte{}}
		for p, d := range img.Files {
			im.Files[p] = d
		}
		delete(im.Files, "db/"+indexName)
		if withIndex {
			im.Files["db/"+indexName] = index
		}
		if err := im.Materialize(dir); err != nil {
			res.Panic = err.Error()
			return ""
		}
		return dir
	}

	// 2. reference: no index at all
	refDir := mat(nil, false)
	ref := viewStore(ctx, filepath.Join(refDir, "db"), u, nbs.JournalingStoreOptions{}, res)
	simos.RemoveTree(refDir)
	if ref.openErr != "" {
		res.Panic = "reference open (no index) failed: " + ref.openErr
		return res
	}
	readable := 0
	for _, p := range ref.present {
		if p == 1 {
			readable++
		}
	}
	res.ProbeN("reference_readable_chunks", readable)

	// 3. variants
	var vars []IdxVariant
	if b.Only != nil {
		vars = []IdxVariant{*b.Only}
	} else {
		vr := core.NewRand(sc.Seed ^ 0xc04)
		vars = append(vars, IdxVariant{Kind: "empty"}, IdxVariant{Kind: "valid"}, IdxVariant{Kind: "eio"})
		for i := 0; i < 3; i++ {
			vars = append(vars, IdxVariant{Kind: "random", A: []int{7, 29, 41, 200, 1000}[vr.Intn(5)], B: int(vr.Uint64() >> 40)})
		}
		for i := range snaps {
			vars = append(vars, IdxVariant{Kind: "stale", A: i})
		}
		vars = append(vars, IdxVariant{Kind: "other"})
		// structured, checksummed-but-wrong
		var lk []int
		for i, r := range recs {
			if !r.meta {
				lk = append(lk, i)
			}
		}
		for i := 0; i < 12 && len(lk) >= 2; i++ {
			x, y := lk[vr.Intn(len(lk))], lk[vr.Intn(len(lk))]
			if x != y {
				vars = append(vars, IdxVariant{Kind: "swap-ranges", A: x, B: y})
			}
		}
		for i := 0; i < 8 && len(lk) >= 1; i++ {
			vars = append(vars, IdxVariant{Kind: "shift-offset", A: lk[vr.Intn(len(lk))], B: []int{1, -1, 4, 57, -33}[vr.Intn(5)]})
			vars = append(vars, IdxVariant{Kind: "length", A: lk[vr.Intn(len(lk))], B: []int{1, -1, 5}[vr.Intn(3)]})
			vars = append(vars, IdxVariant{Kind: "addr-recrc", A: lk[vr.Intn(len(lk))], B: vr.Intn(16), Mask: byte(1 << vr.Intn(8))})
			vars = append(vars, IdxVariant{Kind: "drop-lookup-recrc", A: lk[vr.Intn(len(lk))]})
		}
		// meta.end re-pointed at every other root record of the journal (the meta record itself
		// carries no checksum; only the root hash found at the new offset is compared)
		{
			offs, _, kinds, _ := nbs.DsimParseJournal(jrn)
			var rootOffs []int64
			for i := range offs {
				if kinds[i] == 1 {
					rootOffs = append(rootOffs, offs[i])
				}
			}
			cnt := 0
			for i := len(recs) - 1; i >= 0 && cnt < 24; i-- {
				if !recs[i].meta {
					continue
				}
				cur := int64(binary.BigEndian.Uint64(idx[recs[i].off+9:]))
				for _, ro := range rootOffs {
					if ro != cur && cnt < 24 {
						vars = append(vars, IdxVariant{Kind: "end-repoint", A: i, B: int(ro)})
						cnt++
					}
				}
			}
		}
		// byte-level: every truncation point and every byte flipped for small indexes, sampled otherwise
		budget := b.MaxVar - len(vars)
		if budget < 50 {
			budget = 50
		}
		if 2*len(idx) <= budget {
			for t := 0; t < len(idx); t++ {
				vars = append(vars, IdxVariant{Kind: "truncate", A: t})
			}
			for i := 0; i < len(idx); i++ {
				vars = append(vars, IdxVariant{Kind: "flip", A: i, Mask: []byte{0x01, 0x80, 0xff, 0x10}[i%4]})
			}
			res.Probe("index_bytes_enumerated_exhaustively")
		} else if len(idx) > 0 {
			for k := 0; k < budget/2; k++ {
				vars = append(vars, IdxVariant{Kind: "truncate", A: vr.Intn(len(idx))})
				vars = append(vars, IdxVariant{Kind: "flip", A: vr.Intn(len(idx)), Mask: byte(1 << vr.Intn(8))})
			}
		}
	}

	for vi, v := range vars {
		content, with, field := c04Content(v, idx, snaps, img2.Files["db/"+indexName], recs)
		if content == nil && with {
			continue // variant not applicable to this index
		}
		for _, ro := range []bool{false, true} {
			if b.OnlyRO != nil && *b.OnlyRO != ro {
				continue
			}
			dir := mat(content, with)
			if dir == "" {
				return res
			}
			dbDir := filepath.Join(dir, "db")
			var got storeView
			var mutated []string
			func() {
				sos, err := simos.New(dir)
				if err != nil {
					res.Panic = err.Error()
					return
				}
				sos.Install()
				defer simos.Uninstall()
				if v.Kind == "eio" {
					sos.Fault = func(c *simos.Call) error {
						if (c.Op == "read" || c.Op == "readat") && filepath.Base(c.Path) == indexName {
							return syscall.EIO
						}
						return nil
					}
				}
				if ro {
					// another process holds the exclusive lock; it never touches the index
					sos.SetActor(1)
					lk, err := fslock.New(filepath.Join(dbDir, nbs.DsimLockFileName))
					if err != nil {
						res.Panic = err.Error()
						return
					}
					if err := lk.TryLock(); err != nil {
						res.Panic = "lock holder: " + err.Error()
						return
					}
					defer func() { lk.Unlock(); lk.Close() }()
					sos.SetActor(2)
					start := sos.LogLen()
					got = viewStore(ctx, dbDir, u, nbs.JournalingStoreOptions{SkipLockFileTimeout: true}, res)
					for _, e := range sos.Log()[start:] {
						// fsync changes no content: "modifies a file" means create, write, truncate,
						// rename, unlink or link
						if e.Kind == simos.EvSync || e.Kind == simos.EvSyncDir {
							continue
						}
						if e.Kind != simos.EvMarker && e.Kind != simos.EvFault && e.Actor == 2 {
							// the LOCK file is opened O_CREATE by every opener: not one of "either file"
							if filepath.Base(e.Path) == nbs.DsimLockFileName {
								continue
							}
							mutated = append(mutated, fmt.Sprintf("%s %s", e.Kind, filepath.Base(e.Path)+filepath.Base(e.Path2)))
						}
					}
					if got.openErr == "" && got.mode != 2 {
						res.Panic = fmt.Sprintf("expected a read-only open, got access mode %d", got.mode)
					}
				} else {
					got = viewStore(ctx, dbDir, u, nbs.JournalingStoreOptions{}, res)
				}
			}()
			simos.RemoveTree(dir)
			if res.Panic != "" {
				return res
			}
			res.Evaluations++
			mode := "rw"
			if ro {
				mode = "ro"
			}
			res.Fault("index:" + v.Kind)
			res.CaseHashes = append(res.CaseHashes, core.Hash64(fmt.Sprint(sc.Seed), v.Kind, fmt.Sprint(v.A, v.B, v.Mask), mode))
			pin := func(viol *core.Violation) {
				if viol == nil {
					return
				}
				b2 := b
				vv := v
				b2.Only = &vv
				r2 := ro
				b2.OnlyRO = &r2
				viol.Pinned, _ = json.Marshal(b2)
			}
			forged := v.Kind == "addr-recrc" || v.Kind == "drop-lookup-recrc"
			if d := ref.diff(got, u); d != "" && forged {
				// An index whose checksums were recomputed over altered contents models a forger,
				// not a fault: no accelerator can detect it without re-reading the journal. Counted,
				// never reported (DESIGN §6.1 C04).
				res.Probe("forged_index_changes_database")
			} else if d != "" {
				class := "index-changes-database"
				if got.openErr != "" {
					class = "index-breaks-open"
				}
				key := fmt.Sprintf("variant=%s;field=%s;open=%s", v.Kind, field, mode)
				if v.Kind == "end-repoint" && v.A < len(recs) {
					// does the journal hold, at the new offset, a root record for the very hash the batch ends
					// with (the same root committed twice)? Only then can the index pass dolt's validation.
					offs, _, kinds, addrs := nbs.DsimParseJournal(jrn)
					at := map[int64]hash.Hash{}
					for i := range offs {
						if kinds[i] == 1 {
							at[offs[i]] = addrs[i]
						}
					}
					cur := int64(binary.BigEndian.Uint64(idx[recs[v.A].off+9:]))
					same := "no"
					if h, ok := at[cur]; ok && h == at[int64(v.B)] {
						same = "yes"
					}
					key += ";same-root-at-new-end=" + same
				}
				pin(res.Violate(class, key, vi,
					"index variant %+v (field %s), %s open: %s", v, field, mode, d))
			} else {
				res.Probe("same_as_no_index:" + mode)
			}
			if ro && len(mutated) > 0 {
				pin(res.Violate("read-only-open-mutated-files", fmt.Sprintf("variant=%s;what=%s", v.Kind, mutated[0]), vi,
					"read-only open with index variant %+v performed mutating file operations: %v", v, mutated))
			}
			if len(res.Violations) >= 8 {
				return res
			}
		}
	}
	res.Sample = map[string]any{"cfg": b.J.Cfg, "ops": len(b.J.Ops), "journal_bytes": len(jrn), "index_bytes": len(idx), "index_batches": nmeta, "variants": len(vars), "stale_snapshots": len(snaps)}
	return res
}

// onClose is a test hook of runJournalHistory (index snapshots for C04).
var onClose func(dir string)

// c04Content builds the index bytes for a variant. with=false means "no index file".
func c04Content(v IdxVariant, idx []byte, snaps [][]byte, other []byte, recs []idxRec) (content []byte, with bool, field string) {
	cp := func() []byte { return append([]byte(nil), idx...) }
	switch v.Kind {
	case "empty":
		return []byte{}, true, "-"
	case "valid", "eio":
		return cp(), true, "-"
	case "random":
		return core.NewRand(uint64(v.B) + 1).Bytes(v.A), true, "-"
	case "stale":
		if v.A >= len(snaps) {
			return nil, true, ""
		}
		return snaps[v.A], true, "-"
	case "other":
		if len(other) == 0 {
			return nil, true, ""
		}
		return other, true, "-"
	case "truncate":
		if v.A >= len(idx) {
			return nil, true, ""
		}
		return cp()[:v.A], true, idxField(idx, v.A)
	case "flip":
		if v.A >= len(idx) {
			return nil, true, ""
		}
		c := cp()
		c[v.A] ^= v.Mask
		return c, true, idxField(idx, v.A)
	case "swap-ranges":
		if v.A >= len(recs) || v.B >= len(recs) || recs[v.A].meta || recs[v.B].meta {
			return nil, true, ""
		}
		c := cp()
		a, bb := recs[v.A].off+17, recs[v.B].off+17
		var tmp [12]byte
		copy(tmp[:], c[a:a+12])
		copy(c[a:a+12], c[bb:bb+12])
		copy(c[bb:bb+12], tmp[:])
		return c, true, "lookup.offset+length"
	case "shift-offset":
		if v.A >= len(recs) || recs[v.A].meta {
			return nil, true, ""
		}
		c := cp()
		o := recs[v.A].off + 17
		binary.BigEndian.PutUint64(c[o:], uint64(int64(binary.BigEndian.Uint64(c[o:]))+int64(v.B)))
		return c, true, "lookup.offset"
	case "length":
		if v.A >= len(recs) || recs[v.A].meta {
			return nil, true, ""
		}
		c := cp()
		o := recs[v.A].off + 25
		binary.BigEndian.PutUint32(c[o:], uint32(int64(binary.BigEndian.Uint32(c[o:]))+int64(v.B)))
		return c, true, "lookup.length"
	case "end-repoint":
		if v.A >= len(recs) || !recs[v.A].meta {
			return nil, true, ""
		}
		c := cp()
		binary.BigEndian.PutUint64(c[recs[v.A].off+9:], uint64(v.B))
		return c, true, "meta.end"
	case "addr-recrc":
		if v.A >= len(recs) || recs[v.A].meta {
			return nil, true, ""
		}
		c := cp()
		c[recs[v.A].off+1+v.B%16] ^= v.Mask
		recrc(c)
		return c, true, "lookup.addr(recomputed crc)"
	case "drop-lookup-recrc":
		if v.A >= len(recs) || recs[v.A].meta {
			return nil, true, ""
		}
		c := cp()
		o := recs[v.A].off
		c = append(c[:o], c[o+idxLookupSz:]...)
		recrc(c)
		return c, true, "lookup(removed, recomputed crc)"
	}
	return nil, true, ""
}

func (C04) Shrinks(sc *core.Scenario) []*core.Scenario {
	var b C04Body
	if json.Unmarshal(sc.Body, &b) != nil {
		return nil
	}
	var out []*core.Scenario
	for i := range b.J.Ops {
		nb := b
		nb.Only = nil
		nb.OnlyRO = nil
		nb.J.Ops = append(append([]JOp(nil), b.J.Ops[:i]...), b.J.Ops[i+1:]...)
		raw, _ := json.Marshal(nb)
		c := *sc
		c.Body = raw
		out = append(out, &c)
	}
	return out
}
