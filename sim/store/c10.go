package store

import (
	"bytes"
	"context"
	"encoding/json"
	"fmt"
	"os"
	"path/filepath"
	"runtime/debug"
	"sort"
	"strings"
	"sync"
	"testing"

	"dsim/core"
	"dsim/simos"

	"github.com/dolthub/dolt/go/store/chunks"
	"github.com/dolthub/dolt/go/store/hash"
	"github.com/dolthub/dolt/go/store/nbs"
)

// C10 — corrupted storage files are reported, never misread.

type C10 struct{}

type Corruption struct {
	File string `json:"file"`
	Kind string `json:"kind"` // flip | truncate | zero4k | multi
	Off  int    `json:"off"`
	Mask byte   `json:"mask,omitempty"`
	N    int    `json:"n,omitempty"`
	Seed uint64 `json:"seed,omitempty"`
}

type C10Body struct {
	W      WorldSpec `json:"world"`
	Target int       `json:"target"` // which storage file (index into the sorted list) is corrupted
	// Journal: in a journaling world, corrupt the journal itself (its records are replayed at every
	// open and decide which root the store shows)
	Journal bool        `json:"journal,omitempty"`
	MaxCase int         `json:"max_cases"`
	Only    *Corruption `json:"only,omitempty"`
}

func (C10) Generate(seed uint64, tier string) *core.Scenario {
	r := core.NewRand(seed)
	b := C10Body{}
	b.W = genWorld(r, []string{"journal", "journal", "local", "local", "local-gc", "local-archive", "local-archive", "journal-archive"}, 14, 90)
	b.Target = r.Intn(8)
	if strings.HasPrefix(b.W.Kind, "journal") && core.NewRand(seed^0xc10a).Chance(1, 2) {
		b.Journal = true
		b.W.Cfg.MaxNovel = 16384 // no index batch: the whole journal is replayed
	}
	b.MaxCase = 1600
	if tier == "thorough" {
		b.MaxCase = 12000
	}
	raw, _ := json.Marshal(b)
	return &core.Scenario{Property: "C10", Harness: "C10", Seed: seed, Tier: tier, Body: raw}
}

func fileKind(name string) string {
	b := filepath.Base(name)
	switch {
	case b == journalName:
		return "journal"
	case b == indexName:
		return "journal.idx"
	case b == nbs.DsimManifestFileName:
		return "manifest"
	case strings.HasSuffix(b, ".darc"):
		return "archive"
	case b == nbs.DsimLockFileName:
		return "LOCK"
	case len(b) == 32:
		return "table"
	}
	return "other"
}

// readOutcome is what one query returned.
type readProbe struct {
	baseline map[string]bool // (path,address) pairs that already misread on the pristine fixture
	seen     map[string]bool
	sites    []string
	panics   []string
	misreads []string
	errors   int
	absent   int
	ok       int
	// the root the store showed after a successful open
	root   hash.Hash
	rootOK bool
}

func (p *readProbe) guard(what string, f func()) {
	defer func() {
		if r := recover(); r != nil {
			msg := fmt.Sprint(r)
			if len(msg) > 200 {
				msg = msg[:200]
			}
			p.panics = append(p.panics, what+": "+msg)
			p.sites = append(p.sites, panicSite(string(debug.Stack())))
		}
	}()
	f()
}

// exerciseStore opens dir and drives every read path; it never lets a panic escape.
func exerciseStore(ctx context.Context, w *World, dir string, extra []hash.Hash, p *readProbe) {
	var st *nbs.NomsBlockStore
	p.guard("open", func() {
		var err error
		st, err = openWorld(ctx, w.Spec.Kind, dir, w.Spec.MemTable, 256)
		if err != nil {
			p.errors++
			st = nil
		}
	})
	if st == nil {
		return
	}
	defer p.guard("close", func() { st.Close() })
	p.guard("root", func() {
		if r, err := st.Root(ctx); err != nil {
			p.errors++
		} else {
			p.root, p.rootOK = r, true
		}
	})
	p.guard("count", func() { st.Count(ctx) })
	check := func(path string, h hash.Hash, data []byte) {
		want, known := w.U.ByAddr[h]
		switch {
		case known && bytes.Equal(w.U.Chunks[want].Data, data):
			p.ok++
		case hash.Of(data) == h:
			p.ok++
		case path == "IterateAllChunks" && h[16] == 0 && h[17] == 0 && h[18] == 0 && h[19] == 0 && bytes.Equal(h[:16], hashOfPrefix(data)):
			// journal chunks loaded through the index are iterated with their 16-byte address
			// prefix only (documented in journal_chunk_source.go; decided under C01, not here)
			p.ok++
		default:
			k := path + "/" + h.String()
			if p.seen == nil {
				p.seen = map[string]bool{}
			}
			p.seen[k] = true
			if p.baseline[k] {
				return // the undamaged store answers the same way: not caused by the corruption (C01's subject)
			}
			p.misreads = append(p.misreads, fmt.Sprintf("%s(%s) returned %d bytes hashing to %s", path, short(h), len(data), short(hash.Of(data))))
		}
	}
	var addrs []hash.Hash
	for _, c := range w.U.Chunks {
		addrs = append(addrs, c.Addr)
	}
	addrs = append(addrs, extra...)
	for _, h := range addrs {
		h := h
		p.guard("get", func() {
			c, err := st.Get(ctx, h)
			if err != nil {
				p.errors++
				return
			}
			if c.IsEmpty() {
				if ok, _ := st.Has(ctx, h); !ok {
					p.absent++
					return
				}
			}
			check("Get", h, c.Data())
		})
	}
	set := hash.NewHashSet(addrs...)
	p.guard("getMany", func() {
		var got []chunks.Chunk
		var mu sync.Mutex // the callback is invoked from several reader goroutines
		err := st.GetMany(ctx, set, func(_ context.Context, c *chunks.Chunk) {
			cp := chunks.NewChunkWithHash(c.Hash(), append([]byte(nil), c.Data()...))
			mu.Lock()
			got = append(got, cp)
			mu.Unlock()
		})
		if err != nil {
			p.errors++
		}
		for _, c := range got {
			check("GetMany", c.Hash(), c.Data())
		}
	})
	p.guard("getManyCompressed", func() {
		type pair struct {
			h hash.Hash
			d []byte
		}
		var got []pair
		var convErr int
		var mu sync.Mutex
		err := st.GetManyCompressed(ctx, set, func(_ context.Context, tc nbs.ToChunker) {
			c, err := tc.ToChunk()
			mu.Lock()
			defer mu.Unlock()
			if err != nil {
				convErr++
				return
			}
			got = append(got, pair{tc.Hash(), append([]byte(nil), c.Data()...)})
		})
		if err != nil || convErr > 0 {
			p.errors++
		}
		for _, g := range got {
			check("GetManyCompressed", g.h, g.d)
		}
	})
	p.guard("hasMany", func() {
		if _, err := st.HasMany(ctx, set); err != nil {
			p.errors++
		}
	})
	p.guard("iterate", func() {
		var got []chunks.Chunk
		err := st.IterateAllChunks(ctx, func(c chunks.Chunk) {
			// the callback may be handed a buffer the iterator reuses: copy
			got = append(got, chunks.NewChunkWithHash(c.Hash(), append([]byte(nil), c.Data()...)))
		})
		if err != nil {
			p.errors++
		}
		for _, c := range got {
			check("IterateAllChunks", c.Hash(), c.Data())
		}
	})
}

func (C10) Execute(t *testing.T, sc *core.Scenario) *core.Result {
	res := &core.Result{}
	var b C10Body
	if err := json.Unmarshal(sc.Body, &b); err != nil {
		res.Panic = "bad scenario body: " + err.Error()
		return res
	}
	ctx := context.Background()
	restore := applyJCfg(b.W.Cfg)
	defer restore()
	base := newScratch("c10")
	if err := os.Mkdir(base, 0o755); err != nil {
		res.Panic = err.Error()
		return res
	}
	defer simos.RemoveTree(base)
	w, err := buildWorld(ctx, b.W, filepath.Join(base, "w"))
	if err != nil {
		res.Panic = "building the fixture failed: " + err.Error()
		return res
	}
	files, dirs, err := readDirFiles(w.Dir)
	if err != nil {
		res.Panic = err.Error()
		return res
	}
	// The fixture is built by the real writers; the garbage collector that produces archives and
	// collected table files copies chunks with goroutines of its own, and the order in which they
	// deliver decides the layout of the file (about one build in twelve differs). A chunk file's name
	// is the hash of its content, so a replay that names the file it corrupts rebuilds the fixture
	// until that very file exists: same name, same bytes.
	if b.Only != nil && b.Only.File != "" {
		for try := 0; len(files[b.Only.File]) == 0 && try < 400; try++ {
			simos.RemoveTree(w.Dir)
			if w, err = buildWorld(ctx, b.W, filepath.Join(base, "w")); err != nil {
				res.Panic = "building the fixture failed: " + err.Error()
				return res
			}
			if files, dirs, err = readDirFiles(w.Dir); err != nil {
				res.Panic = err.Error()
				return res
			}
			res.Probe("fixture_rebuilt_for_pinned_file")
		}
		if len(files[b.Only.File]) == 0 {
			res.Panic = "the fixture never produced the file the replay names: " + b.Only.File
			return res
		}
	}
	var targets []string
	for p := range files {
		// journal.idx is not one of the statement's files ("table files, archives, journal or
		// manifest"); its corruption is C04's subject
		if k := fileKind(p); k != "LOCK" && k != "other" && k != "journal.idx" && len(files[p]) > 0 {
			targets = append(targets, p)
		}
	}
	sort.Strings(targets)
	if len(targets) == 0 {
		res.Panic = "fixture has no storage files"
		return res
	}
	// sanity: the pristine fixture must read back completely
	var pristineRoot hash.Hash
	pristineRootOK := false
	{
		var p readProbe
		exerciseStore(ctx, w, w.Dir, nil, &p)
		if len(p.panics)+len(p.misreads) > 0 || p.errors > 0 {
			res.Panic = fmt.Sprintf("pristine fixture does not read back: %+v", p)
			return res
		}
		pristineRoot, pristineRootOK = p.root, p.rootOK
	}
	target := targets[b.Target%len(targets)]
	if b.Journal {
		for _, t := range targets {
			if fileKind(t) == "journal" {
				target = t
			}
		}
	}
	if b.Only != nil && b.Only.File != "" {
		target = b.Only.File
	}
	orig := files[target]
	kind := fileKind(target)
	res.Probe("target:" + kind)
	res.Probe("world:" + b.W.Kind)

	var cases []Corruption
	if b.Only != nil {
		cases = []Corruption{*b.Only}
	} else {
		r := core.NewRand(sc.Seed ^ 0xc10)
		n := len(orig)
		if 2*n <= b.MaxCase {
			for i := 0; i < n; i++ {
				cases = append(cases, Corruption{File: target, Kind: "flip", Off: i, Mask: []byte{0x01, 0x80, 0x04, 0xff, 0x20}[i%5]})
			}
			for i := 0; i < n; i++ {
				cases = append(cases, Corruption{File: target, Kind: "truncate", Off: i})
			}
			res.Probe("file_enumerated_exhaustively:" + kind)
		} else {
			for k := 0; k < b.MaxCase/2; k++ {
				cases = append(cases, Corruption{File: target, Kind: "flip", Off: r.Intn(n), Mask: byte(1 << r.Intn(8))})
				cases = append(cases, Corruption{File: target, Kind: "truncate", Off: r.Intn(n)})
			}
		}
		for k := 0; k < 40; k++ {
			cases = append(cases, Corruption{File: target, Kind: "multi", Off: r.Intn(n), N: r.Range(2, 9), Seed: r.Uint64()})
		}
		for o := 0; o < n; o += 4096 {
			cases = append(cases, Corruption{File: target, Kind: "zero4k", Off: o})
		}
		if kind == "journal" {
			// every bit of every record's length field: a length that is wrong in a plausible way decides
			// where the reader looks next - for the end of the record, and for what follows the damage
			offs, _, _, _ := nbs.DsimParseJournal(orig)
			for _, o := range offs {
				for byteIdx := 0; byteIdx < 4; byteIdx++ {
					for bit := 0; bit < 8; bit++ {
						cases = append(cases, Corruption{File: target, Kind: "flip", Off: int(o) + byteIdx, Mask: byte(1 << bit)})
					}
				}
			}
			res.Probe("journal_length_fields_enumerated")
		}
	}

	for ci, c := range cases {
		if b.Only == nil && ci < core.SkipCases {
			continue
		}
		d := append([]byte(nil), orig...)
		var extra []hash.Hash
		switch c.Kind {
		case "flip":
			if c.Off >= len(d) {
				continue
			}
			d[c.Off] ^= c.Mask
			// addresses adjacent to the stored ones under this very mask: a damaged index entry
			// could make the store answer for them
			for _, ch := range w.U.Chunks {
				for pos := 0; pos < hash.ByteLen; pos++ {
					extra = append(extra, flipAddr(ch.Addr, pos, c.Mask))
				}
			}
		case "truncate":
			if c.Off >= len(d) {
				continue
			}
			d = d[:c.Off]
		case "zero4k":
			for i := c.Off; i < c.Off+4096 && i < len(d); i++ {
				d[i] = 0
			}
		case "multi":
			rr := core.NewRand(c.Seed)
			for k := 0; k < c.N; k++ {
				d[(c.Off+rr.Intn(64))%len(d)] ^= byte(1 << rr.Intn(8))
			}
		}
		if bytes.Equal(d, orig) {
			continue
		}
		dir := filepath.Join(base, fmt.Sprintf("c%d", ci))
		img := &simos.Image{Dirs: dirs, Files: map[string][]byte{}}
		for p, fb := range files {
			img.Files[p] = fb
		}
		img.Files[target] = d
		if err := img.Materialize(dir); err != nil {
			res.Panic = err.Error()
			return res
		}
		p := readProbe{}
		if len(extra) > 0 {
			// what does the undamaged store say about these adjacent addresses?
			var p0 readProbe
			exerciseStore(ctx, w, w.Dir, extra, &p0)
			p.baseline = p0.seen
			if len(p0.seen) > 0 {
				res.Probe("pristine_store_answers_for_adjacent_address")
			}
		}
		{
			b2 := b
			cc := c
			b2.Only = &cc
			pinned, _ := json.Marshal(b2)
			core.ArmSentinel(sc, pinned, ci, "panic-on-corrupted-file", fmt.Sprintf("file=%s", kind),
				fmt.Sprintf("%s %s at offset %d/%d (mask %#x) of %s", c.Kind, kind, c.Off, len(orig), c.Mask, target))
		}
		exerciseStore(ctx, w, dir, extra, &p)
		core.DisarmSentinel()
		simos.RemoveTree(dir)
		res.Evaluations++
		res.Fault("corrupt:" + kind + ":" + c.Kind)
		res.CaseHashes = append(res.CaseHashes, core.Hash64(fmt.Sprint(sc.Seed), target, c.Kind, fmt.Sprint(c.Off, c.Mask, c.N, c.Seed)))
		if p.errors > 0 {
			res.Probe("reported_as_error")
		} else if p.absent > 0 {
			res.Probe("stored_chunk_absent_without_error")
		} else {
			res.Probe("read_correctly_despite_damage")
		}
		pin := func(v *core.Violation) {
			if v != nil {
				b2 := b
				cc := c
				b2.Only = &cc
				v.Pinned, _ = json.Marshal(b2)
			}
		}
		if len(p.panics) > 0 {
			pin(res.Violate("panic-on-corrupted-file", fmt.Sprintf("file=%s;panic_in=%s", kind, p.sites[0]), ci,
				"%s %s at offset %d/%d (mask %#x) of %s: %s", c.Kind, kind, c.Off, len(orig), c.Mask, target, p.panics[0]))
		}
		// a damaged record in the middle of the journal that is followed by committed data (a valid root
		// record that is itself followed by a valid record - dolt's own criterion for "not a torn tail")
		// has to be reported; opening without error at an older root drops acknowledged commits silently
		if kind == "journal" && c.Kind == "flip" && p.rootOK && p.errors == 0 && len(p.panics) == 0 && pristineRootOK && p.root != pristineRoot {
			if k, pairs := journalDamageFollowedByCommits(orig, c.Off); pairs > 0 {
				pin(res.Violate("journal-damage-silently-truncated", "file=journal;field="+journalField(orig, c.Off), ci,
					"%s journal at offset %d/%d (mask %#x), inside record %d which is followed by %d valid root record(s) that are followed by another valid record: the store opens without error and shows root %s instead of %s", c.Kind, c.Off, len(orig), c.Mask, k, pairs, short(p.root), short(pristineRoot)))
			} else {
				res.Probe("journal_tail_damage_dropped_silently")
			}
		}
		if len(p.misreads) > 0 {
			path, _, _ := strings.Cut(p.misreads[0], "(")
			pin(res.Violate("misread-on-corrupted-file", fmt.Sprintf("file=%s;path=%s;region=%s", kind, path, region(kind, orig, c.Off)), ci,
				"%s %s at offset %d/%d (mask %#x) of %s: %s", c.Kind, kind, c.Off, len(orig), c.Mask, target, p.misreads[0]))
		}
		if len(res.Violations) >= 8 {
			break
		}
	}
	res.Ops = len(cases)
	res.Sample = map[string]any{"world": b.W.Kind, "chunks": len(w.U.Chunks), "files": targets, "target": target, "target_bytes": len(orig), "cases": len(cases)}
	return res
}

// region names the part of a file an offset falls in (coarse, for violation keys).
func region(kind string, orig []byte, off int) string {
	n := len(orig)
	switch kind {
	case "table":
		// footer is the last 20 bytes (chunk count, total uncompressed size, magic)
		if off >= n-20 {
			return "footer"
		}
		return "body-or-index"
	case "archive":
		if off >= n-64 {
			return "footer"
		}
		return "body-or-index"
	}
	return "-"
}

func (C10) Shrinks(sc *core.Scenario) []*core.Scenario { return nil }

// journalDamageFollowedByCommits: the record of the undamaged journal that offset off falls in, and the
// number of root records after it that are followed by another valid record.
func journalDamageFollowedByCommits(orig []byte, off int) (rec int, pairs int) {
	offs, lens, kinds, _ := nbs.DsimParseJournal(orig)
	rec = -1
	for i := range offs {
		if int64(off) >= offs[i] && int64(off) < offs[i]+int64(lens[i]) {
			rec = i
		}
	}
	if rec < 0 {
		return -1, 0
	}
	for i := rec + 1; i+1 < len(offs); i++ {
		if kinds[i] == 1 {
			pairs++
		}
	}
	return rec, pairs
}

// journalField names the part of a journal record an offset falls in (length field, or the rest).
func journalField(orig []byte, off int) string {
	offs, lens, _, _ := nbs.DsimParseJournal(orig)
	for i := range offs {
		if int64(off) >= offs[i] && int64(off) < offs[i]+int64(lens[i]) {
			if int64(off) < offs[i]+4 {
				return "length"
			}
			return "body-or-checksum"
		}
	}
	return "-"
}

func hashOfPrefix(data []byte) []byte {
	h := hash.Of(data)
	return h[:16]
}

// panicSite returns the first dolt function below the panic in a stack trace.
func panicSite(stack string) string {
	lines := strings.Split(stack, "\n")
	seenPanic := false
	for _, l := range lines {
		if strings.HasPrefix(l, "panic(") {
			seenPanic = true
			continue
		}
		if seenPanic && strings.HasPrefix(l, "github.com/dolthub/dolt/go/") {
			f := strings.TrimPrefix(l, "github.com/dolthub/dolt/go/")
			if i := strings.LastIndex(f, "("); i > 0 {
				f = f[:i]
			}
			return f
		}
	}
	return "unknown"
}
