package store

import (
	"bytes"
	"context"
	"encoding/hex"
	"encoding/json"
	"errors"
	"fmt"
	"os"
	"path/filepath"
	"strings"
	"syscall"
	"testing"

	"dsim/core"
	"dsim/simos"

	"github.com/dolthub/dolt/go/store/chunks"
	"github.com/dolthub/dolt/go/store/constants"
	"github.com/dolthub/dolt/go/store/hash"
	"github.com/dolthub/dolt/go/store/nbs"
)

// C06 — table files and archives round-trip any chunk set. Claimed for the I/O surface: the
// writers run on a disk that fails (ENOSPC, EIO, short write, fsync error); whatever ends up under
// a final table/archive name must read back completely, and a reported success must be a complete
// round trip.

type C06 struct{}

type C06Op struct {
	Kind string `json:"kind"` // put | commit | gc | gc-archive | conjoin
	C    []int  `json:"c,omitempty"`
	Root int    `json:"root,omitempty"`
}

type C06Body struct {
	MemTable uint64      `json:"mem_table"`
	MaxTab   int         `json:"max_tables"`
	Chunks   []ChunkSpec `json:"chunks"`
	Ops      []C06Op     `json:"ops"`
	// FaultEvery > 0: roughly one in FaultEvery eligible file operations fails (fault-injecting
	// configuration); 0 = fault-free configuration with the exact round-trip oracle.
	FaultEvery int    `json:"fault_every"`
	FaultSeed  uint64 `json:"fault_seed"`
	// Mmap: archives opened from disk read their index through the memory-mapped reader
	Mmap bool `json:"mmap,omitempty"`
}

func (C06) Generate(seed uint64, tier string) *core.Scenario {
	r := core.NewRand(seed)
	b := C06Body{}
	b.MemTable = uint64([]int{512, 2 << 10, 16 << 10}[r.Intn(3)])
	b.MaxTab = []int{2, 3, 4, 256}[r.Intn(4)]
	b.Mmap = r.Chance(1, 2)
	if r.Chance(1, 2) {
		b.FaultEvery = []int{6, 15, 40}[r.Intn(3)]
		b.FaultSeed = r.Uint64()
	}
	maxSz := int(b.MemTable)/2 - 120
	if maxSz > 3000 {
		maxSz = 3000
	}
	var durable, pending []int
	last := -1
	var coll []int
	for i := range prefixCollisions {
		if r.Chance(1, 2) {
			b.Chunks = append(b.Chunks, ChunkSpec{Raw: hex.EncodeToString(prefixCollisions[i][0])}, ChunkSpec{Raw: hex.EncodeToString(prefixCollisions[i][1])})
			coll = append(coll, len(b.Chunks)-2, len(b.Chunks)-1)
		}
	}
	nops := r.Range(6, 40)
	if len(coll) >= 4 && r.Chance(1, 2) {
		// directed: every chosen pair of addresses that share their first 8 bytes goes into one commit
		// with few other chunks, and the store is collected into an archive at once: runs of equal
		// prefixes at the top, the bottom and the middle of a small index, read through the reader an
		// archive opened from disk gets
		cs := append([]int(nil), coll...)
		for i := r.Intn(5); i > 0; i-- {
			b.Chunks = append(b.Chunks, ChunkSpec{Size: r.Intn(min(200, maxSz)), Fill: r.Uint64(), Comp: r.Chance(1, 2)})
			cs = append(cs, len(b.Chunks)-1)
		}
		b.Ops = append(b.Ops, C06Op{Kind: "put", C: cs})
		b.Chunks = append(b.Chunks, ChunkSpec{Size: 6, Fill: r.Uint64(), Kids: cs})
		root := len(b.Chunks) - 1
		last = root
		durable = append(durable, append(cs, root)...)
		b.Ops = append(b.Ops, C06Op{Kind: "put", C: []int{root}}, C06Op{Kind: "commit", Root: root}, C06Op{Kind: "gc-archive"})
		nops += 4
	}
	for len(b.Ops) < nops {
		switch x := r.Intn(100); {
		case x < 45:
			var cs []int
			for i := 0; i < r.Range(1, 8); i++ {
				switch y := r.Intn(12); {
				case y == 0 && len(coll) > 0:
					cs = append(cs, coll[r.Intn(len(coll))])
				case y == 1 && len(durable)+len(pending) > 0:
					all := append(append([]int(nil), durable...), pending...)
					cs = append(cs, all[r.Intn(len(all))]) // duplicate write
				case y == 2:
					b.Chunks = append(b.Chunks, ChunkSpec{Size: 0, Fill: r.Uint64()})
					cs = append(cs, len(b.Chunks)-1)
				default:
					sz := r.Intn(min(200, maxSz))
					if r.Chance(1, 5) {
						sz = r.Intn(maxSz)
					}
					b.Chunks = append(b.Chunks, ChunkSpec{Size: sz, Fill: r.Uint64(), Comp: r.Chance(1, 2)})
					cs = append(cs, len(b.Chunks)-1)
				}
			}
			pending = append(pending, cs...)
			b.Ops = append(b.Ops, C06Op{Kind: "put", C: cs})
		case x < 75:
			kids := append([]int(nil), pending...)
			if last >= 0 {
				kids = append(kids, last)
			}
			if lim := (int(b.MemTable)/2 - 100) / 20; len(kids) > lim {
				kids = kids[len(kids)-lim:] // the root chunk itself has to fit the memtable
			}
			b.Chunks = append(b.Chunks, ChunkSpec{Size: 6, Fill: r.Uint64(), Kids: kids})
			root := len(b.Chunks) - 1
			last = root
			durable = append(append(durable, pending...), root)
			pending = nil
			b.Ops = append(b.Ops, C06Op{Kind: "put", C: []int{root}}, C06Op{Kind: "commit", Root: root})
		case x < 85:
			if last >= 0 && len(pending) == 0 {
				b.Ops = append(b.Ops, C06Op{Kind: []string{"gc", "gc-archive"}[r.Intn(2)]})
			}
		default:
			b.Ops = append(b.Ops, C06Op{Kind: "conjoin"})
		}
	}
	raw, _ := json.Marshal(b)
	return &core.Scenario{Property: "C06", Harness: "C06", Seed: seed, Tier: tier, Body: raw}
}

func isTableName(base string) bool {
	if strings.HasSuffix(base, ".darc") {
		base = strings.TrimSuffix(base, ".darc")
	}
	_, ok := hash.MaybeParse(base)
	return ok && len(base) == 32 && base != journalName
}

func (C06) Execute(t *testing.T, sc *core.Scenario) *core.Result {
	res := &core.Result{}
	var b C06Body
	if err := json.Unmarshal(sc.Body, &b); err != nil {
		res.Panic = "bad scenario body: " + err.Error()
		return res
	}
	ctx := context.Background()
	oldMmap := nbs.DsimMmapArchiveIndexes
	nbs.DsimMmapArchiveIndexes = b.Mmap
	defer func() { nbs.DsimMmapArchiveIndexes = oldMmap }()
	if b.Mmap {
		res.Probe("knob:mmap-archive-indexes")
	}
	root := newScratch("c06")
	sos, err := simos.New(root)
	if err != nil {
		res.Panic = err.Error()
		return res
	}
	defer simos.RemoveTree(root)
	sos.Install()
	defer simos.Uninstall()
	dir := filepath.Join(root, "db")
	os.Mkdir(dir, 0o755)
	u := BuildUniverse(b.Chunks)
	open := func() (*nbs.NomsBlockStore, error) {
		return nbs.DsimNewLocalStore(ctx, constants.FormatDefaultString, dir, b.MemTable, b.MaxTab, nbs.NewUnlimitedMemQuotaProvider())
	}
	st, err := open()
	if err != nil {
		res.Panic = "open: " + err.Error()
		return res
	}
	defer func() {
		if st != nil {
			st.Close()
		}
	}()
	fr := core.NewRand(b.FaultSeed)
	armed := false
	fired := 0
	if b.FaultEvery > 0 {
		sos.Fault = func(c *simos.Call) error {
			if !armed || !c.Mut {
				return nil
			}
			base := filepath.Base(c.Path)
			if c.Path2 != "" {
				base = filepath.Base(c.Path2)
			}
			// only the table / archive writers: their temp files and final names
			if !(strings.HasPrefix(base, "nbs_table_") || isTableName(base) || strings.HasSuffix(filepath.Base(c.Path), ".darc")) {
				return nil
			}
			if !fr.Chance(1, b.FaultEvery) {
				return nil
			}
			fired++
			switch c.Op {
			case "write", "writeat":
				switch fr.Intn(3) {
				case 0:
					res.Fault("write-enospc")
					return syscall.ENOSPC
				case 1:
					res.Fault("write-eio")
					return syscall.EIO
				default:
					res.Fault("short-write")
					n := 0
					if c.Len > 1 {
						n = fr.Intn(c.Len)
					}
					return simos.ShortWrite{N: n, Err: syscall.ENOSPC}
				}
			case "fsync":
				res.Fault("fsync-eio")
				return syscall.EIO
			case "rename":
				res.Fault("rename-eio")
				return syscall.EIO
			case "create":
				res.Fault("create-enospc")
				return syscall.ENOSPC
			}
			return nil
		}
	}
	committed := map[int]bool{}
	var pending []int
	var persistedRoot hash.Hash
	sig := core.NewSig()

	// verifyFiles: every file under a final table / archive name must read back completely.
	verifyFiles := func(step int, after string) {
		ents, err := os.ReadDir(dir)
		if err != nil {
			return
		}
		for _, e := range ents {
			if e.IsDir() || !isTableName(e.Name()) {
				continue
			}
			got, count, err := nbs.DsimReadTableFile(ctx, dir, e.Name())
			res.Evaluations++
			kind := "table"
			if strings.HasSuffix(e.Name(), ".darc") {
				kind = "archive"
			}
			if err != nil {
				res.Violate("final-named-file-unreadable", "file="+kind+";after="+after, step, "%s exists under its final name but does not read back: %s", e.Name(), firstLine(err))
				continue
			}
			if int(count) != len(got) {
				// duplicates inside one file would make count > distinct addresses
				res.Violate("chunk-count-mismatch", "file="+kind, step, "%s reports %d chunks, iteration yields %d distinct", e.Name(), count, len(got))
			}
			for h, d := range got {
				if hash.Of(d) != h {
					res.Violate("file-chunk-wrong-bytes", "file="+kind, step, "%s: chunk %s holds bytes hashing to %s", e.Name(), short(h), short(hash.Of(d)))
					break
				}
			}
		}
	}
	// verifyCommitted: an independent instance must read every committed chunk byte for byte, and
	// report adjacent absent addresses absent.
	verifyCommitted := func(step int, after string) {
		v, err := open()
		if err != nil {
			res.Violate("second-open-failed", "after="+after, step, "%s", firstLine(err))
			return
		}
		defer v.Close()
		r, err := v.Root(ctx)
		if err != nil || r != persistedRoot {
			res.Violate("persisted-root-unexpected", "after="+after, step, "root %s want %s err=%v", short(r), short(persistedRoot), err)
			return
		}
		for ci := range committed {
			c := u.Chunks[ci]
			got, err := v.Get(ctx, c.Addr)
			if err != nil {
				res.Violate("committed-chunk-unreadable", "after="+after, step, "#%d %s: %s", ci, short(c.Addr), firstLine(err))
				return
			}
			if !bytes.Equal(got.Data(), c.Data) {
				res.Violate("committed-chunk-wrong", "after="+after, step, "#%d %s: got %d bytes want %d", ci, short(c.Addr), len(got.Data()), len(c.Data))
				return
			}
			adj := flipAddr(c.Addr, 19, 1)
			if _, known := u.ByAddr[adj]; !known {
				if ok, _ := v.Has(ctx, adj); ok {
					res.Violate("absent-address-reported-present", "after="+after, step, "%s (adjacent to stored %s)", short(adj), short(c.Addr))
					return
				}
			}
		}
		res.Evaluations++
	}
	reopen := func(step int) bool {
		armed = false
		if st != nil {
			st.Close()
		}
		st = nil
		pending = nil
		var err error
		st, err = open()
		if err != nil {
			res.Violate("reopen-after-fault-failed", "-", step, "%s", firstLine(err))
			return false
		}
		return true
	}

	for i, op := range b.Ops {
		sig.Add(op.Kind)
		before := fired
		armed = b.FaultEvery > 0
		var opErr error
		switch op.Kind {
		case "put":
			for _, ci := range op.C {
				if ci < 0 || ci >= len(u.Chunks) {
					continue
				}
				ci = u.Canon(ci)
				c := u.Chunks[ci]
				if len(c.Kids) > 0 {
					// see the commit case: do not write a chunk whose children were lost in a restart
					have := map[int]bool{}
					for _, pi := range pending {
						have[pi] = true
					}
					ok := true
					for _, k := range c.Kids {
						ki, known := u.ByAddr[k]
						if !known || !(have[ki] || committed[ki]) {
							ok = false
						}
					}
					if !ok {
						res.Probe("put_skipped_children_lost_in_restart")
						continue
					}
				}
				if err := st.Put(ctx, chunks.NewChunkWithHash(c.Addr, c.Data), GetAddrsCurry); err != nil {
					opErr = err
					break
				}
				pending = append(pending, ci)
			}
		case "commit":
			if op.Root < 0 || op.Root >= len(u.Chunks) {
				continue
			}
			// after a fault-induced restart the generator's idea of what was written is stale: a
			// root whose children were lost with the memtable is not committed (it would only
			// exercise the dangling-reference rejection, which is C07's subject)
			{
				have := map[int]bool{}
				for _, ci := range pending {
					have[ci] = true
				}
				closed := have[u.Canon(op.Root)] || committed[u.Canon(op.Root)]
				for _, k := range u.Chunks[u.Canon(op.Root)].Kids {
					ki, ok := u.ByAddr[k]
					if !ok || !(have[ki] || committed[ki]) {
						closed = false
					}
				}
				if !closed {
					res.Probe("commit_skipped_children_lost_in_restart")
					continue
				}
			}
			cur, err := st.Root(ctx)
			if err != nil {
				opErr = err
				break
			}
			ok, err := st.Commit(ctx, u.Chunks[u.Canon(op.Root)].Addr, cur)
			nbs.DsimWaitConjoin(st)
			if err != nil {
				opErr = err
				break
			}
			if ok {
				persistedRoot = u.Chunks[u.Canon(op.Root)].Addr
				for _, ci := range pending {
					committed[ci] = true
				}
				pending = nil
				res.Probe("commit_ok")
			}
		case "gc", "gc-archive":
			if persistedRoot.IsEmpty() || len(pending) > 0 {
				continue
			}
			cfg := chunks.GCConfig{Mode: chunks.GCMode_Full, ArchiveLevel: chunks.NoArchive}
			if op.Kind == "gc-archive" {
				cfg.ArchiveLevel = chunks.SimpleArchive
			}
			err := gcSingle(ctx, st, nil, cfg, nil)
			if err == nil {
				err = st.PruneTableFiles(ctx)
			}
			if err != nil && !errors.Is(err, chunks.ErrNothingToCollect) {
				opErr = err
			} else if err == nil {
				res.Probe(op.Kind + "_ok")
				reach, _ := u.Closure(persistedRoot)
				keep := map[int]bool{}
				for _, x := range reach {
					keep[x] = true
				}
				for ci := range committed {
					if !keep[ci] {
						delete(committed, ci)
					}
				}
			}
		case "conjoin":
			srcs, err := st.Sources(ctx)
			if err != nil {
				opErr = err
				break
			}
			var ids []hash.Hash
			for _, tf := range srcs.TableFiles {
				if id, ok := hash.MaybeParse(tf.FileID()); ok {
					ids = append(ids, id)
				}
			}
			if len(ids) >= 2 {
				if _, err := st.ConjoinTableFiles(ctx, ids); err != nil {
					opErr = err
				} else {
					res.Probe("conjoin_ok")
				}
			}
		}
		armed = false
		injected := fired > before
		if opErr != nil {
			sig.Add("err")
			if !injected {
				res.Violate("error-without-fault", "op="+op.Kind, i, "%s failed although no fault was injected: %s", op.Kind, firstLine(opErr))
			} else {
				res.Probe("op_failed_after_injected_fault")
			}
			// production would stop here; restart the store
			if !reopen(i) {
				return res
			}
			// the persisted root may have moved if the failure came after the manifest update
			if r, err := st.Root(ctx); err == nil && r != persistedRoot {
				if idx, ok := u.ByAddr[r]; ok {
					persistedRoot = r
					reach, _ := u.Closure(r)
					for _, x := range reach {
						committed[x] = true
					}
					_ = idx
					res.Probe("root_moved_despite_reported_failure")
				}
			}
		} else if injected {
			res.Probe("op_succeeded_despite_injected_fault")
		}
		verifyFiles(i, op.Kind)
		if op.Kind != "put" {
			verifyCommitted(i, op.Kind)
		}
		if len(res.Violations) >= 5 {
			break
		}
	}
	res.Ops = len(b.Ops)
	res.LogHash = sig.Sum()
	if fired > 0 {
		res.CaseHashes = append(res.CaseHashes, core.Hash64(sig.Sum(), fmt.Sprint(fired)))
	} else if res.Probes["conjoin_ok"]+res.Probes["gc_ok"]+res.Probes["gc-archive_ok"] > 0 {
		res.CaseHashes = append(res.CaseHashes, core.Hash64(sig.Sum()))
	} else {
		res.Trivial = 1
	}
	if res.Evaluations == 0 {
		res.Evaluations = 1
	}
	res.Sample = map[string]any{"mem_table": b.MemTable, "max_tables": b.MaxTab, "fault_every": b.FaultEvery, "ops": len(b.Ops), "chunks": len(b.Chunks), "faults_fired": fired}
	return res
}

func (C06) Shrinks(sc *core.Scenario) []*core.Scenario {
	var b C06Body
	if json.Unmarshal(sc.Body, &b) != nil {
		return nil
	}
	var out []*core.Scenario
	for i := range b.Ops {
		nb := b
		nb.Ops = append(append([]C06Op(nil), b.Ops[:i]...), b.Ops[i+1:]...)
		raw, _ := json.Marshal(nb)
		c := *sc
		c.Body = raw
		out = append(out, &c)
	}
	return out
}
