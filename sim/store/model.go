// Package store holds the dsim harnesses that need only go/store/** (binary dsim-store).
package store

import (
	"context"
	"encoding/binary"
	"encoding/hex"
	"fmt"
	"sort"

	"dsim/core"

	"github.com/dolthub/dolt/go/store/chunks"
	"github.com/dolthub/dolt/go/store/hash"
)

// ChunkSpec describes a harness chunk: its payload is a pure function of the spec and of the
// addresses of the chunks it references, so a scenario file is self-contained.
type ChunkSpec struct {
	Size int    `json:"size"`           // filler bytes
	Fill uint64 `json:"fill"`           // filler seed
	Comp bool   `json:"comp,omitempty"` // compressible filler
	Kids []int  `json:"kids,omitempty"` // indexes of earlier chunks referenced by this one
	// Dangle adds references to addresses that are never written (C07).
	Dangle int `json:"dangle,omitempty"`
	// Raw, when set, is the complete payload in hex (prefix-collision fixtures).
	Raw string `json:"raw,omitempty"`
}

const chunkMagic = 0xD5

// MChunk is a materialised model chunk.
type MChunk struct {
	Addr hash.Hash
	Data []byte
	Kids []hash.Hash
}

// Universe materialises chunk specs in order.
type Universe struct {
	Specs  []ChunkSpec
	Chunks []MChunk
	ByAddr map[hash.Hash]int
}

func BuildUniverse(specs []ChunkSpec) *Universe {
	u := &Universe{Specs: specs, ByAddr: map[hash.Hash]int{}}
	for i, s := range specs {
		var kids []hash.Hash
		for _, k := range s.Kids {
			if k >= 0 && k < i {
				kids = append(kids, u.Chunks[k].Addr)
			}
		}
		for d := 0; d < s.Dangle; d++ {
			var h hash.Hash
			binary.LittleEndian.PutUint64(h[:], s.Fill+uint64(d)+1)
			binary.LittleEndian.PutUint64(h[8:], 0xdead0000dead0000+uint64(i))
			kids = append(kids, h)
		}
		data := EncodeChunk(kids, s.Size, s.Fill, s.Comp)
		if s.Raw != "" {
			data, _ = hex.DecodeString(s.Raw)
			kids = nil
		}
		c := MChunk{Addr: hash.Of(data), Data: data, Kids: kids}
		u.Chunks = append(u.Chunks, c)
		if _, dup := u.ByAddr[c.Addr]; !dup {
			u.ByAddr[c.Addr] = i // identical payloads share one address: the first index is canonical
		}
	}
	return u
}

// EncodeChunk builds a payload: magic, kid count (uint16), kids, filler.
func EncodeChunk(kids []hash.Hash, size int, fill uint64, comp bool) []byte {
	b := make([]byte, 0, 3+20*len(kids)+size)
	b = append(b, chunkMagic, byte(len(kids)), byte(len(kids)>>8))
	for _, k := range kids {
		b = append(b, k[:]...)
	}
	if comp {
		for i := 0; i < size; i++ {
			b = append(b, byte(fill)+byte(i/64))
		}
	} else {
		b = append(b, core.NewRand(fill).Bytes(size)...)
	}
	return b
}

// DecodeKids reads the child list back from a payload (the harness's address walker).
func DecodeKids(data []byte) ([]hash.Hash, error) {
	if len(data) == 0 {
		return nil, nil
	}
	if len(data) < 3 || data[0] != chunkMagic {
		return nil, fmt.Errorf("not a dsim chunk")
	}
	n := int(data[1]) | int(data[2])<<8
	if len(data) < 3+20*n {
		return nil, fmt.Errorf("short dsim chunk")
	}
	out := make([]hash.Hash, n)
	for i := range out {
		copy(out[i][:], data[3+20*i:])
	}
	return out, nil
}

// GetAddrsCurry is the InsertAddrsCurry handed to Put / AddTableFilesToManifest.
func GetAddrsCurry(c chunks.Chunk) chunks.InsertAddrsCb {
	return func(ctx context.Context, addrs hash.HashSet, _ chunks.PendingRefExists) error {
		kids, err := DecodeKids(c.Data())
		if err != nil {
			return err
		}
		for _, k := range kids {
			addrs.Insert(k)
		}
		return nil
	}
}

// GetAddrs is the chunks.GetAddrs walker used for GC.
func GetAddrs(c chunks.Chunk, cb func(a hash.Hash) error) error {
	kids, err := DecodeKids(c.Data())
	if err != nil {
		return err
	}
	for _, k := range kids {
		if err := cb(k); err != nil {
			return err
		}
	}
	return nil
}

// Closure returns the indexes reachable from root (by the model's graph), sorted; unknown
// addresses (dangling) are reported in missing.
func (u *Universe) Closure(root hash.Hash) (idx []int, missing []hash.Hash) {
	seen := map[int]bool{}
	var stack []hash.Hash
	stack = append(stack, root)
	for len(stack) > 0 {
		h := stack[len(stack)-1]
		stack = stack[:len(stack)-1]
		i, ok := u.ByAddr[h]
		if !ok {
			missing = append(missing, h)
			continue
		}
		if seen[i] {
			continue
		}
		seen[i] = true
		stack = append(stack, u.Chunks[i].Kids...)
	}
	for i := range seen {
		idx = append(idx, i)
	}
	sort.Ints(idx)
	return
}

// Canon maps a chunk index to the canonical index of its address.
func (u *Universe) Canon(i int) int { return u.ByAddr[u.Chunks[i].Addr] }

func short(h hash.Hash) string { return h.String()[:8] }
