package store

import (
	"bytes"
	"context"
	"encoding/hex"
	"encoding/json"
	"errors"
	"fmt"
	"os"
	"path/filepath"
	"sort"
	"sync"
	"syscall"
	"testing"
	"testing/synctest"

	"dsim/core"
	"dsim/simos"

	"github.com/dolthub/dolt/go/store/chunks"
	"github.com/dolthub/dolt/go/store/constants"
	"github.com/dolthub/dolt/go/store/hash"
	"github.com/dolthub/dolt/go/store/nbs"
)

// C01 — chunk reads return exactly the bytes stored under that address, on every read path and in
// every store configuration, across flush, conjoin, GC, generation moves and reopen.

type C01 struct{}

type C01Op struct {
	Kind string `json:"kind"` // put | commit | read | rebase | reopen | gc | gc-archive | conjoin | readfault
	C    []int  `json:"c,omitempty"`
	Root int    `json:"root,omitempty"`
	Seed uint64 `json:"seed,omitempty"` // address-set seed for reads
}

type C01Body struct {
	Config   string      `json:"config"` // mem | local | journal | gen-journal | gen-local
	MemTable uint64      `json:"mem_table"`
	MaxTab   int         `json:"max_tables"`
	Cfg      JCfg        `json:"cfg"`
	Chunks   []ChunkSpec `json:"chunks"`
	Ops      []C01Op     `json:"ops"`
	Faults   bool        `json:"faults"` // fault-injecting configuration (read EIO / short read)
}

var prefixCollisions = func() [][2][]byte {
	dir := os.Getenv("DSIM_VERIF_DIR")
	if dir == "" {
		dir = "/verif"
	}
	b, err := os.ReadFile(dir + "/fixtures/prefix_collisions.json")
	if err != nil {
		return nil
	}
	var ps []struct{ A, B string }
	if json.Unmarshal(b, &ps) != nil {
		return nil
	}
	var out [][2][]byte
	for _, p := range ps {
		a, _ := hex.DecodeString(p.A)
		bb, _ := hex.DecodeString(p.B)
		if len(a) > 0 && len(bb) > 0 {
			out = append(out, [2][]byte{a, bb})
		}
	}
	return out
}()

func (C01) Generate(seed uint64, tier string) *core.Scenario {
	r := core.NewRand(seed)
	b := C01Body{}
	b.Config = []string{"mem", "local", "local", "journal", "journal", "gen-journal", "gen-local"}[r.Intn(7)]
	b.MemTable = uint64([]int{1 << 10, 4 << 10, 64 << 10}[r.Intn(3)])
	b.MaxTab = []int{2, 3, 5, 256}[r.Intn(4)]
	b.Cfg = JCfg{BuffSize: uint32([]int{16 << 10, 64 << 10}[r.Intn(2)]), SyncThreshold: 64 << 20, MaxNovel: []int{2, 5, 16384}[r.Intn(3)], MemTable: b.MemTable, MmapArchives: r.Chance(1, 2)}
	b.Faults = r.Chance(1, 3) && b.Config != "mem"
	maxChunk := int(b.MemTable)/2 - 200
	if maxChunk > 5000 {
		maxChunk = 5000
	}
	nops := r.Range(8, 60)
	if tier == "thorough" {
		nops = r.Range(8, 120)
	}
	var durable, pending []int
	lastRoot := -1
	nl := func() int { return len(durable) + len(pending) }
	pick := func() int {
		x := r.Intn(nl())
		if x < len(durable) {
			return durable[x]
		}
		return pending[x-len(durable)]
	}
	newChunk := func(sz int, kids []int) int {
		b.Chunks = append(b.Chunks, ChunkSpec{Size: sz, Fill: r.Uint64(), Comp: r.Chance(1, 3), Kids: kids})
		return len(b.Chunks) - 1
	}
	// seed the universe with prefix-collision pairs (put at random later)
	var coll []int
	for i := range prefixCollisions {
		if r.Chance(2, 3) {
			b.Chunks = append(b.Chunks, ChunkSpec{Raw: hex.EncodeToString(prefixCollisions[i][0])}, ChunkSpec{Raw: hex.EncodeToString(prefixCollisions[i][1])})
			coll = append(coll, len(b.Chunks)-2, len(b.Chunks)-1)
		}
	}
	for len(b.Ops) < nops {
		switch x := r.Intn(100); {
		case x < 30:
			n := r.Range(1, 6)
			var cs []int
			for i := 0; i < n; i++ {
				switch y := r.Intn(20); {
				case y == 0 && len(coll) > 0: // one member of a colliding pair (the other may or may not follow)
					cs = append(cs, coll[r.Intn(len(coll))])
				case y == 1 && nl() > 0: // duplicate put
					cs = append(cs, pick())
				case y == 2:
					cs = append(cs, newChunk(0, nil))
				case y == 3:
					cs = append(cs, newChunk(r.Range(maxChunk/2, maxChunk), nil))
				default:
					var kids []int
					if nl() > 0 && r.Chance(1, 2) {
						kids = []int{pick()}
					}
					cs = append(cs, newChunk(r.Intn(min(300, maxChunk)), kids))
				}
			}
			pending = append(pending, cs...)
			b.Ops = append(b.Ops, C01Op{Kind: "put", C: cs})
		case x < 45:
			var kids []int
			for i := 0; i < r.Intn(5) && nl() > 0; i++ {
				kids = append(kids, pick())
			}
			if lastRoot >= 0 {
				kids = append(kids, lastRoot)
			}
			root := newChunk(r.Intn(30), kids)
			lastRoot = root
			durable = append(append(durable, pending...), root)
			pending = nil
			b.Ops = append(b.Ops, C01Op{Kind: "put", C: []int{root}}, C01Op{Kind: "commit", Root: root})
		case x < 76:
			b.Ops = append(b.Ops, C01Op{Kind: "read", Seed: r.Uint64()})
		case x < 80:
			// a batch read that meets a collection in progress: the store asks the collector's callback
			// about every chunk it is about to hand out, a "yes" makes the read wait for the end of the
			// collection and start over
			if b.Config != "mem" && lastRoot >= 0 && len(pending) == 0 {
				b.Ops = append(b.Ops, C01Op{Kind: "gcread", Seed: r.Uint64()})
			} else {
				b.Ops = append(b.Ops, C01Op{Kind: "read", Seed: r.Uint64()})
			}
		case x < 84:
			b.Ops = append(b.Ops, C01Op{Kind: "rebase"})
		case x < 89:
			if b.Config != "mem" {
				pending = nil
				b.Ops = append(b.Ops, C01Op{Kind: "reopen"})
			}
		case x < 94:
			if b.Config != "mem" && lastRoot >= 0 && len(pending) == 0 {
				k := "gc"
				if r.Chance(1, 2) {
					k = "gc-archive"
				}
				b.Ops = append(b.Ops, C01Op{Kind: k})
				// only what the committed root reaches survives for sure
				seen := map[int]bool{}
				stack := []int{lastRoot}
				for len(stack) > 0 {
					x := stack[len(stack)-1]
					stack = stack[:len(stack)-1]
					if seen[x] {
						continue
					}
					seen[x] = true
					stack = append(stack, b.Chunks[x].Kids...)
				}
				var nd []int
				for _, d := range durable {
					if seen[d] {
						nd = append(nd, d)
					}
				}
				durable = nd
			}
		case x < 97:
			if b.Config == "local" || b.Config == "gen-local" {
				b.Ops = append(b.Ops, C01Op{Kind: "conjoin"})
			}
		default:
			if b.Faults {
				b.Ops = append(b.Ops, C01Op{Kind: "readfault", Seed: r.Uint64()})
			}
		}
	}
	b.Ops = append(b.Ops, C01Op{Kind: "read", Seed: r.Uint64()})
	raw, _ := json.Marshal(b)
	return &core.Scenario{Property: "C01", Harness: "C01", Seed: seed, Tier: tier, Body: raw}
}

// c01Store abstracts the configurations.
type c01Store struct {
	config  string
	cs      chunks.ChunkStore
	nbs     *nbs.NomsBlockStore  // single store configs
	gen     *nbs.GenerationalNBS // generational configs
	closers []func() error
}

func (s *c01Store) Close() error {
	var first error
	if s.gen != nil {
		return s.gen.Close()
	}
	if s.nbs != nil {
		return s.nbs.Close()
	}
	for _, c := range s.closers {
		if err := c(); err != nil && first == nil {
			first = err
		}
	}
	return first
}

func (s *c01Store) waitConjoin() {
	if s.nbs != nil {
		nbs.DsimWaitConjoin(s.nbs)
	}
	if s.gen != nil {
		if n, ok := s.gen.NewGen().(*nbs.NomsBlockStore); ok {
			nbs.DsimWaitConjoin(n)
		}
		if o, ok := s.gen.OldGen().(*nbs.NomsBlockStore); ok {
			nbs.DsimWaitConjoin(o)
		}
	}
}

var memStorage *chunks.MemoryStorage

func openC01(ctx context.Context, b *C01Body, dir string) (*c01Store, error) {
	q := nbs.NewUnlimitedMemQuotaProvider()
	switch b.Config {
	case "mem":
		if memStorage == nil {
			memStorage = &chunks.MemoryStorage{}
		}
		return &c01Store{cs: memStorage.NewView()}, nil
	case "local":
		st, err := nbs.DsimNewLocalStore(ctx, constants.FormatDefaultString, dir, b.MemTable, b.MaxTab, q)
		if err != nil {
			return nil, err
		}
		return &c01Store{cs: st, nbs: st}, nil
	case "journal":
		st, err := openJournal(ctx, dir, b.MemTable, nil)
		if err != nil {
			return nil, err
		}
		return &c01Store{cs: st, nbs: st}, nil
	case "gen-journal", "gen-local":
		var newGen *nbs.NomsBlockStore
		var err error
		if b.Config == "gen-journal" {
			newGen, err = openJournal(ctx, dir, b.MemTable, nil)
		} else {
			newGen, err = nbs.DsimNewLocalStore(ctx, constants.FormatDefaultString, dir, b.MemTable, b.MaxTab, q)
		}
		if err != nil {
			return nil, err
		}
		og := filepath.Join(dir, "oldgen")
		if err := os.MkdirAll(og, 0o755); err != nil {
			return nil, err
		}
		oldGen, err := nbs.DsimNewLocalStore(ctx, constants.FormatDefaultString, og, b.MemTable, 256, q)
		if err != nil {
			newGen.Close()
			return nil, err
		}
		ghost, err := nbs.NewGhostBlockStore(dir)
		if err != nil {
			newGen.Close()
			oldGen.Close()
			return nil, err
		}
		g := nbs.NewGenerationalCS(oldGen, newGen, ghost)
		return &c01Store{cs: g, gen: g}, nil
	}
	return nil, fmt.Errorf("unknown config %q", b.Config)
}

// chunkModel: what the store must contain.
type chunkModel struct {
	u         *Universe
	state     map[int]int8 // 1 = must be present, 2 = may be present or absent (uncommitted across reopen / unreachable after GC)
	committed hash.Hash
}

const (
	mustHave = 1
	mayHave  = 2
)

type readPathResult struct {
	present map[hash.Hash][]byte
	err     error
}

func copyChunk(c *chunks.Chunk) chunks.Chunk {
	return chunks.NewChunkWithHash(c.Hash(), append([]byte(nil), c.Data()...))
}

// readAll drives the five read paths over addrs and cross-checks them against the model and
// against each other. faulty relaxes: a path may return an error; it may never return wrong bytes.
func c01Read(ctx context.Context, s *c01Store, m *chunkModel, addrs []hash.Hash, faulty bool, step int, res *core.Result) {
	set := hash.NewHashSet(addrs...)
	expect := func(h hash.Hash) (state int8, data []byte, known bool) {
		i, ok := m.u.ByAddr[h]
		if !ok {
			return 0, nil, false
		}
		return m.state[i], m.u.Chunks[i].Data, true
	}
	judge := func(path string, h hash.Hash, present bool, data []byte) {
		st, want, known := expect(h)
		same16 := ""
		if present && !known {
			for _, c := range m.u.Chunks {
				if bytes.Equal(c.Addr[:16], h[:16]) {
					same16 = ";adjacent=same-16-byte-prefix-as-stored-chunk"
					break
				}
			}
		}
		switch {
		case present && !known:
			res.Violate("read-invented-chunk", "path="+path+same16, step, "%s(%s) returned %d bytes for an address that was never written", path, short(h), len(data))
		case present && st == 0:
			res.Violate("read-invented-chunk", "path="+path, step, "%s(%s) returned a chunk that was never put into this store", path, short(h))
		case present && !bytes.Equal(data, want):
			res.Violate("read-wrong-bytes", "path="+path, step, "%s(%s) returned %d bytes that differ from the %d bytes stored (content hashes to %s)", path, short(h), len(data), len(want), short(hash.Of(data)))
		case !present && st == mustHave:
			res.Violate("read-lost-chunk", "path="+path, step, "%s(%s): chunk was written and committed but is reported absent", path, short(h))
		}
	}
	results := map[string]map[hash.Hash]bool{}
	note := func(path string, h hash.Hash, present bool) {
		if results[path] == nil {
			results[path] = map[hash.Hash]bool{}
		}
		results[path][h] = present
	}
	pathErr := func(path string, err error) bool {
		if err == nil {
			return false
		}
		if faulty {
			res.Probe("read_error_under_fault:" + path)
			return true
		}
		res.Violate("read-error-without-fault", "path="+path, step, "%s failed on a healthy store: %s", path, firstLine(err))
		return true
	}
	// Get + Has
	for _, h := range addrs {
		c, err := s.cs.Get(ctx, h)
		if !pathErr("Get", err) {
			present := !c.IsEmpty()
			if !present {
				// an empty payload cannot be told from "absent" through Get alone
				if ok, _ := s.cs.Has(ctx, h); ok {
					if i, known := m.u.ByAddr[h]; known && len(m.u.Chunks[i].Data) == 0 {
						present = true
					}
				}
			}
			judge("Get", h, present, c.Data())
			note("Get", h, present)
		}
		ok, err := s.cs.Has(ctx, h)
		if !pathErr("Has", err) {
			judge("Has", h, ok, func() []byte { _, d, _ := expect(h); return d }())
			note("Has", h, ok)
		}
	}
	// GetMany
	{
		var mu sync.Mutex
		got := map[hash.Hash][]byte{}
		err := s.cs.GetMany(ctx, set, func(_ context.Context, c *chunks.Chunk) {
			cp := copyChunk(c)
			mu.Lock()
			got[cp.Hash()] = cp.Data()
			mu.Unlock()
		})
		if !pathErr("GetMany", err) {
			for _, h := range addrs {
				d, ok := got[h]
				judge("GetMany", h, ok, d)
				note("GetMany", h, ok)
			}
			for h, d := range got {
				if !set.Has(h) {
					res.Violate("read-unrequested-chunk", "path=GetMany", step, "GetMany delivered %s (%d bytes) which was not requested", short(h), len(d))
				}
			}
		}
	}
	// GetManyCompressed (NBS only)
	if cc, ok := s.cs.(interface {
		GetManyCompressed(context.Context, hash.HashSet, func(context.Context, nbs.ToChunker)) error
	}); ok {
		var mu sync.Mutex
		got := map[hash.Hash][]byte{}
		var convErr error
		err := cc.GetManyCompressed(ctx, set, func(_ context.Context, tc nbs.ToChunker) {
			c, err := tc.ToChunk()
			mu.Lock()
			defer mu.Unlock()
			if err != nil {
				convErr = err
				return
			}
			got[tc.Hash()] = append([]byte(nil), c.Data()...)
		})
		if err == nil {
			err = convErr
		}
		if !pathErr("GetManyCompressed", err) {
			for _, h := range addrs {
				d, ok := got[h]
				judge("GetManyCompressed", h, ok, d)
				note("GetManyCompressed", h, ok)
			}
		}
	}
	// HasMany
	{
		absent, err := s.cs.HasMany(ctx, set)
		if !pathErr("HasMany", err) {
			for _, h := range addrs {
				ok := !absent.Has(h)
				judge("HasMany", h, ok, func() []byte { _, d, _ := expect(h); return d }())
				note("HasMany", h, ok)
			}
		}
	}
	// the paths must agree with each other on presence
	paths := core.SortedKeys(results)
	for _, h := range addrs {
		first := ""
		for _, p := range paths {
			v, ok := results[p][h]
			if !ok {
				continue
			}
			if first == "" {
				first = p
				continue
			}
			if v != results[first][h] {
				res.Violate("read-paths-disagree", "paths="+first+"/"+p, step, "%s says present=%v but %s says present=%v for %s", first, results[first][h], p, v, short(h))
			}
		}
	}
}

// c01Iterate checks full iteration and Count (NBS-backed stores).
func c01Iterate(ctx context.Context, s *c01Store, m *chunkModel, step int, res *core.Result) {
	it, ok := s.cs.(interface {
		IterateAllChunks(context.Context, func(chunks.Chunk)) error
	})
	if !ok || s.config == "mem" { // the memory view does not implement iteration (it panics by design)
		return
	}
	seen := map[hash.Hash]bool{}
	var bad []string
	err := it.IterateAllChunks(ctx, func(c chunks.Chunk) {
		h, d := c.Hash(), c.Data()
		seen[h] = true
		i, known := m.u.ByAddr[h]
		switch {
		case !known:
			bad = append(bad, fmt.Sprintf("iteration yields address %s (content hashes to %s) that was never written", h.String(), hash.Of(d).String()))
		case !bytes.Equal(d, m.u.Chunks[i].Data):
			bad = append(bad, fmt.Sprintf("iteration yields wrong bytes for %s", short(h)))
		case m.state[i] == 0:
			bad = append(bad, fmt.Sprintf("iteration yields %s which was never put", short(h)))
		}
	})
	if err != nil {
		res.Violate("iterate-error", "config="+s.config, step, "IterateAllChunks: %s", firstLine(err))
		return
	}
	for _, b := range bad {
		key := "kind=other"
		if len(b) > 60 && bytes.Contains([]byte(b), []byte("000000 (content")) {
			key = "kind=address-truncated-to-16-bytes"
		}
		res.Violate("iterate-disagrees", key, step, "%s", b)
	}
	for i, st := range m.state {
		if st == mustHave && !seen[m.u.Chunks[i].Addr] {
			// iteration covers table files / journal; chunks still in the memtable are not iterated
			res.Probe("committed_chunk_not_iterated")
		}
	}
}

func (C01) Execute(t *testing.T, sc *core.Scenario) *core.Result {
	res := &core.Result{}
	var b C01Body
	if err := json.Unmarshal(sc.Body, &b); err != nil {
		res.Panic = "bad scenario body: " + err.Error()
		return res
	}
	ctx := context.Background()
	restore := applyJCfg(b.Cfg)
	defer restore()
	memStorage = nil
	root := newScratch("c01")
	sos, err := simos.New(root)
	if err != nil {
		res.Panic = err.Error()
		return res
	}
	defer simos.RemoveTree(root)
	sos.Install()
	defer simos.Uninstall()
	dir := filepath.Join(root, "db")
	if err := os.Mkdir(dir, 0o755); err != nil {
		res.Panic = err.Error()
		return res
	}
	u := BuildUniverse(b.Chunks)
	m := &chunkModel{u: u, state: map[int]int8{}}
	s, err := openC01(ctx, &b, dir)
	if err != nil {
		res.Panic = "open: " + err.Error()
		return res
	}
	s.config = b.Config
	defer func() {
		if s != nil {
			s.Close()
		}
	}()
	sig := core.NewSig()
	var pending []int
	ctxSwitch := 0
	for i, op := range b.Ops {
		sig.Add(op.Kind)
		switch op.Kind {
		case "put":
			for _, ci := range op.C {
				if ci < 0 || ci >= len(u.Chunks) {
					continue
				}
				ci = u.Canon(ci)
				c := u.Chunks[ci]
				if err := s.cs.Put(ctx, chunks.NewChunkWithHash(c.Addr, c.Data), GetAddrsCurry); err != nil {
					res.Probe("put_error")
					res.Probe("put_error:" + b.Config + ":" + firstLine(err)[:min(60, len(firstLine(err)))])
					sig.Add("puterr")
					// a failed flush drops the memtable: everything uncommitted may vanish
					for _, pi := range pending {
						m.state[pi] = mayHave
					}
					pending = nil
					continue
				}
				if m.state[ci] != mustHave {
					m.state[ci] = mustHave // readable from now on; durable only after a commit
					pending = append(pending, ci)
				}
			}
		case "commit":
			if op.Root < 0 || op.Root >= len(u.Chunks) {
				continue
			}
			cur, err := s.cs.Root(ctx)
			if err != nil {
				res.Violate("root-error", "-", i, "%s", firstLine(err))
				continue
			}
			ok, err := s.cs.Commit(ctx, u.Chunks[op.Root].Addr, cur)
			if err != nil || !ok {
				res.Probe("commit_failed")
				if err != nil {
					res.Probe("commit_failed:" + b.Config + ":" + firstLine(err)[:min(60, len(firstLine(err)))])
				} else {
					res.Probe("commit_failed:" + b.Config + ":cas")
				}
				sig.Add("commitfail")
				// a rejected commit (dangling ref) drops the memtable: pending chunks may vanish
				for _, ci := range pending {
					m.state[ci] = mayHave
				}
				pending = nil
				continue
			}
			m.committed = u.Chunks[op.Root].Addr
			pending = nil
			res.Probe("commit_ok")
		case "read", "readfault":
			r := core.NewRand(op.Seed)
			var addrs []hash.Hash
			n := r.Range(1, 24)
			for k := 0; k < n && len(u.Chunks) > 0; k++ {
				c := u.Chunks[r.Intn(len(u.Chunks))]
				switch r.Intn(6) {
				case 0: // adjacent absent address: last byte +-1
					addrs = append(addrs, flipAddr(c.Addr, 19, 1))
				case 1: // adjacent in the prefix
					addrs = append(addrs, flipAddr(c.Addr, 7, 1))
				case 2: // same 8-byte prefix, different suffix
					addrs = append(addrs, flipAddr(c.Addr, 8+r.Intn(12), byte(1<<r.Intn(8))))
				default:
					addrs = append(addrs, c.Addr)
				}
			}
			faulty := op.Kind == "readfault"
			if faulty {
				fr := core.NewRand(op.Seed ^ 0xfa)
				n := 0
				sos.Fault = func(c *simos.Call) error {
					if c.Op == "read" || c.Op == "readat" {
						n++
						if fr.Chance(1, 4) {
							res.Fault("read-eio")
							return syscall.EIO
						}
					}
					return nil
				}
			}
			c01Read(ctx, s, m, addrs, faulty, i, res)
			sos.Fault = nil
			if !faulty && i%3 == 0 {
				c01Iterate(ctx, s, m, i, res)
			}
			res.Evaluations++
		case "gcread":
			st := s.nbs
			if st == nil || m.committed.IsEmpty() || len(pending) > 0 {
				continue
			}
			r := core.NewRand(op.Seed)
			reach, _ := u.Closure(m.committed)
			if len(reach) < 2 {
				continue
			}
			want := hash.HashSet{}
			for k := r.Range(2, 16); k > 0; k-- {
				want.Insert(u.Chunks[reach[r.Intn(len(reach))]].Addr)
			}
			// the collector "wants to be told" about a random half of them - sometimes not about the one
			// that sorts first
			var sorted []hash.Hash
			for h := range want {
				sorted = append(sorted, h)
			}
			sort.Slice(sorted, func(i, j int) bool { return bytes.Compare(sorted[i][:], sorted[j][:]) < 0 })
			block := hash.HashSet{}
			for i, h := range sorted {
				if (i > 0 || r.Chance(1, 3)) && r.Chance(1, 2) {
					block.Insert(h)
				}
			}
			if err := st.BeginGC(ctx, func(h hash.Hash) bool { return block.Has(h) }, chunks.GCMode_Full); err != nil {
				res.Probe("begin_gc_refused")
				continue
			}
			var mu sync.Mutex
			got := hash.HashSet{}
			done := make(chan error, 1)
			compressed := r.Chance(1, 2)
			go func() {
				if compressed {
					done <- st.GetManyCompressed(ctx, want.Copy(), func(_ context.Context, c nbs.ToChunker) {
						mu.Lock()
						got.Insert(c.Hash())
						mu.Unlock()
					})
				} else {
					done <- st.GetMany(ctx, want.Copy(), func(_ context.Context, c *chunks.Chunk) {
						mu.Lock()
						got.Insert(c.Hash())
						mu.Unlock()
					})
				}
			}()
			synctest.Wait() // the reader has finished, or waits for the end of the collection
			st.EndGC(chunks.GCMode_Full)
			err := <-done
			res.Evaluations++
			if len(block) > 0 {
				res.Fault("batch-read-blocked-by-collection")
			}
			if err != nil {
				res.Violate("read-error", "path=GetMany-during-gc", i, "%s", firstLine(err))
				continue
			}
			for _, h := range sorted {
				if !got.Has(h) {
					res.Violate("stored-chunk-not-delivered", fmt.Sprintf("path=GetMany-during-gc;compressed=%v;config=%s", compressed, b.Config), i,
						"a batch read of %d committed chunks that had to wait for a collection in progress (the collector's callback said yes to %d of them) delivered %d: %s was never handed to the caller and no error was returned", len(sorted), len(block), len(got), short(h))
					break
				}
			}
		case "rebase":
			if err := s.cs.Rebase(ctx); err != nil {
				res.Violate("rebase-error", "-", i, "%s", firstLine(err))
			}
		case "reopen":
			if err := s.Close(); err != nil {
				res.Probe("close_error")
			}
			s = nil
			// uncommitted chunks may or may not survive
			for _, ci := range pending {
				m.state[ci] = mayHave
			}
			pending = nil
			s, err = openC01(ctx, &b, dir)
			if err != nil {
				res.Violate("reopen-failed", "-", i, "%s", firstLine(err))
				return res
			}
			s.config = b.Config
			ctxSwitch++
			res.Fault("clean-restart")
		case "gc", "gc-archive":
			if m.committed.IsEmpty() || len(pending) > 0 {
				continue
			}
			cfg := chunks.GCConfig{Mode: chunks.GCMode_Full, ArchiveLevel: chunks.NoArchive}
			if op.Kind == "gc-archive" {
				cfg.ArchiveLevel = chunks.SimpleArchive
			}
			var err error
			if s.gen != nil {
				mode := chunks.GCMode_Default
				if i%2 == 0 {
					mode = chunks.GCMode_Full
				}
				cfg.Mode = mode
				err = gcGenerational(ctx, s.gen, []hash.Hash{m.committed}, nil, cfg, nil)
				if err == nil {
					err = s.gen.PruneTableFiles(ctx)
				}
			} else if s.nbs != nil {
				err = gcSingle(ctx, s.nbs, nil, cfg, nil)
				if err == nil {
					err = s.nbs.PruneTableFiles(ctx)
				}
			}
			if err != nil && errors.Is(err, chunks.ErrNothingToCollect) {
				res.Probe("gc_nothing_to_collect")
				continue
			}
			if err != nil {
				res.Violate("gc-error", "kind="+op.Kind, i, "%s", firstLine(err))
				continue
			}
			res.Fault(op.Kind)
			// everything not reachable from the committed root may be gone
			reach, _ := u.Closure(m.committed)
			rs := map[int]bool{}
			for _, x := range reach {
				rs[x] = true
			}
			for ci, st := range m.state {
				if st != 0 && !rs[ci] {
					m.state[ci] = mayHave
				}
			}
			ctxSwitch++
		case "conjoin":
			st := s.nbs
			if s.gen != nil {
				continue
			}
			if st == nil {
				continue
			}
			srcs, err := st.Sources(ctx)
			if err != nil {
				continue
			}
			var ids []hash.Hash
			for _, tf := range srcs.TableFiles {
				if id, ok := hash.MaybeParse(tf.FileID()); ok {
					ids = append(ids, id)
				}
			}
			if len(ids) >= 2 {
				if _, err := st.ConjoinTableFiles(ctx, ids); err != nil {
					res.Probe("conjoin_error:" + firstLine(err))
				} else {
					res.Fault("conjoin")
					ctxSwitch++
				}
			}
		}
		if s != nil {
			s.waitConjoin()
		}
		if len(res.Violations) >= 6 {
			break
		}
	}
	res.Ops = len(b.Ops)
	res.LogHash = sig.Sum()
	if ctxSwitch > 0 || res.Faults["read-eio"] > 0 {
		res.CaseHashes = append(res.CaseHashes, core.Hash64(fmt.Sprint(sc.Seed)))
	} else {
		res.Trivial = 1
	}
	if res.Evaluations == 0 {
		res.Evaluations = 1
	}
	var kinds []string
	for _, op := range b.Ops {
		kinds = append(kinds, op.Kind)
	}
	if len(kinds) > 30 {
		kinds = kinds[:30]
	}
	sort.Strings(kinds[:0])
	res.Sample = map[string]any{"config": b.Config, "mem_table": b.MemTable, "max_tables": b.MaxTab, "faults": b.Faults, "chunks": len(b.Chunks), "ops": kinds}
	return res
}

func (C01) Shrinks(sc *core.Scenario) []*core.Scenario {
	var b C01Body
	if json.Unmarshal(sc.Body, &b) != nil {
		return nil
	}
	var out []*core.Scenario
	for i := range b.Ops {
		nb := b
		nb.Ops = append(append([]C01Op(nil), b.Ops[:i]...), b.Ops[i+1:]...)
		raw, _ := json.Marshal(nb)
		c := *sc
		c.Body = raw
		out = append(out, &c)
	}
	return out
}
