package simos

import (
	"fmt"
	"os"
	"path/filepath"
	"sort"
	"strings"
)

// Persistence model (DESIGN §4.2).
//
// File data is durable up to the file's last successful fsync; writes and truncates after that are
// "pending" and a crash variant decides what becomes of them. Directory operations (create, link,
// rename, unlink, mkdir) of one directory persist in order up to a cut point that is at least the
// directory's durable point: the later of its last fsync and the creation of any file in it that
// was itself fsynced afterwards (ordered metadata journalling, as ext4/xfs).

// FileVariant says what happens to the pending operations of one file.
type FileVariant struct {
	// Mode: "durable" (drop all pending), "all" (apply all pending), "prefix" (apply the first K
	// bytes of pending write data, in order; pending truncates are applied when reached),
	// "zero" (as prefix, then the remaining pending writes extend the file with zeros),
	// "garbage" (as prefix, the rest arrives as pseudo-random bytes),
	// "hole" (apply all, then zero the K-th 4 KiB-aligned block touched by pending writes).
	Mode string `json:"mode"`
	K    int64  `json:"k,omitempty"`
}

// Variant selects one crash image of a log prefix.
type Variant struct {
	Name string `json:"name"`
	// Dirs: "durable" = every directory cut at its durable point; "all" = every directory
	// operation persisted.
	Dirs string `json:"dirs"`
	// Files maps a file's base name (as it is named after all directory operations of the log
	// prefix) to its variant; Default applies to the others.
	Files   map[string]FileVariant `json:"files,omitempty"`
	Default FileVariant            `json:"default"`
}

type pend struct {
	trunc bool
	off   int64 // write offset or truncate size
	data  []byte
}

type inode struct {
	durable []byte
	pending []pend
	synced  bool
}

type dop struct {
	kind  EvKind // EvCreate/EvLink (link name->ino), EvRemove (unlink name), EvMkdir
	name  string
	ino   int    // for link
	dir   string // for mkdir: rel path of new dir
	isDir bool
}

type dirst struct {
	ops     []dop
	durable int
}

// Model is the replayed state of an op-log prefix.
type Model struct {
	inodes map[int]*inode
	dirs   map[string]*dirst // rel dir path -> state ("." is the root)
	// where each inode was last linked: dir and op index, to move the durable point on fsync
	linkAt map[int][][2]any
	names  map[string]int // current full namespace: rel path -> ino (regular files)
}

func newModel() *Model {
	m := &Model{inodes: map[int]*inode{}, dirs: map[string]*dirst{}, linkAt: map[int][][2]any{}, names: map[string]int{}}
	m.dirs["."] = &dirst{}
	return m
}

func (m *Model) dir(p string) *dirst {
	d, ok := m.dirs[p]
	if !ok {
		d = &dirst{}
		m.dirs[p] = d
	}
	return d
}

func splitRel(p string) (dir, base string) {
	dir, base = filepath.Split(p)
	dir = strings.TrimSuffix(dir, "/")
	if dir == "" {
		dir = "."
	}
	return
}

func (m *Model) ino(i int) *inode {
	n, ok := m.inodes[i]
	if !ok {
		n = &inode{}
		m.inodes[i] = n
	}
	return n
}

func (m *Model) link(path string, ino int) {
	d, b := splitRel(path)
	ds := m.dir(d)
	ds.ops = append(ds.ops, dop{kind: EvLink, name: b, ino: ino})
	m.linkAt[ino] = append(m.linkAt[ino], [2]any{d, len(ds.ops)})
	m.names[path] = ino
}

func (m *Model) unlink(path string) {
	d, b := splitRel(path)
	ds := m.dir(d)
	_, isFile := m.names[path]
	ds.ops = append(ds.ops, dop{kind: EvRemove, name: b, isDir: !isFile})
	delete(m.names, path)
}

// Apply replays one event.
func (m *Model) Apply(e *Event) {
	switch e.Kind {
	case EvCreate:
		m.inodes[e.Ino] = &inode{}
		m.link(e.Path, e.Ino)
	case EvWrite:
		n := m.ino(e.Ino)
		n.pending = append(n.pending, pend{off: e.Off, data: e.Data})
	case EvTruncate:
		n := m.ino(e.Ino)
		n.pending = append(n.pending, pend{trunc: true, off: e.Size})
	case EvSync:
		n := m.ino(e.Ino)
		n.durable = applyPending(n.durable, n.pending, -1, "all", 0)
		n.pending = nil
		n.synced = true
		for _, la := range m.linkAt[e.Ino] {
			d := la[0].(string)
			ds := m.dir(d)
			if k := la[1].(int); k > ds.durable {
				ds.durable = k
			}
			m.ancestorsDurable(d)
		}
	case EvSyncDir:
		ds := m.dir(e.Path)
		ds.durable = len(ds.ops)
		m.ancestorsDurable(e.Path)
	case EvRename:
		if ino, ok := m.names[e.Path]; ok {
			// regular file: link new name then unlink old (rename is atomic: both ops are
			// adjacent in the same directory; across directories each side may persist alone).
			d1, _ := splitRel(e.Path)
			d2, b2 := splitRel(e.Path2)
			if d1 == d2 {
				ds := m.dir(d1)
				_, b1 := splitRel(e.Path)
				ds.ops = append(ds.ops, dop{kind: EvRename, name: b1 + "\x00" + b2, ino: ino})
				m.linkAt[ino] = append(m.linkAt[ino], [2]any{d1, len(ds.ops)})
				delete(m.names, e.Path)
				m.names[e.Path2] = ino
			} else {
				m.link(e.Path2, ino)
				m.unlink(e.Path)
			}
		} else {
			// directory rename: move the subtree in the model (rare in dolt: drop/undrop database)
			d1, b1 := splitRel(e.Path)
			d2, b2 := splitRel(e.Path2)
			m.dir(d1).ops = append(m.dir(d1).ops, dop{kind: EvRemove, name: b1, isDir: true})
			m.dir(d2).ops = append(m.dir(d2).ops, dop{kind: EvMkdir, name: b2, dir: e.Path2})
			pfx := e.Path + "/"
			var ks []string
			for p := range m.dirs {
				if p == e.Path || strings.HasPrefix(p, pfx) {
					ks = append(ks, p)
				}
			}
			sort.Strings(ks)
			for _, p := range ks {
				m.dirs[e.Path2+p[len(e.Path):]] = m.dirs[p]
				delete(m.dirs, p)
			}
			ks = ks[:0]
			for p := range m.names {
				if strings.HasPrefix(p, pfx) {
					ks = append(ks, p)
				}
			}
			sort.Strings(ks)
			for _, p := range ks {
				m.names[e.Path2+p[len(e.Path):]] = m.names[p]
				delete(m.names, p)
			}
			for ino, las := range m.linkAt {
				for i, la := range las {
					d := la[0].(string)
					if d == e.Path || strings.HasPrefix(d, pfx) {
						las[i][0] = e.Path2 + d[len(e.Path):]
					}
				}
				m.linkAt[ino] = las
			}
			// the mkdir operations that lead to the moved directories name them by their key
			for _, ds := range m.dirs {
				for i := range ds.ops {
					if op := &ds.ops[i]; op.kind == EvMkdir && (op.dir == e.Path || strings.HasPrefix(op.dir, pfx)) {
						op.dir = e.Path2 + op.dir[len(e.Path):]
					}
				}
			}
			// A rename is one transaction of the file system's journal: the directory is at its old
			// place or at its new one, never at both or at neither, and a journal that orders metadata
			// commits everything both directories saw before. The model has one cut per directory and
			// cannot tie two cuts together, so the rename of a directory counts as committed when it
			// returns (a crash "before" it is the image in which it has not happened).
			m.dir(d1).durable = len(m.dir(d1).ops)
			m.dir(d2).durable = len(m.dir(d2).ops)
			m.ancestorsDurable(d1)
			m.ancestorsDurable(d2)
		}
	case EvRemove:
		m.unlink(e.Path)
	case EvMkdir:
		d, b := splitRel(e.Path)
		m.dir(d).ops = append(m.dir(d).ops, dop{kind: EvMkdir, name: b, dir: e.Path})
		m.dir(e.Path)
	case EvLink:
		m.link(e.Path2, e.Ino)
	}
}

// ancestorsDurable makes the creation of directory d, and of every ancestor of it, durable: a file
// that was fsynced must be reachable after a crash, so the file system persists the chain of new
// directories leading to it (ext4/xfs by journal order, btrfs by logging new ancestors).
func (m *Model) ancestorsDurable(d string) {
	for d != "." && d != "" {
		parent, base := splitRel(d)
		ps := m.dir(parent)
		for i := len(ps.ops) - 1; i >= 0; i-- {
			if op := ps.ops[i]; op.kind == EvMkdir && op.name == base {
				if i+1 > ps.durable {
					ps.durable = i + 1
				}
				break
			}
		}
		d = parent
	}
}

// Replay builds the model of log[:pos].
func Replay(log []Event, pos int) *Model {
	m := newModel()
	for i := 0; i < pos && i < len(log); i++ {
		m.Apply(&log[i])
	}
	return m
}

func applyPending(base []byte, ps []pend, k int64, mode string, seed uint64) []byte {
	out := append([]byte(nil), base...)
	write := func(off int64, data []byte) {
		end := off + int64(len(data))
		if int64(len(out)) < end {
			out = append(out, make([]byte, end-int64(len(out)))...)
		}
		copy(out[off:end], data)
	}
	rng := seed | 1
	next := func() byte {
		rng ^= rng << 13
		rng ^= rng >> 7
		rng ^= rng << 17
		return byte(rng >> 24)
	}
	remaining := k
	for _, p := range ps {
		if p.trunc {
			if mode == "all" || remaining != 0 || k < 0 {
				if int64(len(out)) > p.off {
					out = out[:p.off]
				} else if int64(len(out)) < p.off {
					out = append(out, make([]byte, p.off-int64(len(out)))...)
				}
			}
			continue
		}
		if k < 0 {
			write(p.off, p.data)
			continue
		}
		n := int64(len(p.data))
		if remaining >= n {
			write(p.off, p.data)
			remaining -= n
			continue
		}
		// partial / not persisted
		keep := remaining
		remaining = 0
		write(p.off, p.data[:keep])
		rest := p.data[keep:]
		switch mode {
		case "zero":
			write(p.off+keep, make([]byte, len(rest)))
		case "garbage":
			g := make([]byte, len(rest))
			for i := range g {
				g[i] = next()
			}
			write(p.off+keep, g)
		}
	}
	return out
}

// PendingBytes returns the number of pending write bytes of the file currently named path, the
// cumulative end offsets of each pending write (the natural "record batch" boundaries) and the
// durable length.
func (m *Model) PendingBytes(path string) (total int64, bounds []int64, durable int64) {
	ino, ok := m.names[path]
	if !ok {
		return 0, nil, 0
	}
	n := m.ino(ino)
	for _, p := range n.pending {
		if !p.trunc {
			total += int64(len(p.data))
			bounds = append(bounds, total)
		}
	}
	return total, bounds, int64(len(n.durable))
}

// PendingData returns the concatenated pending write payloads of the file named path.
func (m *Model) PendingData(path string) []byte {
	ino, ok := m.names[path]
	if !ok {
		return nil
	}
	var out []byte
	for _, p := range m.ino(ino).pending {
		if !p.trunc {
			out = append(out, p.data...)
		}
	}
	return out
}

// Paths lists the regular files of the full (uncut) namespace.
func (m *Model) Paths() []string {
	var ps []string
	for p := range m.names {
		ps = append(ps, p)
	}
	sort.Strings(ps)
	return ps
}

func (m *Model) content(ino int, fv FileVariant, seed uint64) []byte {
	n := m.ino(ino)
	switch fv.Mode {
	case "", "durable":
		return append([]byte(nil), n.durable...)
	case "all":
		return applyPending(n.durable, n.pending, -1, "all", 0)
	case "prefix", "zero", "garbage":
		return applyPending(n.durable, n.pending, fv.K, fv.Mode, seed)
	case "hole":
		full := applyPending(n.durable, n.pending, -1, "all", 0)
		// collect 4 KiB blocks touched by pending writes
		blocks := map[int64]bool{}
		for _, p := range n.pending {
			if p.trunc {
				continue
			}
			for b := p.off / 4096; b <= (p.off+int64(len(p.data))-1)/4096; b++ {
				blocks[b] = true
			}
		}
		var bl []int64
		for b := range blocks {
			bl = append(bl, b)
		}
		sort.Slice(bl, func(i, j int) bool { return bl[i] < bl[j] })
		if len(bl) == 0 {
			return full
		}
		b := bl[int(fv.K)%len(bl)]
		lo, hi := b*4096, (b+1)*4096
		if lo < int64(len(n.durable)) {
			lo = int64(len(n.durable)) // never damage durable bytes
		}
		if hi > int64(len(full)) {
			hi = int64(len(full))
		}
		for i := lo; i < hi; i++ {
			full[i] = 0
		}
		return full
	}
	panic("simos: unknown file variant " + fv.Mode)
}

// Image is a materialisable crash state: directories and files (rel path -> content).
type Image struct {
	Dirs  []string
	Files map[string][]byte
}

// Build computes the crash image of the model under v.
func (m *Model) Build(v Variant, seed uint64) *Image {
	img := &Image{Files: map[string][]byte{}}
	var walk func(d string)
	walk = func(d string) {
		ds := m.dirs[d]
		if ds == nil {
			return
		}
		cut := len(ds.ops)
		if v.Dirs == "durable" {
			cut = ds.durable
		}
		names := map[string]int{}
		sub := map[string]string{}
		for _, op := range ds.ops[:cut] {
			switch op.kind {
			case EvLink:
				names[op.name] = op.ino
			case EvRename:
				o, n, _ := strings.Cut(op.name, "\x00")
				delete(names, o)
				names[n] = op.ino
			case EvRemove:
				delete(names, op.name)
				delete(sub, op.name)
			case EvMkdir:
				sub[op.name] = op.dir
			}
		}
		var ns []string
		for n := range names {
			ns = append(ns, n)
		}
		sort.Strings(ns)
		for _, n := range ns {
			fv, ok := v.Files[n]
			if !ok {
				fv = v.Default
			}
			p := n
			if d != "." {
				p = d + "/" + n
			}
			img.Files[p] = m.content(names[n], fv, seed+uint64(names[n]))
		}
		var ss []string
		for n := range sub {
			ss = append(ss, n)
		}
		sort.Strings(ss)
		for _, n := range ss {
			img.Dirs = append(img.Dirs, sub[n])
			walk(sub[n])
		}
	}
	walk(".")
	return img
}

// Materialize writes the image below dir (which must not exist or be empty) using the real OS.
func (img *Image) Materialize(dir string) error {
	if err := os.DsimRealMkdir(dir, 0o755); err != nil && !os.IsExist(err) {
		return err
	}
	for _, d := range img.Dirs {
		if err := mkdirAllReal(filepath.Join(dir, d)); err != nil {
			return err
		}
	}
	ps := make([]string, 0, len(img.Files))
	for p := range img.Files {
		ps = append(ps, p)
	}
	sort.Strings(ps)
	for _, p := range ps {
		full := filepath.Join(dir, p)
		f, err := os.DsimRealOpenFile(full, os.O_WRONLY|os.O_CREATE|os.O_TRUNC, 0o644)
		if err != nil {
			return fmt.Errorf("materialize %s: %w", p, err)
		}
		if _, err := os.DsimRealWrite(f, img.Files[p]); err != nil {
			os.DsimRealClose(f)
			return err
		}
		if err := os.DsimRealClose(f); err != nil {
			return err
		}
	}
	return nil
}

func mkdirAllReal(p string) error {
	if fi, err := os.DsimRealStat(p); err == nil && fi.IsDir() {
		return nil
	}
	parent := filepath.Dir(p)
	if parent != p {
		if err := mkdirAllReal(parent); err != nil {
			return err
		}
	}
	err := os.DsimRealMkdir(p, 0o755)
	if err != nil && os.IsExist(err) {
		return nil
	}
	return err
}

// RemoveTree deletes a scratch directory with the real OS.
func RemoveTree(dir string) { os.DsimRealRemoveAll(dir) }

// Sub returns the part of the image below rel (paths keep their full relative form).
func (img *Image) Sub(rel string) *Image {
	out := &Image{Files: map[string][]byte{}}
	under := func(p string) bool { return p == rel || strings.HasPrefix(p, rel+"/") }
	for _, d := range img.Dirs {
		if under(d) {
			out.Dirs = append(out.Dirs, d)
		}
	}
	for p, b := range img.Files {
		if under(p) {
			out.Files[p] = b
		}
	}
	return out
}
