// Package simos is the simulated operating system underneath the real dolt code.
//
// It is installed into the overlay-patched package os (os.Sim). Every file operation on a path
// below Root is (1) offered to the scheduler as a yield point, (2) offered to the fault plan,
// (3) performed for real on the scratch directory (write-through), and (4) recorded in an op log
// from which crash images are synthesised (image.go). Paths outside Root pass straight through.
package simos

import (
	"errors"
	"io"
	"io/fs"
	"os"
	"path/filepath"
	"sort"
	"strconv"
	"strings"
	"sync"
	"syscall"
	"time"
)

type EvKind uint8

const (
	EvCreate   EvKind = iota + 1 // new regular file linked at Path (Ino)
	EvWrite                      // Data written at Off of Ino
	EvTruncate                   // Ino truncated to Size
	EvSync                       // fsync of regular file Ino
	EvSyncDir                    // fsync of directory Path
	EvRename                     // Path -> Path2
	EvRemove                     // unlink / rmdir of Path
	EvMkdir                      // directory Path created
	EvLink                       // hard link Path2 -> same inode as Path
	EvMarker                     // harness annotation (Label, Aux)
	EvFault                      // an injected failure (not a mutation; Label = op, Aux = errno)
)

var kindNames = map[EvKind]string{EvCreate: "create", EvWrite: "write", EvTruncate: "truncate", EvSync: "fsync",
	EvSyncDir: "fsyncdir", EvRename: "rename", EvRemove: "remove", EvMkdir: "mkdir", EvLink: "link", EvMarker: "marker", EvFault: "fault"}

func (k EvKind) String() string { return kindNames[k] }

// Event is one entry of the op log. Paths are relative to Root.
type Event struct {
	Seq   int
	Kind  EvKind
	Actor int
	Path  string
	Path2 string
	Ino   int
	Off   int64
	Size  int64
	Data  []byte
	Label string
	Aux   string
}

// Call describes an operation about to be performed; passed to Yield and Fault.
type Call struct {
	Op    string // open create read readat write writeat close fsync ftruncate truncate rename remove removeall mkdir link stat lstat fstat readdir
	Path  string // relative to Root
	Path2 string
	Off   int64
	Len   int
	Flag  int
	Actor int
	Mut   bool // would mutate the file system
}

type openFile struct {
	ino    int
	path   string // relative path at open time
	actor  int
	isDir  bool
	rdonly bool
	app    bool
}

// OS is one simulated machine (one scratch directory tree).
type OS struct {
	Root string

	mu     sync.Mutex
	files  map[*os.File]*openFile
	inoOf  map[string]int // relative path -> inode id, for regular files
	nextIn int
	log    []Event
	cur    int
	dead   map[int]bool
	tmpN   uint64

	// Yield, if set, is called (without o.mu held) before each operation on a simulated path.
	Yield func(c *Call)
	// Fault, if set, may return an error to inject instead of performing the call. For write and
	// writeat it may also return (ShortWrite{N}) to perform a short write.
	Fault func(c *Call) error
	// CrashAfter, if >0, kills the acting actor when the number of recorded mutating events
	// reaches it: that operation and every later one of that actor fail with EIO, unrecorded.
	CrashAfter int
	// Now supplies mtimes for Stat results when non-nil (simulated clock stamps).
	Now       func() time.Time
	mtimes    map[int]time.Time // by inode id: a descriptor keeps seeing its own file's mtime
	lastStamp time.Time
	// LockWait, if set, is called when a blocking flock request would block; it returns true if
	// it parked the caller at a scheduling point (the request is retried afterwards).
	LockWait func() bool
	// AfterEvent, if set, is called (without o.mu held) after every recorded mutating event:
	// the place for invariants that must hold "at every moment".
	AfterEvent func(e *Event)

	// counters
	NOps, NMut, NFaults int
}

// ShortWrite is returned by a Fault callback to request a short write of N bytes followed by Err.
type ShortWrite struct {
	N   int
	Err error
}

func (s ShortWrite) Error() string { return "short write" }

var active *OS

// New creates the scratch root (real mkdir, recorded as pre-existing) and returns an OS that is not
// yet installed.
func New(root string) (*OS, error) {
	root = filepath.Clean(root)
	if err := os.DsimRealMkdir(root, 0o755); err != nil && !errors.Is(err, fs.ErrExist) {
		return nil, err
	}
	return &OS{Root: root, files: map[*os.File]*openFile{}, inoOf: map[string]int{}, dead: map[int]bool{}, mtimes: map[int]time.Time{}}, nil
}

// OnInstall, if set, runs when an OS is installed (with its root) and returns what Uninstall must
// undo: the harness packages point dolt's movable-temp-file provider at a directory inside the
// simulated root, as production does (a temp directory from which a rename into the database
// directory works), so that the rename-into-place paths run and not their cross-device fallbacks.
var OnInstall func(root string) func()

var onUninstall func()

// Install makes o the simulated OS for the process. Only one OS is active at a time.
func (o *OS) Install() {
	active = o
	if OnInstall != nil {
		onUninstall = OnInstall(o.Root)
	}
	os.Sim = &os.SimHooks{
		OpenFile: o.openFile, Read: o.read, ReadAt: o.readAt, Write: o.write, WriteAt: o.writeAt,
		Close: o.close, Sync: o.sync, FTruncate: o.ftruncate, Truncate: o.truncate, Rename: o.rename,
		Remove: o.remove, RemoveAll: o.removeAll, Mkdir: o.mkdir, Link: o.link, Stat: o.stat, Lstat: o.lstat,
		FStat: o.fstat, ReadDir: o.readDir, Chtimes: nil, NextRandom: o.nextRandom,
		RootOpenFile: o.rootOpenFile,
	}
	syscall.DsimFlock = o.flock
}

// flock turns a blocking flock request into a retry loop around scheduling points, so that no
// goroutine of the bubble ever sits in the kernel waiting for a lock another task holds.
func (o *OS) flock(fd int, how int, real func(int, int) error) error {
	if how&(syscall.LOCK_NB|syscall.LOCK_UN) != 0 {
		return real(fd, how)
	}
	for {
		err := real(fd, how|syscall.LOCK_NB)
		if err != syscall.EWOULDBLOCK {
			return err
		}
		if lw := o.LockWait; lw == nil || !lw() {
			time.Sleep(time.Millisecond)
		}
	}
}

// Uninstall removes the hooks.
func Uninstall() {
	os.Sim = nil
	syscall.DsimFlock = nil
	active = nil
	if onUninstall != nil {
		onUninstall()
		onUninstall = nil
	}
}

// SetActor names the actor ("process") on whose behalf subsequent operations run.
func (o *OS) SetActor(a int) { o.mu.Lock(); o.cur = a; o.mu.Unlock() }
func (o *OS) Actor() int     { o.mu.Lock(); defer o.mu.Unlock(); return o.cur }

// Mark appends a harness annotation to the op log and returns its position.
func (o *OS) Mark(label, aux string) int {
	o.mu.Lock()
	defer o.mu.Unlock()
	o.log = append(o.log, Event{Seq: len(o.log), Kind: EvMarker, Actor: o.cur, Label: label, Aux: aux})
	return len(o.log) - 1
}

// Log returns the op log (shared slice; do not modify).
func (o *OS) Log() []Event { o.mu.Lock(); defer o.mu.Unlock(); return o.log }
func (o *OS) LogLen() int  { o.mu.Lock(); defer o.mu.Unlock(); return len(o.log) }

// Dead reports whether actor a has been crashed.
func (o *OS) Dead(a int) bool { o.mu.Lock(); defer o.mu.Unlock(); return o.dead[a] }

// Kill marks actor a dead and closes its file descriptors (releasing flocks), as the kernel would.
func (o *OS) Kill(a int) {
	o.mu.Lock()
	o.dead[a] = true
	var fs []*os.File
	for f, of := range o.files {
		if of.actor == a {
			fs = append(fs, f)
			delete(o.files, f)
		}
	}
	o.mu.Unlock()
	for _, f := range fs {
		os.DsimRealClose(f)
	}
}

// Revive clears the dead flag (a new process re-using the actor id).
func (o *OS) Revive(a int) { o.mu.Lock(); delete(o.dead, a); o.mu.Unlock() }

// OpenCount returns the number of tracked open files of actor a (-1: all actors).
func (o *OS) OpenCount(a int) int {
	o.mu.Lock()
	defer o.mu.Unlock()
	n := 0
	for _, of := range o.files {
		if a < 0 || of.actor == a {
			n++
		}
	}
	return n
}

func (o *OS) rel(name string) (string, bool) {
	if name == "" {
		return "", false
	}
	p := name
	if !filepath.IsAbs(p) {
		wd, err := syscall.Getwd()
		if err != nil {
			return "", false
		}
		p = filepath.Join(wd, p)
	}
	p = filepath.Clean(p)
	if p == o.Root {
		return ".", true
	}
	if strings.HasPrefix(p, o.Root+string(filepath.Separator)) {
		return p[len(o.Root)+1:], true
	}
	return "", false
}

func pathErr(op, path string, err error) error { return &fs.PathError{Op: op, Path: path, Err: err} }

// pre runs the yield and fault hooks. It returns a non-nil error if the call must fail.
func (o *OS) pre(c *Call) error {
	o.mu.Lock()
	c.Actor = o.cur
	o.NOps++
	dead := o.dead[c.Actor]
	o.mu.Unlock()
	if dead {
		return syscall.EIO
	}
	if y := o.Yield; y != nil {
		y(c)
		o.mu.Lock()
		c.Actor = o.cur
		dead = o.dead[c.Actor]
		o.mu.Unlock()
		if dead {
			return syscall.EIO
		}
	}
	if c.Mut {
		o.mu.Lock()
		if o.CrashAfter > 0 && o.NMut >= o.CrashAfter {
			o.dead[c.Actor] = true
			o.mu.Unlock()
			return syscall.EIO
		}
		o.mu.Unlock()
	}
	if f := o.Fault; f != nil {
		if err := f(c); err != nil {
			var sw ShortWrite
			if !errors.As(err, &sw) {
				o.mu.Lock()
				o.NFaults++
				o.log = append(o.log, Event{Seq: len(o.log), Kind: EvFault, Actor: c.Actor, Path: c.Path, Label: c.Op, Aux: err.Error(), Off: c.Off, Size: int64(c.Len)})
				o.mu.Unlock()
			}
			return err
		}
	}
	return nil
}

func (o *OS) record(e Event) {
	o.mu.Lock()
	e.Seq = len(o.log)
	e.Actor = o.cur
	o.log = append(o.log, e)
	o.NMut++
	if o.Now != nil {
		switch e.Kind {
		case EvCreate, EvWrite, EvTruncate:
			// nanosecond-granular, strictly increasing stamps (two updates never share an mtime)
			st := o.Now()
			if !st.After(o.lastStamp) {
				st = o.lastStamp.Add(time.Nanosecond)
			}
			o.lastStamp = st
			if e.Ino != 0 {
				o.mtimes[e.Ino] = st
			}
		}
	}
	ae := o.AfterEvent
	o.mu.Unlock()
	if ae != nil {
		ae(&e)
	}
}

func (o *OS) pathOfIno(e Event) string {
	if e.Kind == EvCreate && e.Path != "" {
		return e.Path
	}
	for p, i := range o.inoOf {
		if i == e.Ino {
			return p
		}
	}
	return ""
}

func (o *OS) tracked(f *os.File) *openFile {
	o.mu.Lock()
	defer o.mu.Unlock()
	return o.files[f]
}

func (o *OS) nextRandom() string {
	o.mu.Lock()
	defer o.mu.Unlock()
	o.tmpN++
	return strconv.FormatUint(1000000+o.tmpN, 10)
}

func (o *OS) openFile(name string, flag int, perm os.FileMode) (*os.File, error) {
	rp, ok := o.rel(name)
	if !ok {
		return os.DsimRealOpenFile(name, flag, perm)
	}
	mut := flag&(os.O_CREATE|os.O_TRUNC) != 0
	existed := true
	var wasDir bool
	if fi, err := os.DsimRealLstat(name); err != nil {
		existed = false
	} else {
		wasDir = fi.IsDir()
	}
	willCreate := flag&os.O_CREATE != 0 && !existed
	willTrunc := flag&os.O_TRUNC != 0 && existed && !wasDir
	c := &Call{Op: "open", Path: rp, Flag: flag, Mut: willCreate || willTrunc}
	if willCreate {
		c.Op = "create"
	}
	_ = mut
	if err := o.pre(c); err != nil {
		return nil, pathErr("open", name, err)
	}
	f, err := os.DsimRealOpenFile(name, flag, perm)
	if err != nil {
		return nil, err
	}
	of := &openFile{path: rp, isDir: wasDir, rdonly: flag&(os.O_WRONLY|os.O_RDWR) == 0, app: flag&os.O_APPEND != 0}
	o.mu.Lock()
	of.actor = o.cur
	if !wasDir {
		ino, ok := o.inoOf[rp]
		if !ok || willCreate {
			o.nextIn++
			ino = o.nextIn
			o.inoOf[rp] = ino
		}
		of.ino = ino
	}
	o.files[f] = of
	o.mu.Unlock()
	if willCreate {
		o.record(Event{Kind: EvCreate, Path: rp, Ino: of.ino})
	} else if willTrunc {
		o.record(Event{Kind: EvTruncate, Path: rp, Ino: of.ino, Size: 0})
	}
	return f, nil
}

// rootOpenFile tracks descriptors opened through an os.Root (the LOCK file): they are not part of
// the persistence model, but Kill must be able to close them, which releases their flock.
func (o *OS) rootOpenFile(r *os.Root, name string, flag int, perm os.FileMode) (*os.File, error) {
	full := filepath.Join(r.Name(), name)
	_, lerr := os.DsimRealLstat(full)
	f, err := os.DsimRealRootOpenFile(r, name, flag, perm)
	if err != nil {
		return nil, err
	}
	if rp, ok := o.rel(full); ok {
		o.mu.Lock()
		o.files[f] = &openFile{path: rp, actor: o.cur, isDir: true} // isDir: reads/writes pass through unrecorded
		if lerr != nil && o.Now != nil {
			// the file was created by this open: give it an inode and a simulated mtime
			o.nextIn++
			o.inoOf[rp] = o.nextIn
			st := o.Now()
			if !st.After(o.lastStamp) {
				st = o.lastStamp.Add(time.Nanosecond)
			}
			o.lastStamp = st
			o.mtimes[o.nextIn] = st
		}
		o.mu.Unlock()
	}
	return f, nil
}

func (o *OS) read(f *os.File, b []byte) (int, error) {
	of := o.tracked(f)
	if of == nil || of.isDir {
		return os.DsimRealRead(f, b)
	}
	c := &Call{Op: "read", Path: of.path, Len: len(b), Off: -1}
	if err := o.pre(c); err != nil {
		return 0, pathErr("read", f.Name(), err)
	}
	return os.DsimRealRead(f, b)
}

func (o *OS) readAt(f *os.File, b []byte, off int64) (int, error) {
	of := o.tracked(f)
	if of == nil || of.isDir {
		return os.DsimRealReadAt(f, b, off)
	}
	c := &Call{Op: "readat", Path: of.path, Len: len(b), Off: off}
	if err := o.pre(c); err != nil {
		return 0, pathErr("read", f.Name(), err)
	}
	return os.DsimRealReadAt(f, b, off)
}

func (o *OS) write(f *os.File, b []byte) (int, error) {
	of := o.tracked(f)
	if of == nil || of.isDir {
		return os.DsimRealWrite(f, b)
	}
	var off int64
	if of.app {
		if fi, err := os.DsimRealFStat(f); err == nil {
			off = fi.Size()
		}
	} else {
		off, _ = f.Seek(0, io.SeekCurrent)
	}
	c := &Call{Op: "write", Path: of.path, Len: len(b), Off: off, Mut: true}
	if err := o.pre(c); err != nil {
		var sw ShortWrite
		if errors.As(err, &sw) && sw.N < len(b) {
			n, _ := os.DsimRealWrite(f, b[:sw.N])
			if n > 0 {
				o.record(Event{Kind: EvWrite, Path: of.path, Ino: of.ino, Off: off, Data: append([]byte(nil), b[:n]...)})
			}
			o.noteFault(c, sw.Err)
			return n, pathErr("write", f.Name(), sw.Err)
		}
		return 0, pathErr("write", f.Name(), err)
	}
	n, err := os.DsimRealWrite(f, b)
	if n > 0 {
		o.record(Event{Kind: EvWrite, Path: of.path, Ino: of.ino, Off: off, Data: append([]byte(nil), b[:n]...)})
	}
	return n, err
}

func (o *OS) noteFault(c *Call, err error) {
	o.mu.Lock()
	o.NFaults++
	o.log = append(o.log, Event{Seq: len(o.log), Kind: EvFault, Actor: c.Actor, Path: c.Path, Label: c.Op + "(short)", Aux: err.Error(), Off: c.Off, Size: int64(c.Len)})
	o.mu.Unlock()
}

func (o *OS) writeAt(f *os.File, b []byte, off int64) (int, error) {
	of := o.tracked(f)
	if of == nil || of.isDir {
		return os.DsimRealWriteAt(f, b, off)
	}
	c := &Call{Op: "writeat", Path: of.path, Len: len(b), Off: off, Mut: true}
	if err := o.pre(c); err != nil {
		var sw ShortWrite
		if errors.As(err, &sw) && sw.N < len(b) {
			n, _ := os.DsimRealWriteAt(f, b[:sw.N], off)
			if n > 0 {
				o.record(Event{Kind: EvWrite, Path: of.path, Ino: of.ino, Off: off, Data: append([]byte(nil), b[:n]...)})
			}
			o.noteFault(c, sw.Err)
			return n, pathErr("write", f.Name(), sw.Err)
		}
		return 0, pathErr("write", f.Name(), err)
	}
	n, err := os.DsimRealWriteAt(f, b, off)
	if n > 0 {
		o.record(Event{Kind: EvWrite, Path: of.path, Ino: of.ino, Off: off, Data: append([]byte(nil), b[:n]...)})
	}
	return n, err
}

func (o *OS) close(f *os.File) error {
	o.mu.Lock()
	of := o.files[f]
	delete(o.files, f)
	o.mu.Unlock()
	_ = of
	return os.DsimRealClose(f)
}

func (o *OS) sync(f *os.File) error {
	of := o.tracked(f)
	if of == nil {
		return os.DsimRealSync(f)
	}
	c := &Call{Op: "fsync", Path: of.path, Mut: true}
	if err := o.pre(c); err != nil {
		return pathErr("sync", f.Name(), err)
	}
	// the scratch directory is on tmpfs: a real fsync adds nothing; skip it for speed.
	if of.isDir {
		o.record(Event{Kind: EvSyncDir, Path: of.path})
	} else {
		o.record(Event{Kind: EvSync, Path: of.path, Ino: of.ino})
	}
	return nil
}

func (o *OS) ftruncate(f *os.File, size int64) error {
	of := o.tracked(f)
	if of == nil || of.isDir {
		return os.DsimRealFTruncate(f, size)
	}
	c := &Call{Op: "ftruncate", Path: of.path, Off: size, Mut: true}
	if err := o.pre(c); err != nil {
		return pathErr("truncate", f.Name(), err)
	}
	if err := os.DsimRealFTruncate(f, size); err != nil {
		return err
	}
	o.record(Event{Kind: EvTruncate, Path: of.path, Ino: of.ino, Size: size})
	return nil
}

func (o *OS) truncate(name string, size int64) error {
	rp, ok := o.rel(name)
	if !ok {
		return os.DsimRealTruncate(name, size)
	}
	c := &Call{Op: "truncate", Path: rp, Off: size, Mut: true}
	if err := o.pre(c); err != nil {
		return pathErr("truncate", name, err)
	}
	if err := os.DsimRealTruncate(name, size); err != nil {
		return err
	}
	o.mu.Lock()
	ino, ok := o.inoOf[rp]
	if !ok {
		o.nextIn++
		ino = o.nextIn
		o.inoOf[rp] = ino
	}
	o.mu.Unlock()
	o.record(Event{Kind: EvTruncate, Path: rp, Ino: ino, Size: size})
	return nil
}

func (o *OS) rename(oldpath, newpath string) error {
	r1, ok1 := o.rel(oldpath)
	r2, ok2 := o.rel(newpath)
	if !ok1 && !ok2 {
		return os.DsimRealRename(oldpath, newpath)
	}
	c := &Call{Op: "rename", Path: r1, Path2: r2, Mut: true}
	if err := o.pre(c); err != nil {
		return &os.LinkError{Op: "rename", Old: oldpath, New: newpath, Err: err}
	}
	if err := os.DsimRealRename(oldpath, newpath); err != nil {
		return err
	}
	o.mu.Lock()
	// move inode ids of the renamed file, or of everything below a renamed directory
	if ino, ok := o.inoOf[r1]; ok {
		delete(o.inoOf, r1)
		o.inoOf[r2] = ino
	} else {
		pfx := r1 + "/"
		var ks []string
		for p := range o.inoOf {
			if strings.HasPrefix(p, pfx) {
				ks = append(ks, p)
			}
		}
		sort.Strings(ks)
		for _, p := range ks {
			o.inoOf[r2+"/"+p[len(pfx):]] = o.inoOf[p]
			delete(o.inoOf, p)
		}
	}
	o.mu.Unlock()
	o.record(Event{Kind: EvRename, Path: r1, Path2: r2})
	return nil
}

func (o *OS) remove(name string) error {
	rp, ok := o.rel(name)
	if !ok {
		return os.DsimRealRemove(name)
	}
	c := &Call{Op: "remove", Path: rp, Mut: true}
	if err := o.pre(c); err != nil {
		return pathErr("remove", name, err)
	}
	if err := os.DsimRealRemove(name); err != nil {
		return err
	}
	o.mu.Lock()
	delete(o.inoOf, rp)
	o.mu.Unlock()
	o.record(Event{Kind: EvRemove, Path: rp})
	return nil
}

func (o *OS) removeAll(path string) error {
	rp, ok := o.rel(path)
	if !ok {
		return os.DsimRealRemoveAll(path)
	}
	fi, err := os.DsimRealLstat(path)
	if err != nil {
		if errors.Is(err, fs.ErrNotExist) {
			return nil
		}
		return err
	}
	if fi.IsDir() {
		ents, err := os.DsimRealReadDir(path)
		if err != nil {
			return err
		}
		for _, e := range ents {
			if err := o.removeAll(filepath.Join(path, e.Name())); err != nil {
				return err
			}
		}
	}
	_ = rp
	return o.remove(path)
}

func (o *OS) mkdir(name string, perm os.FileMode) error {
	rp, ok := o.rel(name)
	if !ok {
		return os.DsimRealMkdir(name, perm)
	}
	c := &Call{Op: "mkdir", Path: rp, Mut: true}
	if err := o.pre(c); err != nil {
		return pathErr("mkdir", name, err)
	}
	if err := os.DsimRealMkdir(name, perm); err != nil {
		return err
	}
	o.record(Event{Kind: EvMkdir, Path: rp})
	return nil
}

func (o *OS) link(oldname, newname string) error {
	r1, ok1 := o.rel(oldname)
	r2, ok2 := o.rel(newname)
	if !ok1 || !ok2 {
		return os.DsimRealLink(oldname, newname)
	}
	c := &Call{Op: "link", Path: r1, Path2: r2, Mut: true}
	if err := o.pre(c); err != nil {
		return &os.LinkError{Op: "link", Old: oldname, New: newname, Err: err}
	}
	if err := os.DsimRealLink(oldname, newname); err != nil {
		return err
	}
	o.mu.Lock()
	ino, ok := o.inoOf[r1]
	if !ok {
		o.nextIn++
		ino = o.nextIn
		o.inoOf[r1] = ino
	}
	o.inoOf[r2] = ino
	o.mu.Unlock()
	o.record(Event{Kind: EvLink, Path: r1, Path2: r2, Ino: ino})
	return nil
}

func (o *OS) withMtime(rp string, fi os.FileInfo) os.FileInfo {
	if o.Now == nil || fi == nil {
		return fi
	}
	o.mu.Lock()
	ino := o.inoOf[rp]
	t, ok := o.mtimes[ino]
	o.mu.Unlock()
	if ok && ino != 0 {
		return os.DsimWithModTime(fi, t)
	}
	if fi.IsDir() {
		return fi
	}
	// a file the simulator has no stamp for must not leak the real clock into simulated time
	return os.DsimWithModTime(fi, time.Date(2000, 1, 1, 0, 0, 0, 0, time.UTC))
}

func (o *OS) withMtimeIno(ino int, fi os.FileInfo) os.FileInfo {
	if o.Now == nil || fi == nil || ino == 0 {
		return fi
	}
	o.mu.Lock()
	t, ok := o.mtimes[ino]
	o.mu.Unlock()
	if ok {
		return os.DsimWithModTime(fi, t)
	}
	return fi
}

func (o *OS) stat(name string) (os.FileInfo, error) {
	rp, ok := o.rel(name)
	if !ok {
		return os.DsimRealStat(name)
	}
	if err := o.pre(&Call{Op: "stat", Path: rp}); err != nil {
		return nil, pathErr("stat", name, err)
	}
	fi, err := os.DsimRealStat(name)
	return o.withMtime(rp, fi), err
}

func (o *OS) lstat(name string) (os.FileInfo, error) {
	rp, ok := o.rel(name)
	if !ok {
		return os.DsimRealLstat(name)
	}
	if err := o.pre(&Call{Op: "lstat", Path: rp}); err != nil {
		return nil, pathErr("lstat", name, err)
	}
	fi, err := os.DsimRealLstat(name)
	return o.withMtime(rp, fi), err
}

func (o *OS) fstat(f *os.File) (os.FileInfo, error) {
	of := o.tracked(f)
	if of == nil {
		return os.DsimRealFStat(f)
	}
	if err := o.pre(&Call{Op: "fstat", Path: of.path}); err != nil {
		return nil, pathErr("stat", f.Name(), err)
	}
	fi, err := os.DsimRealFStat(f)
	return o.withMtimeIno(of.ino, fi), err
}

func (o *OS) readDir(name string) ([]os.DirEntry, error) {
	rp, ok := o.rel(name)
	if !ok {
		return os.DsimRealReadDir(name)
	}
	if err := o.pre(&Call{Op: "readdir", Path: rp}); err != nil {
		return nil, pathErr("readdir", name, err)
	}
	ents, err := os.DsimRealReadDir(name)
	if o.Now != nil {
		for i, e := range ents {
			erp := e.Name()
			if rp != "." {
				erp = rp + "/" + e.Name()
			}
			ents[i] = simDirEntry{DirEntry: e, o: o, rp: erp}
		}
	}
	return ents, err
}

// simDirEntry makes DirEntry.Info report the simulated mtime.
type simDirEntry struct {
	os.DirEntry
	o  *OS
	rp string
}

func (d simDirEntry) Info() (os.FileInfo, error) {
	fi, err := d.DirEntry.Info()
	if err != nil {
		return fi, err
	}
	return d.o.withMtime(d.rp, fi), nil
}

// Adopt registers files that already exist under Root (e.g. a crash image that was just
// materialised) so that later events refer to them by inode.
func (o *OS) Adopt() error {
	return filepath.Walk(o.Root, func(p string, info fs.FileInfo, err error) error {
		if err != nil {
			return err
		}
		if info.Mode().IsRegular() {
			rp, _ := o.rel(p)
			o.mu.Lock()
			if _, ok := o.inoOf[rp]; !ok {
				o.nextIn++
				o.inoOf[rp] = o.nextIn
			}
			o.mu.Unlock()
		}
		return nil
	})
}
