// dsim is the coordinator behind every registered check:
//
//	dsim check <property> <quick|thorough>     rebuild from /repo, fan out seeded runs, aggregate,
//	                                           minimise + replay-verify, write evidence, exit 0/1/2
//	dsim replay <file>                         re-execute a replay file in a fresh process
//	dsim build <binary>                        (re)build one simulation binary
//	dsim selftest determinism <property>       same seeds, separate processes, GOMAXPROCS 1/4/16
//
// Exit codes: 0 property held on everything explored (KNOWN-FINDING lines allowed), 1 violation
// (a line "VIOLATION property=<id> replay=<path>"), 2 machinery trouble (build, watchdog,
// non-reproducible failure) — never reported as a violation.
package main

import (
	"bufio"
	"bytes"
	"encoding/json"
	"fmt"
	"os"
	"os/exec"
	"path/filepath"
	"runtime"
	"sort"
	"strconv"
	"strings"
	"sync"
	"time"
)

const (
	repoDir = "/repo"
	goBin   = "go1.26.8"
)

// replaysSub: replay files of sensitivity self-tests (a deliberate change compiled in) are kept apart
// from those found on /repo.
var replaysSub = func() string {
	if os.Getenv("DSIM_CANARY") != "" {
		return filepath.Join("build", "replays-selftest")
	}
	return "replays"
}()

// verifDir is where the machinery lives: /verif, or the snapshot of it a background run works in
// (the check script passes its own location in DSIM_VERIF_DIR).
var verifDir = func() string {
	if d := os.Getenv("DSIM_VERIF_DIR"); d != "" {
		return d
	}
	return "/verif"
}()

type violation struct {
	Class  string          `json:"class"`
	Detail string          `json:"detail"`
	Step   int             `json:"step"`
	Key    string          `json:"key"`
	Pinned json.RawMessage `json:"pinned,omitempty"`
}

type scenario struct {
	Property string          `json:"property"`
	Harness  string          `json:"harness"`
	Seed     uint64          `json:"seed"`
	Tier     string          `json:"tier"`
	Body     json.RawMessage `json:"body"`
}

type result struct {
	Seed        uint64         `json:"seed"`
	Evaluations int            `json:"evaluations"`
	CaseHashes  []uint64       `json:"case_hashes"`
	Trivial     int            `json:"trivial"`
	Faults      map[string]int `json:"faults"`
	Probes      map[string]int `json:"probes"`
	LogHash     string         `json:"log_hash"`
	SimTimeMS   int64          `json:"sim_ms"`
	Ops         int            `json:"ops"`
	Inconcl     int            `json:"inconclusive"`
	Sample      any            `json:"sample"`
	Violations  []*violation   `json:"violations"`
	Scenario    *scenario      `json:"scenario"`
	Panic       string         `json:"panic"`
}

func fatal2(format string, a ...any) {
	fmt.Fprintf(os.Stderr, "dsim: "+format+"\n", a...)
	removeBins()
	os.Exit(2)
}

func goEnv() []string {
	env := os.Environ()
	env = append(env, "GOFLAGS=-mod=mod", "GOPROXY=off", "GOTOOLCHAIN=local", "GOSUMDB=off")
	return env
}

func run(dir string, env []string, name string, args ...string) ([]byte, error) {
	cmd := exec.Command(name, args...)
	cmd.Dir = dir
	cmd.Env = env
	return cmd.CombinedOutput()
}

var buildMu sync.Mutex
var cleanupBins []string

func removeBins() {
	for _, b := range cleanupBins {
		os.Remove(b)
	}
}

// build regenerates the overlay from the current /repo tree and builds one test binary.
func build(bin string) string {
	buildMu.Lock()
	defer buildMu.Unlock()
	simDir := filepath.Join(verifDir, "sim")
	ov := filepath.Join(verifDir, "build", "overlay")
	os.MkdirAll(ov, 0o755)
	os.MkdirAll(filepath.Join(verifDir, "build", "bin"), 0o755)
	// go.sum comes from the repo (no network)
	if b, err := os.ReadFile(filepath.Join(repoDir, "go", "go.sum")); err == nil {
		os.WriteFile(filepath.Join(simDir, "go.sum"), b, 0o644)
	}
	gen := filepath.Join(verifDir, "build", "bin", "dsimgen")
	if out, err := run(simDir, goEnv(), goBin, "build", "-o", gen, "./gen"); err != nil {
		fatal2("building dsimgen failed: %v\n%s", err, out)
	}
	genArgs := []string{"-repo", repoDir, "-patch", filepath.Join(simDir, "patch"), "-out", ov}
	if c := os.Getenv("DSIM_CANARY"); c != "" {
		// sensitivity self-test only: a deliberate breaking change substituted through the overlay
		genArgs = append(genArgs, "-canary", c)
		fmt.Fprintf(os.Stderr, "dsim: building with canary %s (self-test; /repo untouched)\n", c)
	}
	if out, err := run(simDir, goEnv(), gen, genArgs...); err != nil {
		fatal2("overlay generation failed (an anchor no longer matches the tree?): %v\n%s", err, out)
	}
	pkg := map[string]string{"dsim-store": "./store", "dsim-refs": "./refs", "dsim-sql": "./sql"}[bin]
	if pkg == "" {
		fatal2("unknown binary %q", bin)
	}
	outPath := filepath.Join(verifDir, "build", "bin", bin+".test")
	t0 := time.Now()
	// build beside the target and rename into place: another check may be executing the old binary
	tmpOut := fmt.Sprintf("%s.new.%d", outPath, os.Getpid())
	if out, err := run(simDir, goEnv(), goBin, "test", "-c", "-vet=off", "-overlay", filepath.Join(ov, "overlay.json"), "-o", tmpOut, pkg); err != nil {
		os.Remove(tmpOut)
		fatal2("building %s from the current /repo tree failed: %v\n%s", bin, err, lastLines(string(out), 60))
	}
	// every check works on its own copy so that a concurrent rebuild cannot swap the binary under it
	outPath = fmt.Sprintf("%s.%d", outPath, os.Getpid())
	if err := os.Rename(tmpOut, outPath); err != nil {
		fatal2("%v", err)
	}
	if os.Getenv("DSIM_KEEP_BIN") == "" {
		cleanupBins = append(cleanupBins, outPath)
	} else {
		fmt.Fprintf(os.Stderr, "dsim: keeping %s\n", outPath)
	}
	// drop copies left behind by invocations that were killed
	if ents, err := os.ReadDir(filepath.Dir(outPath)); err == nil {
		for _, e := range ents {
			n := e.Name()
			i := strings.LastIndex(n, ".")
			if i < 0 || !strings.Contains(n, ".test.") {
				continue
			}
			if pid, err := strconv.Atoi(n[i+1:]); err == nil {
				if _, err := os.Stat(fmt.Sprintf("/proc/%d", pid)); err != nil {
					os.Remove(filepath.Join(filepath.Dir(outPath), n))
				}
			}
		}
	}
	fmt.Fprintf(os.Stderr, "dsim: built %s in %.1fs\n", bin, time.Since(t0).Seconds())
	return outPath
}

func lastLines(s string, n int) string {
	ls := strings.Split(strings.TrimRight(s, "\n"), "\n")
	if len(ls) > n {
		ls = ls[len(ls)-n:]
	}
	return strings.Join(ls, "\n")
}

func scratchDir() string {
	base := os.Getenv("VERIF_SCRATCH")
	if base == "" {
		if fi, err := os.Stat("/dev/shm"); err == nil && fi.IsDir() {
			base = "/dev/shm"
		} else {
			base = "/var/tmp"
		}
	}
	d := filepath.Join(base, fmt.Sprintf("dsim.coord.%d", os.Getpid()))
	os.MkdirAll(d, 0o755)
	return d
}

// cleanStale removes scratch left by dead workers of earlier invocations.
func cleanStale(base string) {
	ents, _ := os.ReadDir(base)
	for _, e := range ents {
		n := e.Name()
		if !strings.HasPrefix(n, "dsim.") {
			continue
		}
		parts := strings.Split(n, ".")
		if len(parts) < 3 {
			continue
		}
		pidStr := parts[1]
		if parts[1] == "coord" {
			pidStr = parts[2]
		}
		pid, err := strconv.Atoi(pidStr)
		if err != nil {
			continue
		}
		if _, err := os.Stat(fmt.Sprintf("/proc/%d", pid)); err != nil {
			os.RemoveAll(filepath.Join(base, n))
		}
	}
}

type workerOut struct {
	results     []*result
	err         error
	stderr      string
	crashed     bool
	crashedAt   int64
	crashedCase int
}

// runWorker executes one worker process and parses its output file.
func runWorker(binPath, scratch string, env map[string]string, timeout time.Duration, gomaxprocs int) workerOut {
	outFile := filepath.Join(scratch, fmt.Sprintf("w%d.%d.jsonl", time.Now().UnixNano(), os.Getpid()))
	defer os.Remove(outFile)
	// RLIMIT_AS bounds a runaway allocation (the sandbox has no memory limit of its own)
	limit := "4000000"
	if env["DSIM_NO_AS_LIMIT"] != "" {
		limit = "unlimited"
	}
	cmd := exec.Command("/bin/sh", "-c", "ulimit -v "+limit+"; exec \"$0\" \"$@\"", binPath, "-test.run", "^TestSim$", "-test.timeout", "0")
	cmd.Dir = scratch
	e := os.Environ()
	for k, v := range env {
		e = append(e, k+"="+v)
	}
	sentinel := outFile + ".sentinel"
	defer os.Remove(sentinel)
	e = append(e, "DSIM_OUT="+outFile, "VERIF_SCRATCH="+filepath.Dir(scratch), "DSIM_SENTINEL="+sentinel)
	if gomaxprocs > 0 {
		e = append(e, "GOMAXPROCS="+strconv.Itoa(gomaxprocs))
	}
	cmd.Env = e
	var stderr bytes.Buffer
	cmd.Stdout = &stderr
	cmd.Stderr = &stderr
	if err := cmd.Start(); err != nil {
		return workerOut{err: err}
	}
	done := make(chan error, 1)
	go func() { done <- cmd.Wait() }()
	var werr error
	select {
	case werr = <-done:
	case <-time.After(timeout):
		// watchdog: dump goroutines, then kill
		cmd.Process.Signal(os.Interrupt)
		time.Sleep(200 * time.Millisecond)
		cmd.Process.Kill()
		<-done
		werr = fmt.Errorf("watchdog: worker exceeded %v", timeout)
		if sb, err := os.ReadFile(sentinel); err == nil {
			os.MkdirAll(filepath.Join(verifDir, replaysSub), 0o755)
			pf := filepath.Join(verifDir, replaysSub, fmt.Sprintf("hang-%d.json", time.Now().UnixNano()))
			os.WriteFile(pf, sb, 0o644)
			werr = fmt.Errorf("%v (case in flight saved to %s)", werr, pf)
		}
	}
	wo := workerOut{stderr: lastLines(stderr.String(), 80)}
	if werr != nil {
		// keep the whole output of a worker that did not end well (the report shows its last lines only)
		dir := filepath.Join(verifDir, "build", "worker-stderr", env["DSIM_HARNESS"])
		os.MkdirAll(dir, 0o755)
		os.WriteFile(filepath.Join(dir, fmt.Sprintf("%d.%d.log", time.Now().UnixNano(), os.Getpid())), stderr.Bytes(), 0o644)
	}
	f, err := os.Open(outFile)
	if err == nil {
		defer f.Close()
		sc := bufio.NewScanner(f)
		sc.Buffer(make([]byte, 1<<20), 1<<30)
		for sc.Scan() {
			var r result
			if err := json.Unmarshal(sc.Bytes(), &r); err != nil {
				wo.err = fmt.Errorf("bad worker output: %v", err)
				break
			}
			wo.results = append(wo.results, &r)
		}
	}
	if werr != nil && wo.err == nil {
		wo.err = werr
	}
	// the worker died while a crash sentinel was armed: the code under test crashed the process
	if werr != nil && !strings.HasPrefix(werr.Error(), "watchdog") {
		if sb, err := os.ReadFile(sentinel); err == nil {
			var s struct {
				RunIndex uint64    `json:"run_index"`
				Seed     uint64    `json:"seed"`
				Class    string    `json:"class"`
				Key      string    `json:"key"`
				Detail   string    `json:"detail"`
				Scenario *scenario `json:"scenario"`
				Case     int       `json:"case"`
			}
			full := stderr.String()
			if json.Unmarshal(sb, &s) == nil && s.Scenario != nil && (strings.Contains(full, "panic:") || strings.Contains(full, "fatal error:") || strings.Contains(full, "\nSIGABRT") || strings.Contains(full, "\nSIGSEGV") || strings.Contains(full, "\nSIGBUS")) {
				msg, fn := panicSite(full)
				if strings.Contains(msg, "out of memory") {
					s.Class = "oom-" + strings.TrimPrefix(s.Class, "panic-")
				}
				v := &violation{Class: s.Class, Key: s.Key + ";panic_in=" + fn, Detail: s.Detail + ": process crashed: " + msg + " in " + fn, Pinned: s.Scenario.Body}
				wo.results = append(wo.results, &result{Seed: s.Seed, Evaluations: 1, Violations: []*violation{v}, Scenario: s.Scenario, LogHash: "crash:" + fn})
				wo.err = nil
				wo.crashedAt = int64(s.RunIndex)
				wo.crashedCase = s.Case
				wo.crashed = true
			}
		}
	}
	return wo
}

// panicSite extracts the panic message and the first dolt function of the crashing goroutine.
func panicSite(trace string) (msg, fn string) {
	lines := strings.Split(trace, "\n")
	fn = "unknown"
	for i, l := range lines {
		// (a signal raised outside Go code - abort() in a C library - is reported as "SIGABRT: abort")
		if strings.HasPrefix(l, "panic:") || strings.HasPrefix(l, "fatal error:") || strings.HasPrefix(l, "SIGABRT") || strings.HasPrefix(l, "SIGSEGV") || strings.HasPrefix(l, "SIGBUS") {
			if msg == "" {
				msg = strings.TrimSpace(l)
				if len(msg) > 160 {
					msg = msg[:160]
				}
			}
			for _, m := range lines[i+1:] {
				if strings.HasPrefix(m, "github.com/dolthub/dolt/go/") {
					f := strings.TrimPrefix(m, "github.com/dolthub/dolt/go/")
					if j := strings.LastIndex(f, "("); j > 0 {
						f = f[:j]
					}
					fn = f
					break
				}
			}
			break
		}
	}
	return
}

type knownFinding struct {
	fixed    bool
	property string
	class    string
	keys     []string
	text     string
}

func loadKnown() []knownFinding {
	b, err := os.ReadFile(filepath.Join(verifDir, "known_findings.txt"))
	if err != nil {
		return nil
	}
	var out []knownFinding
	for _, line := range strings.Split(string(b), "\n") {
		line = strings.TrimSpace(line)
		if line == "" || strings.HasPrefix(line, "#") {
			continue
		}
		kf := knownFinding{text: line}
		head, _, _ := strings.Cut(line, " -- ")
		fs := strings.Fields(head)
		if len(fs) == 0 {
			continue
		}
		switch fs[0] {
		case "finding:":
		case "fixed:":
			kf.fixed = true
		default:
			continue
		}
		for _, f := range fs[1:] {
			k, v, ok := strings.Cut(f, "=")
			if !ok {
				continue
			}
			switch k {
			case "property":
				kf.property = v
			case "class":
				kf.class = v
			case "key":
				kf.keys = append(kf.keys, v)
			}
		}
		out = append(out, kf)
	}
	return out
}

func (k knownFinding) matches(prop string, v *violation) bool {
	if k.fixed || k.property != prop || k.class != v.Class {
		return false
	}
	for _, s := range k.keys {
		if !strings.Contains(v.Key, s) {
			return false
		}
	}
	return true
}

func main() {
	if len(os.Args) < 2 {
		fatal2("usage: dsim check|replay|build|selftest ...")
	}
	switch os.Args[1] {
	case "check":
		if len(os.Args) < 4 {
			fatal2("usage: dsim check <property> <quick|thorough>")
		}
		rc := check(os.Args[2], os.Args[3])
		removeBins()
		os.Exit(rc)
	case "build":
		for _, b := range os.Args[2:] {
			build(b)
		}
		removeBins() // setup only warms the build cache
	case "replay":
		if len(os.Args) < 3 {
			fatal2("usage: dsim replay <file>")
		}
		rc := replayCmd(os.Args[2])
		removeBins()
		os.Exit(rc)
	case "selftest":
		if len(os.Args) < 4 || os.Args[2] != "determinism" {
			fatal2("usage: dsim selftest determinism <property> [nseeds]")
		}
		n := 60
		if len(os.Args) > 4 {
			n, _ = strconv.Atoi(os.Args[4])
		}
		rc := selftestDeterminism(os.Args[3], n)
		removeBins()
		os.Exit(rc)
	default:
		fatal2("unknown command %q", os.Args[1])
	}
}

func verifSeed() uint64 {
	s := os.Getenv("VERIF_SEED")
	if s == "" {
		return 1
	}
	v, err := strconv.ParseUint(s, 10, 64)
	if err != nil {
		// accept negative / arbitrary integers by hashing their text
		var h uint64 = 1469598103934665603
		for i := 0; i < len(s); i++ {
			h = (h ^ uint64(s[i])) * 1099511628211
		}
		return h
	}
	return v
}

func check(prop, tier string) int {
	// outputs of workers that ended badly in earlier checks (kept for diagnosis) are dropped
	os.RemoveAll(filepath.Join(verifDir, "build", "worker-stderr", prop))
	p, ok := props[prop]
	if !ok {
		fatal2("property %s has no dsim check (see MANIFEST.json not_applicable)", prop)
	}
	if t := os.Getenv("VERIF_TIER"); t == "quick" || t == "thorough" {
		tier = t
	}
	if tier != "quick" && tier != "thorough" {
		fatal2("tier must be quick or thorough")
	}
	start := time.Now()
	binPath := build(p.Binary)
	scratch := scratchDir()
	cleanStale(filepath.Dir(scratch))
	defer os.RemoveAll(scratch)

	bud := p.Quick
	if tier == "thorough" {
		bud = p.Thorough
	}
	seed := verifSeed()
	workers := runtime.NumCPU()
	if w := os.Getenv("DSIM_WORKERS"); w != "" {
		workers, _ = strconv.Atoi(w)
	}
	if ws := os.Getenv("DSIM_WALL_S"); ws != "" { // a shorter exploration budget for sweeps over many properties
		if n, err := strconv.Atoi(ws); err == nil && n > 0 {
			bud.Wall = time.Duration(n) * time.Second
		}
	}
	deadline := time.Now().Add(bud.Wall) // the exploration budget starts once the build is done

	// work queue of run-index chunks
	type chunk struct{ from, to int }
	var chunks []chunk
	for i := 0; i < bud.Runs; i += bud.Chunk {
		to := i + bud.Chunk
		if to > bud.Runs {
			to = bud.Runs
		}
		chunks = append(chunks, chunk{i, to})
	}
	var mu sync.Mutex
	next := 0
	var all []*result
	var machineErrs []string
	var wg sync.WaitGroup
	for w := 0; w < workers; w++ {
		wg.Add(1)
		go func() {
			defer wg.Done()
			for {
				mu.Lock()
				if next >= len(chunks) || time.Now().After(deadline) || len(machineErrs) > 3 {
					mu.Unlock()
					return
				}
				c := chunks[next]
				next++
				mu.Unlock()
				env := map[string]string{"DSIM_MODE": "run", "DSIM_HARNESS": p.Harness, "DSIM_TIER": tier, "VERIF_SEED": strconv.FormatUint(seed, 10),
					"DSIM_RANGE": fmt.Sprintf("%d:%d", c.from, c.to), "DSIM_DEADLINE_UNIX": strconv.FormatInt(deadline.Unix(), 10)}
				wo := runWorker(binPath, scratch, env, bud.Wall+bud.PerChunkGrace, 0)
				// the code under test crashed the worker process: resume the same run after the
				// crashing case (bounded), then carry on with the rest of the chunk
				resumes := 0
				for wo.crashed && wo.err == nil {
					acc := wo.results
					if resumes < 40 {
						resumes++
						env["DSIM_RANGE"] = fmt.Sprintf("%d:%d", wo.crashedAt, c.to)
						env["DSIM_SKIP"] = strconv.Itoa(wo.crashedCase + 1)
					} else if int(wo.crashedAt)+1 < c.to {
						resumes = 0
						env["DSIM_RANGE"] = fmt.Sprintf("%d:%d", wo.crashedAt+1, c.to)
						delete(env, "DSIM_SKIP")
					} else {
						break
					}
					more := runWorker(binPath, scratch, env, bud.Wall+bud.PerChunkGrace, 0)
					more.results = append(acc, more.results...)
					wo = more
				}
				mu.Lock()
				all = append(all, wo.results...)
				if wo.err != nil {
					machineErrs = append(machineErrs, fmt.Sprintf("worker for runs %d..%d: %v\n%s", c.from, c.to, wo.err, wo.stderr))
				}
				mu.Unlock()
			}
		}()
	}
	wg.Wait()
	// A machinery failure (a worker died outside any armed sentinel, a watchdog, a harness panic)
	// makes the check inconclusive (exit 2) unless some other run found a violation that
	// reproduces: a confirmed violation is reported first.
	machinery := ""
	if len(machineErrs) > 0 {
		machinery = "dsim: machinery failure (not a violation):\n" + strings.Join(machineErrs, "\n")
	}
	sort.Slice(all, func(i, j int) bool { return all[i].Seed < all[j].Seed })
	{
		kept := all[:0]
		for _, r := range all {
			if r.Panic != "" {
				if machinery == "" {
					os.MkdirAll(filepath.Join(verifDir, replaysSub), 0o755)
					pf := filepath.Join(verifDir, replaysSub, fmt.Sprintf("%s-panic-%d.json", prop, r.Seed))
					b, _ := json.MarshalIndent(map[string]any{"scenario": r.Scenario, "panic": r.Panic}, "", " ")
					os.WriteFile(pf, b, 0o644)
					machinery = fmt.Sprintf("dsim: harness failure in run seed %d (not a violation; scenario saved to %s):\n%s", r.Seed, pf, lastLines(r.Panic, 30))
				}
				continue
			}
			kept = append(kept, r)
		}
		all = kept
	}
	if len(all) == 0 {
		if machinery != "" {
			fmt.Fprintln(os.Stderr, machinery)
		}
		fmt.Fprintf(os.Stderr, "dsim: no runs completed\n")
		return 2
	}
	for _, r := range all[:0] {
		if r.Panic != "" {
			os.MkdirAll(filepath.Join(verifDir, replaysSub), 0o755)
			pf := filepath.Join(verifDir, replaysSub, fmt.Sprintf("%s-panic-%d.json", prop, r.Seed))
			b, _ := json.MarshalIndent(map[string]any{"scenario": r.Scenario, "panic": r.Panic}, "", " ")
			os.WriteFile(pf, b, 0o644)
			fmt.Fprintf(os.Stderr, "dsim: harness failure in run seed %d (not a violation; scenario saved to %s):\n%s\n", r.Seed, pf, lastLines(r.Panic, 30))
			return 2
		}
	}
	if len(all) == 0 {
		fmt.Fprintf(os.Stderr, "dsim: no runs completed\n")
		return 2
	}

	// ---- aggregate ----
	ev := aggregate(prop, tier, seed, p, all, time.Since(start))
	known := loadKnown()
	type hit struct {
		r *result
		v *violation
	}
	var unknown []hit
	knownSeen := map[string]int{}
	for _, r := range all {
		for _, v := range r.Violations {
			matched := false
			for _, k := range known {
				if k.matches(prop, v) {
					knownSeen[k.text]++
					matched = true
					break
				}
			}
			if !matched {
				unknown = append(unknown, hit{r, v})
			}
		}
	}
	kts := make([]string, 0, len(knownSeen))
	for k := range knownSeen {
		kts = append(kts, k)
	}
	sort.Strings(kts)
	for _, k := range kts {
		_, rest, _ := strings.Cut(k, "property="+prop)
		fmt.Printf("KNOWN-FINDING: property=%s%s (seen in %d runs)\n", prop, rest, knownSeen[k])
	}
	ev["known_findings_seen"] = len(knownSeen)
	ev["violations"] = len(unknown)

	exit := 0
	if len(unknown) > 0 {
		cnt := map[string]int{}
		ex := map[string]string{}
		for _, h := range unknown {
			k := h.v.Class + " | " + h.v.Key
			cnt[k]++
			ex[k] = h.v.Detail
		}
		ks := make([]string, 0, len(cnt))
		for k := range cnt {
			ks = append(ks, k)
		}
		sort.Strings(ks)
		fmt.Fprintf(os.Stderr, "dsim: %d distinct unlisted violation kinds:\n", len(ks))
		for i, k := range ks {
			if i >= 40 {
				break
			}
			d := ex[k]
			if len(d) > 240 {
				d = d[:240]
			}
			fmt.Fprintf(os.Stderr, "  %4dx %s\n        e.g. %s\n", cnt[k], k, d)
		}
		h := unknown[0]
		if oc := os.Getenv("DSIM_ONLY_CLASS"); oc != "" { // triage aid: minimise the first violation of this class
			for _, u := range unknown {
				if u.v.Class == oc && (os.Getenv("DSIM_ONLY_KEY") == "" || u.v.Key == os.Getenv("DSIM_ONLY_KEY")) {
					h = u
					break
				}
			}
		}
		fmt.Fprintf(os.Stderr, "dsim: %d unlisted violation(s); first: class=%s key=%s\n  %s\n", len(unknown), h.v.Class, h.v.Key, h.v.Detail)
		// A violation is reported only with a replay file that reproduces it. Harnesses that leave
		// dolt's own helper goroutines unscheduled (DESIGN 3.2) do not replay every run bit for bit, so
		// when the first violating run does not reproduce, the other violating runs are tried (same
		// class first) before the failure is put down to the machinery.
		cands := []hit{h}
		for pass := 0; pass < 2; pass++ {
			for _, u := range unknown {
				if u.r == h.r || len(cands) >= 8 {
					continue
				}
				dup := false
				for _, c := range cands {
					dup = dup || c.r == u.r
				}
				if !dup && (u.v.Class == h.v.Class) == (pass == 0) {
					cands = append(cands, u)
				}
			}
		}
		var final *scenario
		var fv *violation
		status := "nonrepro"
		for ci, c := range cands {
			sc := *c.r.Scenario
			if len(c.v.Pinned) > 0 {
				sc.Body = c.v.Pinned
			}
			final, fv, status = minimise(binPath, scratch, &sc, c.v, p, known, prop)
			if status != "nonrepro" {
				h = c
				break
			}
			// keep for triage; machinery defect unless another run reproduces
			os.MkdirAll(filepath.Join(verifDir, replaysSub), 0o755)
			pf := filepath.Join(verifDir, replaysSub, fmt.Sprintf("%s-nonrepro-%d.json", prop, c.r.Seed))
			b, _ := json.MarshalIndent(map[string]any{"scenario": sc, "violation": c.v}, "", " ")
			os.WriteFile(pf, b, 0o644)
			fmt.Fprintf(os.Stderr, "dsim: violation of run seed %d did not reproduce on replay (saved %s); %d more violating run(s) to try\n", c.r.Seed, pf, len(cands)-ci-1)
		}
		if status == "nonrepro" {
			fmt.Fprintf(os.Stderr, "dsim: no violating run reproduced on replay (machinery defect, not reported as a violation)\n")
			writeEvidence(prop, ev)
			return 2
		}
		os.MkdirAll(filepath.Join(verifDir, replaysSub), 0o755)
		pf := filepath.Join(verifDir, replaysSub, fmt.Sprintf("%s-%d.json", prop, h.r.Seed))
		b, _ := json.MarshalIndent(map[string]any{"property": prop, "scenario": final, "violation": fv, "tree": treeID(),
			"replay_cmd": "cd /verif && ./check replay " + pf}, "", " ")
		os.WriteFile(pf, b, 0o644)
		fmt.Printf("VIOLATION property=%s replay=%s\n", prop, pf)
		fmt.Printf("  class=%s key=%s\n  %s\n", fv.Class, fv.Key, fv.Detail)
		exit = 1
	}
	if exit == 0 && machinery != "" {
		fmt.Fprintln(os.Stderr, machinery)
		exit = 2
	}
	ev["wall_s"] = time.Since(start).Seconds()
	writeEvidence(prop, ev)
	fmt.Printf("dsim: %s %s: %d runs, %d evaluations, %d distinct non-trivial, %d known-finding kinds, %d unlisted violations, %.1fs\n",
		prop, tier, len(all), ev["coverage"].(map[string]any)["evaluations"], ev["coverage"].(map[string]any)["distinct_nontrivial"], len(knownSeen), len(unknown), time.Since(start).Seconds())
	return exit
}

func treeID() string {
	out, _ := run(repoDir, os.Environ(), "git", "rev-parse", "HEAD")
	st, _ := run(repoDir, os.Environ(), "git", "status", "--porcelain", "--untracked-files=no")
	id := strings.TrimSpace(string(out))
	if len(bytes.TrimSpace(st)) > 0 {
		id += "+dirty"
	}
	return id
}

func aggregate(prop, tier string, seed uint64, p propDef, all []*result, wall time.Duration) map[string]any {
	distinct := map[uint64]struct{}{}
	faults := map[string]int{}
	probes := map[string]int{}
	evals, trivial, ops, inconcl := 0, 0, 0, 0
	var simMS int64
	var samples []any
	for _, r := range all {
		evals += r.Evaluations
		trivial += r.Trivial
		ops += r.Ops
		inconcl += r.Inconcl
		simMS += r.SimTimeMS
		for _, h := range r.CaseHashes {
			distinct[h] = struct{}{}
		}
		for k, v := range r.Faults {
			faults[k] += v
		}
		for k, v := range r.Probes {
			probes[k] += v
		}
		if len(samples) < 3 && r.Sample != nil {
			samples = append(samples, map[string]any{"run_seed": r.Seed, "case": r.Sample})
		}
	}
	if len(samples) == 0 {
		samples = append(samples, "no sample produced")
	}
	cov := map[string]any{
		"evaluations":          evals,
		"distinct_nontrivial":  len(distinct),
		"rule":                 p.Rule,
		"samples":              samples,
		"runs":                 len(all),
		"run_seeds":            map[string]any{"verif_seed": seed, "first_run_seed": all[0].Seed, "derivation": "sha256(VERIF_SEED, property, run index)"},
		"trivial_cases":        trivial,
		"operations":           ops,
		"faults_fired":         faults,
		"probes":               probes,
		"simulated_time_s":     float64(simMS) / 1000,
		"runs_per_hour":        float64(len(all)) / wall.Hours(),
		"evaluations_per_hour": float64(evals) / wall.Hours(),
		"inconclusive":         inconcl,
		"real_components":      p.Real,
		"stub_components":      p.Stub,
		"persistence_model":    p.Persistence,
		"exhaustive":           false,
		"exhaustive_note":      p.ExhaustiveNote,
	}
	var zero []string
	for _, k := range p.ExpectProbes {
		if probes[k] == 0 && faults[k] == 0 {
			zero = append(zero, k)
		}
	}
	if len(zero) > 0 {
		cov["probes_stuck_at_zero"] = zero
		fmt.Fprintf(os.Stderr, "dsim: warning: probes stuck at zero: %v\n", zero)
	}
	return map[string]any{
		"property_id": prop,
		"tier":        tier,
		"seed":        int64(seed & 0x7fffffffffffffff),
		"level":       p.Level,
		"coverage":    cov,
		"assumptions": p.Assumptions,
		"wall_s":      wall.Seconds(),
		"violations":  0,
	}
}

func writeEvidence(prop string, ev map[string]any) {
	dir := filepath.Join(verifDir, "evidence")
	if os.Getenv("DSIM_CANARY") != "" {
		// a sensitivity self-test compiled a deliberate change in: what it covered is not evidence
		// about /repo
		dir = filepath.Join(verifDir, "build", "evidence-selftest")
	}
	os.MkdirAll(dir, 0o755)
	b, _ := json.MarshalIndent(ev, "", " ")
	if err := os.WriteFile(filepath.Join(dir, prop+".json"), b, 0o644); err != nil {
		fatal2("writing evidence: %v", err)
	}
}

// replayOnce executes a scenario in a fresh worker and returns the result.
func replayOnce(binPath, scratch string, sc *scenario, gomaxprocs int) (*result, error) {
	f := filepath.Join(scratch, fmt.Sprintf("sc%d.json", time.Now().UnixNano()))
	b, _ := json.Marshal(map[string]any{"scenario": sc})
	os.WriteFile(f, b, 0o644)
	defer os.Remove(f)
	env := map[string]string{"DSIM_MODE": "replay", "DSIM_SCENARIO": f}
	if replayWithoutASLimit {
		env["DSIM_NO_AS_LIMIT"] = "1"
	}
	wo := runWorker(binPath, scratch, env, 10*time.Minute, gomaxprocs)
	if len(wo.results) != 1 {
		return nil, fmt.Errorf("replay produced %d results: %v\n%s", len(wo.results), wo.err, wo.stderr)
	}
	return wo.results[0], nil
}

// replayWithoutASLimit: the workers run under an address-space limit so that a runaway allocation
// ends the process instead of the machine. What a reader does with a length field that a corrupted
// file made huge then depends on the head-room left in the process (an mmap of 3 GB fails in a worker
// that has executed a thousand runs and succeeds in a fresh one, or the other way round), so a run
// whose violation does not show again in a fresh process under the limit is replayed without it -
// which is also how ./check replay executes a replay file.
var replayWithoutASLimit bool

func sameViolation(r *result, v *violation) *violation {
	for _, x := range r.Violations {
		if x.Class == v.Class && x.Key == v.Key {
			return x
		}
	}
	return nil
}

// minimise shrinks the scenario while the same (class,key) violation persists, then verifies that
// the final scenario replays identically twice (different GOMAXPROCS).
func minimise(binPath, scratch string, sc *scenario, v *violation, p propDef, known []knownFinding, prop string) (*scenario, *violation, string) {
	replayWithoutASLimit = false
	r0, err := replayOnce(binPath, scratch, sc, 0)
	if err != nil || r0.Panic != "" || sameViolation(r0, v) == nil {
		replayWithoutASLimit = true
		if r1, err1 := replayOnce(binPath, scratch, sc, 0); err1 == nil && r1.Panic == "" && sameViolation(r1, v) != nil {
			fmt.Fprintf(os.Stderr, "dsim: the violation shows again only without the address-space limit of the workers; replaying without it\n")
			r0, err = r1, nil
		} else {
			replayWithoutASLimit = false
		}
	}
	if err != nil || r0.Panic != "" {
		fmt.Fprintf(os.Stderr, "dsim: replay failed: %v %s\n", err, lastLinesOf(r0))
		return sc, v, "nonrepro"
	}
	cur := sc
	curV := sameViolation(r0, v)
	if curV == nil {
		return sc, v, "nonrepro"
	}
	budget := time.Now().Add(p.MinimiseBudget)
	rounds := 0
	for time.Now().Before(budget) {
		// ask the harness for candidates
		f := filepath.Join(scratch, "shrink.json")
		b, _ := json.Marshal(map[string]any{"scenario": cur})
		os.WriteFile(f, b, 0o644)
		outFile := filepath.Join(scratch, "shrink.out")
		cmd := exec.Command(binPath, "-test.run", "^TestSim$")
		cmd.Env = append(os.Environ(), "DSIM_MODE=shrinks", "DSIM_SCENARIO="+f, "DSIM_OUT="+outFile)
		cmd.Dir = scratch
		if out, err := cmd.CombinedOutput(); err != nil {
			fmt.Fprintf(os.Stderr, "dsim: shrinks failed: %v\n%s\n", err, out)
			break
		}
		var cands []*scenario
		if fh, err := os.Open(outFile); err == nil {
			s := bufio.NewScanner(fh)
			s.Buffer(make([]byte, 1<<20), 1<<30)
			for s.Scan() {
				var w struct {
					Scenario *scenario `json:"scenario"`
				}
				if json.Unmarshal(s.Bytes(), &w) == nil && w.Scenario != nil {
					cands = append(cands, w.Scenario)
				}
			}
			fh.Close()
		}
		if len(cands) == 0 {
			break
		}
		// try candidates in parallel batches; accept the first (in order) that still fails the same way
		accepted := false
		par := runtime.NumCPU()
		for i := 0; i < len(cands) && !accepted && time.Now().Before(budget); i += par {
			j := i + par
			if j > len(cands) {
				j = len(cands)
			}
			type res struct {
				sc *scenario
				v  *violation
			}
			outs := make([]res, j-i)
			var wg sync.WaitGroup
			for k := i; k < j; k++ {
				wg.Add(1)
				go func(k int) {
					defer wg.Done()
					r, err := replayOnce(binPath, scratch, cands[k], 0)
					if err != nil || r.Panic != "" {
						return
					}
					if x := sameViolation(r, v); x != nil {
						c := *cands[k]
						if len(x.Pinned) > 0 {
							c.Body = x.Pinned
						}
						outs[k-i] = res{&c, x}
					}
				}(k)
			}
			wg.Wait()
			for _, o := range outs {
				if o.sc != nil {
					cur, curV = o.sc, o.v
					accepted = true
					break
				}
			}
		}
		rounds++
		if !accepted {
			break
		}
	}
	fmt.Fprintf(os.Stderr, "dsim: minimised in %d rounds (body %d -> %d bytes)\n", rounds, len(sc.Body), len(cur.Body))
	// replay-verify the final scenario twice in fresh processes
	verify := func(c *scenario) *violation {
		for {
			ra, err1 := replayOnce(binPath, scratch, c, 1)
			rb, err2 := replayOnce(binPath, scratch, c, 16)
			if err1 == nil && err2 == nil && sameViolation(ra, v) != nil && sameViolation(rb, v) != nil && ra.LogHash == rb.LogHash {
				return sameViolation(ra, v)
			}
			if replayWithoutASLimit {
				return nil
			}
			// see replayWithoutASLimit: what the limit does to a fresh process differs from run to run
			replayWithoutASLimit = true
		}
	}
	if fv := verify(cur); fv != nil {
		return cur, fv, "ok"
	}
	fmt.Fprintf(os.Stderr, "dsim: minimised scenario does not replay identically\n")
	// fall back to the unminimised one
	if fv := verify(sc); fv != nil {
		return sc, fv, "ok"
	}
	return sc, v, "nonrepro"
}

func lastLinesOf(r *result) string {
	if r == nil {
		return ""
	}
	return lastLines(r.Panic, 20)
}

func replayCmd(file string) int {
	b, err := os.ReadFile(file)
	if err != nil {
		fatal2("%v", err)
	}
	var rf struct {
		Property  string     `json:"property"`
		Scenario  *scenario  `json:"scenario"`
		Violation *violation `json:"violation"`
	}
	if err := json.Unmarshal(b, &rf); err != nil || rf.Scenario == nil {
		fatal2("bad replay file: %v", err)
	}
	p, ok := props[rf.Scenario.Property]
	if !ok {
		fatal2("unknown property %q", rf.Scenario.Property)
	}
	binPath := build(p.Binary)
	scratch := scratchDir()
	defer os.RemoveAll(scratch)
	r, err := replayOnce(binPath, scratch, rf.Scenario, 0)
	if err != nil {
		fatal2("%v", err)
	}
	if r.Panic != "" {
		fmt.Fprintf(os.Stderr, "harness failure: %s\n", r.Panic)
		return 2
	}
	fmt.Printf("log_hash=%s evaluations=%d\n", r.LogHash, r.Evaluations)
	if len(r.Violations) == 0 {
		fmt.Println("replay: no violation on this tree")
		return 0
	}
	for _, v := range r.Violations {
		fmt.Printf("VIOLATION property=%s replay=%s\n  class=%s key=%s\n  %s\n", rf.Scenario.Property, file, v.Class, v.Key, v.Detail)
	}
	return 1
}

// selftestDeterminism runs the same run indexes in separate processes at GOMAXPROCS 1, 4 and 16
// (one process per configuration per chunk, plus one-run-per-process for a subset) and compares
// log hashes, evaluation counts and violations.
func selftestDeterminism(prop string, n int) int {
	p, ok := props[prop]
	if !ok {
		fatal2("unknown property %s", prop)
	}
	binPath := build(p.Binary)
	scratch := scratchDir()
	defer os.RemoveAll(scratch)
	seed := verifSeed()
	type key struct{ seed uint64 }
	runCfg := func(gmp, chunk int) map[uint64]string {
		out := map[uint64]string{}
		var mu sync.Mutex
		var wg sync.WaitGroup
		sem := make(chan struct{}, runtime.NumCPU())
		for i := 0; i < n; i += chunk {
			to := i + chunk
			if to > n {
				to = n
			}
			wg.Add(1)
			sem <- struct{}{}
			go func(i, to int) {
				defer wg.Done()
				defer func() { <-sem }()
				env := map[string]string{"DSIM_MODE": "run", "DSIM_HARNESS": p.Harness, "DSIM_TIER": "quick", "VERIF_SEED": strconv.FormatUint(seed, 10),
					"DSIM_RANGE": fmt.Sprintf("%d:%d", i, to)}
				wo := runWorker(binPath, scratch, env, 30*time.Minute, gmp)
				mu.Lock()
				for _, r := range wo.results {
					vs := ""
					for _, v := range r.Violations {
						vs += v.Class + "/" + v.Key + ";"
					}
					out[r.Seed] = fmt.Sprintf("%s ev=%d ops=%d v=%s panic=%v", r.LogHash, r.Evaluations, r.Ops, vs, r.Panic != "")
				}
				if wo.err != nil {
					fmt.Fprintf(os.Stderr, "worker error: %v\n%s\n", wo.err, wo.stderr)
				}
				mu.Unlock()
			}(i, to)
		}
		wg.Wait()
		return out
	}
	a := runCfg(1, 10)
	b := runCfg(4, 7)
	c := runCfg(16, 1)
	bad := 0
	for s, va := range a {
		if b[s] != va || c[s] != va {
			bad++
			fmt.Printf("DIVERGENCE run seed %d:\n  gomaxprocs=1  chunk=10: %s\n  gomaxprocs=4  chunk=7 : %s\n  gomaxprocs=16 chunk=1 : %s\n", s, va, b[s], c[s])
		}
	}
	fmt.Printf("determinism selftest %s: %d run seeds x 3 configurations (GOMAXPROCS 1/4/16; 10, 7 and 1 runs per process), %d divergent\n", prop, len(a), bad)
	if bad > 0 || len(a) != n || len(b) != n || len(c) != n {
		return 2
	}
	return 0
}
