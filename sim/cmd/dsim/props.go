package main

import "time"

type budget struct {
	Runs          int
	Chunk         int // runs per worker process invocation
	Wall          time.Duration
	PerChunkGrace time.Duration
}

type propDef struct {
	Binary         string
	Harness        string
	Level          string
	Rule           string
	Assumptions    []string
	Real           []string
	Stub           []string
	Persistence    string
	ExhaustiveNote string
	ExpectProbes   []string
	Quick          budget
	Thorough       budget
	MinimiseBudget time.Duration
}

const persistenceModel = "file data durable up to the file's last successful fsync; every later write is cut at byte/record/4KiB-block granularity and may persist, be lost (old content), arrive as zeros or as garbage, and the file size may be anything between durable and written size; directory operations of one directory persist in order up to a cut >= its durable point (last directory fsync, or creation of a file that was itself fsynced later); a persisted rename does not imply persisted data"

var storeReal = []string{"go/store/nbs (journal, journal index, manifests, table files, archives, conjoin, GC, generational store)", "go/store/chunks", "go/store/hash", "github.com/dolthub/fslock (real flock on tmpfs)", "kernel file system semantics for reads of what was written (write-through to a tmpfs scratch directory)"}
var storeStub = []string{"disk persistence across a crash (simulated from the op log, see persistence_model)", "fsync (recorded, not issued)", "clock (testing/synctest fake clock)", "process death (op-log prefix + fresh object graph in the same OS process)"}

var props = map[string]propDef{
	"C03": {
		Binary: "dsim-store", Harness: "C03", Level: "fault_enumeration",
		Rule: "each run = one seeded write history (put batches, root commits, large non-committing writes, stale commits, rebase, clean reopen; journal buffer size, sync threshold, index batch size and memtable size drawn per run) executed once on the real journaling store over the simulated OS; then for every op-log position after a mutating file operation the crash variants {lose-all-unsynced, keep-all, names-only, journal prefix at every record boundary, sampled mid-record prefixes with the lost tail dropped / zero-filled / garbage, 4KiB hole, directory-ops-only} are materialised and re-opened with the real recovery code, plus single-bit at-rest damage of journal records. One evaluation = one distinct crash image (or damaged journal) re-opened and checked; identical images with identical allowed-root sets are evaluated once. distinct_nontrivial counts distinct (image content, allowed roots) pairs excluding the plain lose-all image when no commit is in flight.",
		Assumptions: []string{persistenceModel, "crash positions are op-log positions: the process can stop between any two file operations and inside a write at byte granularity", "the histories are sampled; for each sampled history the position x variant enumeration is complete up to the stated per-record sampling of mid-record offsets and the per-history image cap (positions next to commit markers are never skipped)"},
		Real:        storeReal, Stub: storeStub, Persistence: persistenceModel,
		ExhaustiveNote: "per history: every op-log position x named variants; mid-record cut offsets are sampled (1-3 per record); histories are sampled",
		ExpectProbes:   []string{"recovered_in-flight", "recovered_last-acked", "recovery_warning", "atrest_dataloss_reported", "atrest_final_record_rolled_back_silently", "crash:journal-hole", "crash:journal-garbage", "clean_reopen"},
		Quick:          budget{Runs: 48, Chunk: 1, Wall: 150 * time.Second, PerChunkGrace: 120 * time.Second},
		Thorough:       budget{Runs: 2000, Chunk: 4, Wall: 40 * time.Minute, PerChunkGrace: 5 * time.Minute},
		MinimiseBudget: 90 * time.Second,
	},
	"C04": {
		Binary: "dsim-store", Harness: "C04", Level: "fault_enumeration",
		Rule: "each run = one seeded write history on the real journaling store (index batch size 2-50 so that 0-many index batches and partial trailing batches occur) giving a journal + journal.idx pair; reference = open with no index; then for every index variant {missing, empty, valid, every truncation point, every byte flipped (exhaustive when the index is small, sampled otherwise), random bytes, stale index from each earlier clean close, index of an unrelated journal, checksum-valid-but-wrong (ranges swapped between lookups, offset shifted, length changed), EIO on index reads} the store is opened read-write and read-only (a second opener while another holds the lock) and root + readability/bytes of every chunk of the history are compared with the reference; the read-only open must produce no mutating file operation. One evaluation = one (variant, open mode). All evaluations are non-trivial (each opens a store on damaged input); distinct = distinct (history, variant, mode).",
		Assumptions: []string{"index contents with checksums recomputed by a forger (address changed or lookup removed, CRC fixed up) are counted as probes, not reported: no accelerator can detect them without re-reading the journal", "the LOCK file being opened O_CREATE by a read-only opener is not counted as modifying 'either file' (journal, index)"},
		Real:        storeReal, Stub: storeStub, Persistence: "not used (at-rest variants of the index file)",
		ExhaustiveNote: "per history: all truncation points and one flip per byte when 2*len(index) fits the per-history budget; histories are sampled",
		ExpectProbes:   []string{"index_batches", "index_partial_trailing_batch", "index:stale", "index:other", "index:swap-ranges", "index:eio", "index_bytes_enumerated_exhaustively", "same_as_no_index:ro"},
		Quick:          budget{Runs: 32, Chunk: 1, Wall: 150 * time.Second, PerChunkGrace: 120 * time.Second},
		Thorough:       budget{Runs: 1500, Chunk: 4, Wall: 40 * time.Minute, PerChunkGrace: 5 * time.Minute},
		MinimiseBudget: 90 * time.Second,
	},
	"C10": {
		Binary: "dsim-store", Harness: "C10", Level: "fault_enumeration",
		Rule: "each run builds one small valid store directory with the real writers (journal+index+manifest; table files+manifest with tiny memtable; after GC into one table file; after GC into an archive) and picks one storage file; every byte of it is flipped (one mask per byte) and every truncation point applied when the file is small enough for the per-run budget (sampled otherwise), plus 40 multi-byte corruptions and every 4KiB block zeroed. Each damaged directory is opened with the real store and Root, Count, Get, GetMany, GetManyCompressed, HasMany and IterateAllChunks are driven over every stored address and over the addresses that differ from a stored one by the same mask at each byte position. One evaluation = one damaged directory; all are non-trivial; distinct = distinct (fixture, file, corruption).",
		Assumptions: []string{"a stored chunk answered as absent (without an error) is counted as a probe, not reported: the statement forbids crashes and wrong data, not a miss", "an unbounded loop would surface as the watchdog (exit 2), not as a violation"},
		Real:        storeReal, Stub: []string{"clock (testing/synctest fake clock)"}, Persistence: "not used (at-rest corruption)",
		ExhaustiveNote: "per fixture file: every byte flipped once and every truncation point when 2*len(file) fits the budget; fixtures are sampled",
		ExpectProbes:   []string{"target:journal", "target:table", "target:archive", "target:manifest", "reported_as_error", "read_correctly_despite_damage"},
		Quick:          budget{Runs: 32, Chunk: 1, Wall: 150 * time.Second, PerChunkGrace: 120 * time.Second},
		Thorough:       budget{Runs: 1200, Chunk: 4, Wall: 40 * time.Minute, PerChunkGrace: 5 * time.Minute},
		MinimiseBudget: 20 * time.Second,
	},
	"C01": {
		Binary: "dsim-store", Harness: "C01", Level: "exploration",
		Rule: "each run = one seeded operation history (put fresh/duplicate/empty/near-memtable-size chunks and members of genuine 8-byte-prefix collision pairs, commit, rebase, clean reopen, GC into table files or archives incl. the two-generation protocol, conjoin, reads) on one store configuration (memory view, file-manifest store, journaling store, generational old+new+ghost) with memtable size, conjoin threshold, journal buffer and index batch size drawn per run; every read step drives Get, Has, GetMany, GetManyCompressed, HasMany over stored addresses and absent addresses adjacent to them (last byte, prefix byte, same 8-byte prefix with another suffix) and compares with the chunk model and across paths; IterateAllChunks is compared with the model; a third of the runs also inject EIO into file reads (an error is allowed, wrong bytes never). One evaluation = one read step. A run is non-trivial iff it crossed at least one reopen, GC, conjoin or injected fault; distinct = distinct run seeds among those.",
		Assumptions: []string{"chunks put but not committed may or may not survive a reopen; chunks unreachable from the committed root may or may not survive a GC", "the memory configuration is chunks.MemoryStorage, not an NBS"},
		Real:        storeReal, Stub: storeStub, Persistence: "not used (clean restarts only)",
		ExpectProbes:   []string{"commit_ok", "clean-restart", "gc", "gc-archive", "read-eio", "conjoin"},
		Quick:          budget{Runs: 400, Chunk: 25, Wall: 150 * time.Second, PerChunkGrace: 120 * time.Second},
		Thorough:       budget{Runs: 20000, Chunk: 100, Wall: 40 * time.Minute, PerChunkGrace: 5 * time.Minute},
		MinimiseBudget: 60 * time.Second,
	},
	"C07": {
		Binary: "dsim-store", Harness: "C07", Level: "exploration",
		Rule: "each run = one seeded history on a file-manifest or journaling store with a tiny memtable (flushes at arbitrary points): puts of chunks whose child lists point to committed, pending or never-written addresses, commits with right and stale expected roots, commits of earlier chunks, table files built in a side store and handed over through WriteTableFile + AddTableFilesToManifest, rebase, clean reopen. After every commit, reopen and table-file addition an independent second instance opens the directory, its root must be the model's, and a reachability walk over the store's own bytes must find every address; a commit the model knows to dangle must be rejected without moving the persisted root, and after a rejection a well-formed commit must succeed. One evaluation = one verification of the persisted state. A run is non-trivial iff at least one dangling commit or table file was rejected; distinct = distinct operation/outcome signatures among those.",
		Assumptions: []string{"a rejection that the model did not predict (the store being stricter) is a probe, not a violation", "shallow-clone ghost commits are not exercised"},
		Real:        storeReal, Stub: storeStub, Persistence: "not used (clean restarts only)",
		ExpectProbes:   []string{"commit_ok", "dangling-commit-rejected", "recovered_after_rejection", "table-file-added", "dangling-table-file-rejected", "clean-restart", "cas-failure"},
		Quick:          budget{Runs: 400, Chunk: 25, Wall: 150 * time.Second, PerChunkGrace: 120 * time.Second},
		Thorough:       budget{Runs: 30000, Chunk: 100, Wall: 40 * time.Minute, PerChunkGrace: 5 * time.Minute},
		MinimiseBudget: 60 * time.Second,
	},
	"C06": {
		Binary: "dsim-store", Harness: "C06", Level: "exploration",
		Rule: "each run = one seeded history (puts incl. duplicates, empty chunks, compressible/incompressible payloads and genuine 8-byte-prefix collision pairs; commits; conjoin; GC into one table file or one archive) on a file-manifest store with a tiny memtable, so the real writers (memtable persist, conjoin, GC copier, archive stream writer) run many times. Half of the runs inject ENOSPC / EIO / short write / fsync error / rename error / create error into operations on table and archive files (temp and final names), one in 6-40 eligible operations. After every operation every file under a final table or archive name is opened on its own and must read back completely (every chunk hashes to its address, reported count = chunks found); after every non-put operation an independent instance must read every committed chunk byte for byte and report adjacent absent addresses absent; in the fault-free configuration any error is a violation, in the fault configuration an operation may fail (the store is then restarted) but may never leave a short or damaged file under a final name. One evaluation = one file or one committed-state verification. Non-trivial = at least one fault fired, or a conjoin/GC happened; distinct by operation/outcome signature.",
		Assumptions: []string{"claimed for the I/O surface: the chunk multiset itself is input-quantified and rides along as workload", "archives with per-group dictionaries cannot be produced by this tree's GC (MaxArchiveLevel = SimpleArchive) and are not exercised", "faults are injected only into table/archive files; manifest faults are C05's subject"},
		Real:        storeReal, Stub: storeStub, Persistence: "not used (clean restarts after a failed operation)",
		ExpectProbes:   []string{"commit_ok", "conjoin_ok", "gc_ok", "gc-archive_ok", "write-enospc", "short-write", "fsync-eio", "rename-eio", "op_failed_after_injected_fault"},
		Quick:          budget{Runs: 400, Chunk: 25, Wall: 150 * time.Second, PerChunkGrace: 120 * time.Second},
		Thorough:       budget{Runs: 20000, Chunk: 100, Wall: 40 * time.Minute, PerChunkGrace: 5 * time.Minute},
		MinimiseBudget: 60 * time.Second,
	},
	"C41": {
		Binary: "dsim-store", Harness: "C41", Level: "exploration",
		Rule: "each run = one seeded order of open (default with lock timeout / fail-fast / skip-timeout / both), write+commit, read, close and kill operations among 2-4 simulated processes (separate store object graphs, separate file descriptors, real flock) on one journaled directory, with torn journal tails and stale indexes planted while no writer is active; after every operation: at most one instance reports exclusive access; a contended open is read-only or, with fail-fast, ErrDatabaseLocked; Commit through a read-only instance fails; every root an instance shows was written by some writer and its chunk is readable; and the simulated OS's op log contains no create/write/truncate/rename/unlink attributed to a process that holds a read-only instance. One evaluation = one read verification. Non-trivial = at least one contended open; distinct by operation/outcome signature.",
		Assumptions: []string{"processes are object graphs in one address space; a kill falls between operations (S0) and releases the process's descriptors and locks", "opening the LOCK file (O_CREATE) and fsync are not counted as modifying the directory"},
		Real:        storeReal, Stub: storeStub, Persistence: "not used (process kill keeps the page cache: the directory stays as written)",
		ExpectProbes:   []string{"open_exclusive", "open-read-only", "open-failfast-locked", "read_only_write_refused", "process-killed", "torn-journal-tail", "stale-index-installed", "writer_commit_ok"},
		Quick:          budget{Runs: 400, Chunk: 25, Wall: 150 * time.Second, PerChunkGrace: 120 * time.Second},
		Thorough:       budget{Runs: 20000, Chunk: 100, Wall: 40 * time.Minute, PerChunkGrace: 5 * time.Minute},
		MinimiseBudget: 60 * time.Second,
	},
	"C02": {
		Binary: "dsim-store", Harness: "C02", Level: "exploration",
		Rule: "each run = 2-4 committer tasks (each: rebase+read root, put 1-3 unique chunks and a root chunk over them and the previous root, Commit(new, read root); 2-5 iterations) plus 0-2 reader tasks that open a fresh instance, read its root and walk its closure, under the seeded S1 scheduler. Mode shared: all tasks use one store object (journaling or file-manifest) through a wrapper that parks them before Root/Rebase/Put/Commit. Mode procs: every task owns a NomsBlockStore on one shared directory (file manifest + LOCK, real flock, fake clock for the lock time-out) and is parked at a per-run subset of file-operation classes (rename, remove, create, open, stat, fsync, readdir, read, write), i.e. inside manifest updates and table-file opens. The recorded history of (rebase+root, Commit, fresh-open root) is checked with porcupine against a compare-and-swap register in which a failed CAS changes nothing; every root a fresh instance shows must have all chunks written before its commit readable. One evaluation = one fresh-instance verification. Non-trivial = at least one context switch and one successful commit; distinct by executed-schedule hash.",
		Assumptions: []string{"a commit that fails on a LOCK time-out is a definite failure; any other commit error makes the register check of that run inconclusive (counted)", "Commit may fail spuriously (stale cached root): the model allows a failed CAS at any time", "background conjoin is disabled in this harness (it is an explicit actor in C05)", "tasks are parked only where they hold no in-process lock another task needs (DESIGN §10a)"},
		Real:        storeReal, Stub: append([]string{"goroutine scheduling at the listed seams (seeded S1 scheduler on synctest quiescence)"}, storeStub...), Persistence: "not used",
		ExpectProbes:   []string{"commit_ok", "cas-contention", "context-switch", "reopen", "porcupine_ok", "clock-advance"},
		Quick:          budget{Runs: 400, Chunk: 25, Wall: 150 * time.Second, PerChunkGrace: 120 * time.Second},
		Thorough:       budget{Runs: 30000, Chunk: 100, Wall: 40 * time.Minute, PerChunkGrace: 5 * time.Minute},
		MinimiseBudget: 60 * time.Second,
	},
	"C05": {
		Binary: "dsim-store", Harness: "C05", Level: "exploration",
		Rule: "each run = 1-3 writer processes (put chunks, commit: persist table files, update manifest), optionally a conjoiner (ConjoinTableFiles), a GC (mark-and-sweep table swap, parked between its phases; the non-grace PruneTableFiles is single-process by design and is not run against foreign writers) and a grace-period pruner (PruneUnreferencedWithGrace, grace 5ms-3s of simulated time, simulated nanosecond mtimes), each owning its own store object on ONE file-manifest directory, interleaved by the seeded S1 scheduler at a per-run subset of file-operation classes (rename, remove, create, open, stat, fsync, readdir, write) with the fake clock advanced by scheduler decisions. Part 1: after every recorded namespace-changing file-system event the manifest on disk must parse as a complete version and every table file or archive it names must exist. Part 2: crash images (lose-all-unsynced, keep-all, names-only, dirs-durable+data-all) at the op-log positions that touch the manifest, temp manifests, table files or directory fsyncs: the persisted manifest must be byte-identical to a version some update wrote completely, every file it names must be in the image and must read back completely. One evaluation = one live invariant check or one distinct crash image. Non-trivial: a run with >=1 context switch and >=1 successful commit (schedule hash), and every distinct crash image.",
		Assumptions: []string{persistenceModel, "writers that stall longer than the grace period are outside the prune protocol's stated assumption; the asserted invariant (the manifest never names a missing file) must hold regardless and is what is checked", "automatic background conjoin is disabled; conjoin is an explicit actor", "tasks are parked only where they hold no in-process lock another task needs; temp-file creation is not a scheduling point"},
		Real:        storeReal, Stub: append([]string{"goroutine scheduling at file-operation granularity (seeded S1 scheduler)", "file mtimes (stamped from the simulated clock, strictly increasing)"}, storeStub...), Persistence: persistenceModel,
		ExpectProbes:   []string{"writer_commit_ok", "context-switch", "clock-advance", "conjoin", "gc-swap", "grace-prune-unlinked", "grace_prune_skipped", "update-refused-missing-table-file", "crash:names-only", "cas-contention"},
		Quick:          budget{Runs: 300, Chunk: 20, Wall: 150 * time.Second, PerChunkGrace: 120 * time.Second},
		Thorough:       budget{Runs: 20000, Chunk: 100, Wall: 40 * time.Minute, PerChunkGrace: 5 * time.Minute},
		MinimiseBudget: 60 * time.Second,
	},
	"C42": {
		Binary: "dsim-store", Harness: "C42", Level: "exploration",
		Rule: "each run = 2-4 client tasks under the seeded S1 scheduler on one blobstore: LocalBlobstore (one instance per task on a shared directory, parked at a per-run subset of file-operation classes; the blocking flock of its manifest lock is emulated as a scheduling point; versions are simulated nanosecond mtimes) or InMemoryBlobstore (one shared object, parked before every interface call). Part blob: each task loops Get(manifest) -> CheckAndPutManifest(read version, unique contents); the history is checked with porcupine against a versioned register (a failed check-and-put changes nothing) and every version must always read back with the contents it was written with; ride-along: blobs of 1-700 bytes read through prefix, inner, suffix and negative-offset ranges and Concatenate, against a byte-slice model. Part stack: NewNoConjoinBSStore over the same blobstore runs the C02 committer + fresh-reader workload with the C02 oracle. One evaluation = one range read or fresh-reader verification. Non-trivial = at least one context switch; distinct by executed-schedule hash.",
		Assumptions: []string{"mtime-as-version is checked with nanosecond, strictly increasing simulated stamps (a monotone clock and a nanosecond file system); coarser mtime granularity or backward clock steps are outside what the statement promises and are not asserted", "the git-backed blobstore and the cloud blobstores are not covered (they need a git subprocess / network service outside the simulator)", "the byte-range and Concatenate checks are input-quantified and ride along as workload; the claimed part is the conditional update under interleaving"},
		Real:        append([]string{"go/store/blobstore LocalBlobstore, InMemoryBlobstore", "go/store/nbs blobstoreManifest + blobstorePersister (part stack)"}, storeReal...), Stub: append([]string{"flock(2) blocking mode (retry loop around scheduling points)", "goroutine scheduling (seeded S1 scheduler)", "file mtimes (simulated clock)"}, storeStub...), Persistence: "not used",
		ExpectProbes:   []string{"cas_ok", "cas-contention", "context-switch", "porcupine_ok", "commit_ok"},
		Quick:          budget{Runs: 300, Chunk: 20, Wall: 150 * time.Second, PerChunkGrace: 120 * time.Second},
		Thorough:       budget{Runs: 20000, Chunk: 100, Wall: 40 * time.Minute, PerChunkGrace: 5 * time.Minute},
		MinimiseBudget: 60 * time.Second,
	},
	"C20": {
		Binary: "dsim-refs", Harness: "C20", Level: "exploration",
		Rule: "each run = 2-4 session tasks under the seeded S1 scheduler issuing a per-run mix of datas.Database operations on 3 branches, their working sets and 2 tags: Commit, CommitWithWorkingSet, FastForward (to a dangling descendant of a random known commit), SetHead (force), Tag, Delete with working-set check, UpdateWorkingSet, and atomic reads of the whole dataset map. Mode shared: one DoltDB/datas.Database over one store object (journaling or file-manifest) whose ChunkStore is wrapped so that tasks park before Root/Rebase/Commit - the window between reading the store root and the compare-and-swap; mode procs: one DoltDB per task on a shared file-manifest directory, parked at a per-run subset of file-operation classes. The recorded history (<= 70 operations) is checked with porcupine against a map dataset-id -> address in which every successful conditional update requires the state the caller observed (commit: head == observed head; commit+working set: both; fast-forward: head == observed and new descends from it; working-set update: ws == expected; tag: absent), refusals change nothing, forced moves and deletes are unconditional; a successful FastForward to a non-descendant is flagged directly. One evaluation = one atomic read checked. Non-trivial = at least one context switch and one successful update; distinct by executed-schedule hash.",
		Assumptions: []string{"all commits carry the same (empty) root value and differ by their metadata: the property is about addresses in the dataset map, not table data", "tasks of one process park only at the ChunkStore wrapper (no in-process lock is held there)", "history squashing / rebase are forced moves and are covered as SetHead"},
		Real:        []string{"go/store/datas (database, datasets, commit/tag/working-set builders)", "go/store/types ValueStore", "go/store/prolly address map", "go/libraries/doltcore/doltdb (DoltDB construction, empty repo)", "go/store/nbs journaling and file-manifest stores"}, Stub: append([]string{"goroutine scheduling (seeded S1 scheduler)"}, storeStub...), Persistence: "not used",
		ExpectProbes:   []string{"ok:commit", "ok:commitws", "ok:ff", "ok:sethead", "ok:tag", "ok:delete", "ok:updatews", "refused:commit", "refused:commitws", "refused:ff", "refused:updatews", "context-switch", "porcupine_ok"},
		Quick:          budget{Runs: 2400, Chunk: 50, Wall: 150 * time.Second, PerChunkGrace: 120 * time.Second},
		Thorough:       budget{Runs: 30000, Chunk: 100, Wall: 40 * time.Minute, PerChunkGrace: 5 * time.Minute},
		MinimiseBudget: 60 * time.Second,
	},
	"C21": {
		Binary: "dsim-refs", Harness: "C21", Level: "exploration",
		Rule: "two parts per run. (1) the C20 interleaving harness with CommitWithWorkingSet, UpdateWorkingSet, Commit, SetHead and atomic whole-map reads always in the mix: porcupine requires every read to be explained by a linearization in which a successful commit+working-set update changes the head and the working set in one step (a read showing the new head with the old working set, or the reverse, has no linearization). (2) crash images: a single session performs 2-5 updates (CommitWithWorkingSet, Commit, UpdateWorkingSet) on a journaling store over the recording OS; for every op-log position on the journal/manifest and the variants lose-all-unsynced, keep-all, journal cut at record boundaries and garbage from mid-record on, the image is reopened and the dataset map must be exactly the map after the last acknowledged update or after the one in flight (never head from one update and working set from another). One evaluation = one atomic read or one distinct crash image.",
		Assumptions: []string{persistenceModel, "root values are identical across commits; the pair is identified by the addresses in the dataset map", "SQL-level dolt_commit with crash images is decided in the SQL harnesses"},
		Real:        []string{"go/store/datas CommitWithWorkingSet / UpdateWorkingSet / Commit", "go/store/nbs journaling store and its recovery"}, Stub: append([]string{"goroutine scheduling (seeded S1 scheduler)"}, storeStub...), Persistence: persistenceModel,
		ExpectProbes:   []string{"ok:commitws", "refused:commitws", "ok:updatews", "crash:journal-prefix", "crash:journal-garbage", "crash_state_consistent", "porcupine_ok"},
		Quick:          budget{Runs: 300, Chunk: 20, Wall: 150 * time.Second, PerChunkGrace: 120 * time.Second},
		Thorough:       budget{Runs: 20000, Chunk: 100, Wall: 40 * time.Minute, PerChunkGrace: 5 * time.Minute},
		MinimiseBudget: 60 * time.Second,
	},
	"C22": {
		Binary: "dsim-sql", Harness: "C22", Level: "exploration",
		Rule: "each run = 2-4 sessions (autocommit on/off drawn per session) on one branch of a fresh on-disk repository behind the production SQL engine; 20-70 statements (up to 160 in the thorough tier) interleaved at statement level by the seed; a row-level reference model keeps, per session, the snapshot taken at transaction start plus the session's own writes, and the branch state as the cell-wise three-way merge of acknowledged transactions in commit order. Every SELECT (full scan, by primary key, through index ia, through index ibc) must equal the session's snapshot plus own writes; uncommitted writes of other sessions never appear and committed ones only after the reader starts a new transaction; clean restarts in between. One evaluation = one checked read. Non-trivial = at least one transaction committed while another session with its own changes had an older snapshot; distinct by statement/outcome signature.",
		Assumptions: []string{"statements are limited to forms the row-level reference model predicts exactly (literal INSERT, UPDATE/DELETE by key, UPDATE by indexed column, full / key / index reads, START TRANSACTION, COMMIT, ROLLBACK)", "one branch, one table with two secondary indexes, small value domains so that sessions collide"},
		Real:        []string{"cmd/dolt/commands/engine (production SqlEngine via NewSqlEngineForEnv)", "go-mysql-server engine, analyzer, executor", "sqle / dsess (sessions, transactions, transaction merge at commit)", "doltdb, datas, prolly, nbs journaling store on the simulated OS"}, Stub: []string{"MySQL wire protocol and listener (sessions are created the way the handler does: own connection id, autocommit set explicitly)", "statement-level interleaving only (S0: one statement of one session at a time)", "stats / event scheduler / binlog background threads (left idle)", "clock (testing/synctest fake clock)"}, Persistence: "not used (clean restarts only)",
		ExpectProbes:   []string{"commit_ok", "commit-merged-with-concurrent-transaction", "commit-conflict-refused", "clean-restart", "overlapping_transactions"},
		Quick:          budget{Runs: 160, Chunk: 10, Wall: 150 * time.Second, PerChunkGrace: 120 * time.Second},
		Thorough:       budget{Runs: 8000, Chunk: 40, Wall: 40 * time.Minute, PerChunkGrace: 5 * time.Minute},
		MinimiseBudget: 90 * time.Second,
	},
	"C23": {
		Binary: "dsim-sql", Harness: "C23", Level: "exploration",
		Rule: "same world as C22 with more overlapping commits: each COMMIT's outcome is compared with the cell-wise rule (both sides changed the same cell to different values, or delete vs. modify => must be refused; the refused session's changes vanish), after a success the branch must equal merge(start, branch, mine); at the end and after every clean restart the table must equal the fold of all acknowledged transactions in commit order (no committed write lost). A refusal the model does not predict is counted, not reported. One evaluation = one checked read or final-state comparison.",
		Assumptions: []string{"statements are limited to forms the row-level reference model predicts exactly (literal INSERT, UPDATE/DELETE by key, UPDATE by indexed column, full / key / index reads, START TRANSACTION, COMMIT, ROLLBACK)", "one branch, one table with two secondary indexes, small value domains so that sessions collide"},
		Real:        []string{"cmd/dolt/commands/engine (production SqlEngine via NewSqlEngineForEnv)", "go-mysql-server engine, analyzer, executor", "sqle / dsess (sessions, transactions, transaction merge at commit)", "doltdb, datas, prolly, nbs journaling store on the simulated OS"}, Stub: []string{"MySQL wire protocol and listener (sessions are created the way the handler does: own connection id, autocommit set explicitly)", "statement-level interleaving only (S0: one statement of one session at a time)", "stats / event scheduler / binlog background threads (left idle)", "clock (testing/synctest fake clock)"}, Persistence: "not used (clean restarts only)",
		ExpectProbes:   []string{"commit_ok", "commit-merged-with-concurrent-transaction", "commit-conflict-refused", "clean-restart"},
		Quick:          budget{Runs: 160, Chunk: 10, Wall: 150 * time.Second, PerChunkGrace: 120 * time.Second},
		Thorough:       budget{Runs: 8000, Chunk: 40, Wall: 40 * time.Minute, PerChunkGrace: 5 * time.Minute},
		MinimiseBudget: 90 * time.Second,
	},
	"C25": {
		Binary: "dsim-sql", Harness: "C25", Level: "exploration",
		Rule: "same world as C22 with index-heavy reads, UPDATE through an index and ADD/DROP INDEX: after every write statement, inside the writing session's own transaction, every lookup through index ia (each value and NULL) and a covering range scan over index ibc are compared entry for entry with the table scan of the same session; again at the end through a fresh session, i.e. after the transaction-commit merges rebuilt the secondary indexes. One evaluation = one index-vs-table comparison.",
		Assumptions: []string{"statements are limited to forms the row-level reference model predicts exactly (literal INSERT, UPDATE/DELETE by key, UPDATE by indexed column, full / key / index reads, START TRANSACTION, COMMIT, ROLLBACK)", "one branch, one table with two secondary indexes, small value domains so that sessions collide"},
		Real:        []string{"cmd/dolt/commands/engine (production SqlEngine via NewSqlEngineForEnv)", "go-mysql-server engine, analyzer, executor", "sqle / dsess (sessions, transactions, transaction merge at commit)", "doltdb, datas, prolly, nbs journaling store on the simulated OS"}, Stub: []string{"MySQL wire protocol and listener (sessions are created the way the handler does: own connection id, autocommit set explicitly)", "statement-level interleaving only (S0: one statement of one session at a time)", "stats / event scheduler / binlog background threads (left idle)", "clock (testing/synctest fake clock)"}, Persistence: "not used (clean restarts only)",
		ExpectProbes:   []string{"commit_ok", "commit-merged-with-concurrent-transaction", "add-index", "drop-index"},
		Quick:          budget{Runs: 480, Chunk: 15, Wall: 150 * time.Second, PerChunkGrace: 120 * time.Second},
		Thorough:       budget{Runs: 8000, Chunk: 40, Wall: 40 * time.Minute, PerChunkGrace: 5 * time.Minute},
		MinimiseBudget: 90 * time.Second,
	},
	"C24": {
		Binary: "dsim-sql", Harness: "C24", Level: "exploration",
		Rule: "each run = 2-4 sessions (autocommit drawn per session) on main plus one session on branch b1 behind the production SQL engine; tables parent(id PK) and child(id PK, pid FK -> parent, u UNIQUE, n NOT NULL, m NOT NULL, CHECK n >= m); 25-80 seeded statements (up to 160 thorough) over tiny domains so that transactions are legal alone and illegal together (child insert vs. parent delete, same unique value twice, n and m of one row moved past each other), COMMIT/ROLLBACK, dolt_commit, dolt_merge('b1') under autocommit, clean restarts. After every acknowledged commit of any kind an independent evaluator scans the committed tables (also AS OF each new dolt commit, and on b1) and re-checks primary key, unique, foreign key, NOT NULL and CHECK from first principles. Two thirds of the runs end with a forced merge (@@dolt_force_transaction_commit = 1): every violating row the evaluator finds afterwards must be listed in dolt_constraint_violations_child. One evaluation = one constraint re-check of a committed state.",
		Assumptions: []string{"constraint checks are never disabled by the workload (foreign_key_checks stays 1), so no exemption applies", "schema changes that alter constraints are not generated"},
		Real:        sqlReal, Stub: sqlStub, Persistence: "not used (clean restarts only)",
		ExpectProbes:   []string{"commit_ok", "commit-refused-for-constraint-violation", "branch-merge", "dolt-commit", "forced-merge-with-violations", "recorded_violations"},
		Quick:          budget{Runs: 160, Chunk: 10, Wall: 150 * time.Second, PerChunkGrace: 120 * time.Second},
		Thorough:       budget{Runs: 8000, Chunk: 40, Wall: 40 * time.Minute, PerChunkGrace: 5 * time.Minute},
		MinimiseBudget: 90 * time.Second,
	},
	"C28": {
		Binary: "dsim-sql", Harness: "C28", Level: "exploration",
		Rule: "each run = 2-4 sessions (autocommit drawn per session) spread over branches main, b1 and a branch created mid-run, behind one production SQL engine; two AUTO_INCREMENT tables; 20-70 seeded statements (up to 150 thorough): INSERT with NULL / 0 / omitted id, multi-row, mixed explicit+generated rows, explicit values above and below the sequence, START TRANSACTION / COMMIT / ROLLBACK, dolt_checkout to another branch, dolt_branch, DELETE of the newest rows, clean restart (ends the server lifetime; the oracle's memory is reset). Every generated id is read back through the unique tag of its row; within a server lifetime and per table it must differ from every id generated before by any session on any branch, exceed all of them, and exceed every explicit value accepted before on any branch. One evaluation = one inserted row checked.",
		Assumptions: []string{"statement-level interleaving (S0): races inside one INSERT between sessions are not explored", "an explicit value counts from the moment its INSERT statement succeeded, whether or not the transaction later commits (the counter is not transactional in MySQL either)", "TRUNCATE, ALTER TABLE ... AUTO_INCREMENT and branch deletion (which legitimately reset or lower the sequence) are not generated"},
		Real:        sqlReal, Stub: sqlStub, Persistence: "not used (clean restarts only)",
		ExpectProbes:   []string{"generated_values", "generated_after_other_branch", "explicit-value-above-sequence", "rollback", "branch-switch", "new-branch", "delete-newest-rows"},
		Quick:          budget{Runs: 200, Chunk: 10, Wall: 150 * time.Second, PerChunkGrace: 120 * time.Second},
		Thorough:       budget{Runs: 8000, Chunk: 40, Wall: 40 * time.Minute, PerChunkGrace: 5 * time.Minute},
		MinimiseBudget: 90 * time.Second,
	},
	"C33": {
		Binary: "dsim-sql", Harness: "C33", Level: "exploration",
		Rule: "each run = a fresh on-disk repository behind the production SQL engine, two branches edited by their own sessions: 30-90 seeded steps (up to 200 thorough) of row DML, ADD/DROP COLUMN, RENAME TABLE, DROP/CREATE TABLE, dolt_commit (each records the table's name, schema and rows in the reference model), dolt_tag and dolt_branch at randomly chosen old commits, uncommitted changes in between, dolt_gc, clean restarts. Reads pick a recorded commit and address it by hash, by a tag or by a branch created at it, through SELECT * ... AS OF, through the revision database name `db/ref`, or through dolt_history_<table> filtered to the commit hash; the result must equal the recorded rows (under that commit's schema), and a table that was absent in the commit must be refused. One evaluation = one historical read compared.",
		Assumptions: []string{"history-table reads are limited to commits of the reader's own branch in which the table had its present name (what dolt_history_<t> means across renames is not specified by the property)", "AS OF timestamps are not generated"},
		Real:        sqlReal, Stub: sqlStub, Persistence: "not used (clean restarts only)",
		ExpectProbes:   []string{"commits", "historical_read_ok:as-of", "historical_read_ok:revision-db", "historical_read_ok:history-table", "absent_table_refused", "gc", "clean-restart", "reads_after_gc", "reads_of_commits_with_other_schema_or_name", "rename-table", "add-column", "drop-table"},
		Quick:          budget{Runs: 160, Chunk: 10, Wall: 150 * time.Second, PerChunkGrace: 120 * time.Second},
		Thorough:       budget{Runs: 6000, Chunk: 40, Wall: 40 * time.Minute, PerChunkGrace: 5 * time.Minute},
		MinimiseBudget: 90 * time.Second,
	},
	"C47": {
		Binary: "dsim-sql", Harness: "C47", Level: "exploration",
		Rule: "each run = one server directory behind the production SQL engine holding the root database and up to two nested databases; 12-40 seeded steps (up to 90 thorough): CREATE DATABASE, filling a database (tables, rows, dolt_commit, branches, tags, checkouts, staged and unstaged changes), DROP DATABASE, CREATE of the same name again, CALL dolt_undrop with the name in another letter case, CALL dolt_purge_dropped_databases, clean restarts. Just before each DROP a logical fingerprint is taken through SQL (dolt_branches, dolt_tags, dolt_log and dolt_status of every branch, every row of every table of every branch's working set); dolt_undrop must bring back exactly that fingerprint; an undrop onto a live name must fail and leave the live database's fingerprint unchanged; an undrop of a purged or never-dropped name must fail. One evaluation = one dolt_undrop call judged.",
		Assumptions: []string{"only the most recently dropped database of a name is expected back under that name (older copies are kept by dolt under suffixed names and are not exercised)", "no crash or I/O fault is injected into the directory moves (clean restarts only)"},
		Real:        sqlReal, Stub: sqlStub, Persistence: "not used (clean restarts only)",
		ExpectProbes:   []string{"drop-database", "undrop-restored", "undrop-refused-name-in-use", "undrop_nothing_refused", "purge", "clean-restart", "created"},
		Quick:          budget{Runs: 120, Chunk: 10, Wall: 150 * time.Second, PerChunkGrace: 120 * time.Second},
		Thorough:       budget{Runs: 4000, Chunk: 40, Wall: 40 * time.Minute, PerChunkGrace: 5 * time.Minute},
		MinimiseBudget: 90 * time.Second,
	},
	"C08": {
		Binary: "dsim-sql", Harness: "C08", Level: "exploration",
		Rule: "each run = a repository history built through SQL behind the production engine (commits, a second table, branch b1 with its own commit and working-set-only row, tag, a deleted branch whose commit is garbage, a stash, an in-progress conflicted merge committed with dolt_allow_commit_conflicts, staged and unstaged rows; each feature drawn per run), then one task runs CALL dolt_gc (default / --full / --archive-level 0; once or twice) with the session-aware safepoint controller while 1-3 writer sessions (autocommit drawn; transactions opened before the collection and committed during or after it; INSERT, COMMIT, dolt_commit, index reads) run as further tasks. The seeded S1 scheduler (random walk or PCT) decides the interleaving: the collector is parked before BeginGC, every MarkAndSweepChunks, every SaveHashes, Finalize, AddChunksToStore, SwapChunksInStore, EndGC and PruneTableFiles; writers are parked between statements. After all tasks finish, and again after a clean restart: (a) the SQL fingerprint of everything the writers do not touch (heads, tags, logs, status, merge status, conflicts, stashes and every row of every table of every branch) equals the one taken before the collection; (b) every row whose commit a writer saw acknowledged is in the table; (c) a walk from the store root over every reference reads every chunk, with bytes that hash to its address. One evaluation = one (a)+(b)+(c) check.",
		Assumptions: []string{"writers run whole statements between scheduling points; a statement that blocks on the collection lets the collector run on (interleavings inside one statement are not explored)", "interactive rebase, revert and cherry-pick state and statistics refs are not part of the generated histories"},
		Real:        append([]string{"sqle/dprocedures dolt_gc with the session-aware safepoint controller (gcctx)", "doltdb.GC, types.ValueStore.GC, nbs generational store mark-and-sweep, table swap, prune"}, sqlReal...), Stub: []string{"MySQL wire protocol and listener", "goroutine scheduling between sessions and the phases of the collection (seeded S1 scheduler; the ValueStore's chunk store is wrapped to park the collector at phase boundaries)", "stats / event scheduler / binlog background threads (left idle)", "clock (testing/synctest fake clock)"}, Persistence: "not used (clean restarts only)",
		ExpectProbes:   []string{"gc_phase_yields", "rows_acknowledged_during_collection", "chunks_walked", "gc", "gc--full", "context-switch", "history:conflicted-merge-in-progress", "history:stash", "clean-restart"},
		Quick:          budget{Runs: 120, Chunk: 10, Wall: 150 * time.Second, PerChunkGrace: 120 * time.Second},
		Thorough:       budget{Runs: 5000, Chunk: 40, Wall: 40 * time.Minute, PerChunkGrace: 5 * time.Minute},
		MinimiseBudget: 90 * time.Second,
	},
	"C35": {
		Binary: "dsim-sql", Harness: "C35", Level: "exploration",
		Rule: "each run = two databases of one production SQL engine (the second a clone of the first) and one remote: a file remote (file-manifest store directory) or an HTTP remote (the real remotesrv gRPC service and HTTP file handler behind the simulated network, serving a file-manifest store); 12-36 seeded steps (up to 80 thorough): commits of 1-120 rows on 1-4 branches of either database, new branches, same-key edits on both sides, dolt_push (one in five forced), dolt_fetch, dolt_pull, dolt_clone, clean engine restart, remote server restart; the puller's table-file size is drawn per run (1 KiB - 1 GiB) so that a transfer is one or many files. Two in five transfers of three quarters of the runs are disturbed: EIO at the k-th mutating file operation on the destination, a disk that stays dead from the k-th operation on, one network exchange in 2-6 lost before delivery / lost after delivery / delivered twice / body cut short, or process death at file-operation positions inside the transfer (crash images keep-all, lose-all-unsynced, names-only of the destination, re-opened with the real code). After every step: a walk from the root of every store (databases, clones, the remote through a store object of its own) must read every chunk with bytes that hash to its address; the remote's branches must be exactly where the acknowledged pushes put them (after a failed push: old or pushed head, nothing else); a non-forced push over a head that is not an ancestor must be refused; after a successful fetch / clone the tracking refs equal the remote's heads, after a successful pull the branch contains the remote's head and its own old head; no other local branch moves. One evaluation = one global check or one crash image.",
		Assumptions: []string{"the two pushers run in one process and take turns (S0); racing pushers are exercised at the store level by C02/C20 and in the concurrent part of this harness when it is enabled", "shallow clones, tags and branch deletion on the remote are not generated", "content addressing: equal commit hash + complete, hash-verified closure = identical data"},
		Real:        append([]string{"sqle/dprocedures dolt_push / dolt_pull / dolt_fetch / dolt_clone, env/actions remotes", "go/store/datas/pull puller and clone", "remotesrv RemoteChunkStore + file handler + sealer, remotestorage DoltChunkStore (HTTP remote)", "nbs file-manifest store as the remote"}, sqlReal...), Stub: append([]string{"gRPC transport, HTTP/2, TLS, sockets (simulated network delivers each exchange to the server object; the protobuf codec is kept)"}, sqlStub...), Persistence: persistenceModel,
		ExpectProbes:   []string{"transfer_ok", "push_ok", "fetch_ok", "pull_ok", "clone_ok", "non_ff_push_refused", "forced_non_ff_push", "pull_made_merge_commit", "disk-eio", "disk-dead", "crash:keep-all", "crash_image_closed_under_references", "clean-restart"},
		Quick:          budget{Runs: 120, Chunk: 8, Wall: 150 * time.Second, PerChunkGrace: 120 * time.Second},
		Thorough:       budget{Runs: 5000, Chunk: 40, Wall: 40 * time.Minute, PerChunkGrace: 5 * time.Minute},
		MinimiseBudget: 90 * time.Second,
	},
	"C45": {
		Binary: "dsim-sql", Harness: "C45", Level: "exploration",
		Rule: "one mode per run. cluster (half of the runs): the real cluster commit hook (replicate loop, 1 s retry back-off, ticker, heartbeat, wait functions, circuit breaker) is installed on the primary's database of a production SQL engine; its destination is a standby store (file-manifest or journaling, drawn) served by the real remotesrv gRPC service + HTTP file handler behind the simulated network; every exchange passes a gate the run controls. 15-50 seeded steps (up to 110 thorough): writes on the primary (working-set DML, dolt_commit, dolt_branch), 'let n exchanges through', open/close the gate, partition/heal, lose or duplicate one exchange in 2-6, restart the standby server, let 5 ms - 6 s of simulated time pass, switch @@dolt_cluster_ack_writes_timeout_secs to 2 s and back. At every quiescent point the standby's store (re-opened from its directory) must show a root the primary has had, never an older one than before, closed under references; a write that returned without a replication warning while acknowledgement was on must be on the standby at that moment; after the last step faults stop and the hook must report caught-up at the primary's root - and the standby's store must be there - within 40 simulated seconds. replicate (two in five): database test has @@dolt_replicate_to_remote (synchronous) to a file or HTTP remote, database replica is a read replica of it (all heads); commits, branches, merges, branch deletions, resets on the primary and fresh transactions on the replica, with remote disk faults, network faults and remote restarts: after a head-moving statement that returned without error and without anything reported (CLI output / log warnings) the remote has the head; every head the replica shows is one the remote has had; without faults a new replica transaction shows exactly the remote's heads; stores closed under references. standby (one in ten): the provider's standby flag is toggled; 16 kinds of write through fresh sessions must leave dolt_hashof_db, branches and tags unchanged while it is a standby, reads must work. One evaluation = one quiescent-point check, one judged head-moving statement, one replica read or one standby write.",
		Assumptions: []string{"not covered: the graceful role transition protocol of cluster.Controller (its control-plane gRPC service, JWT interceptors and process-global system variables do not fit two controllers into one address space); the clause about writes acknowledged before a graceful transition is decided only as far as the hook's ack/catch-up logic the transition waits on", "the hook's goroutines run freely between gate passages; the run waits for quiescence (synctest.Wait) after every step", "asynchronous push-on-write (@@dolt_async_replication) is not exercised", "users/grants and branch-control replication are not covered"},
		Real:        append([]string{"sqle/cluster commithook (newCommitHook, run/replicate/tick, Execute, wait functions, NotifyWaitFailed)", "doltdb hooksDatabase.ExecuteCommitHooks, dsess.WaitForReplicationController", "sqle push-on-write hook (DynamicPushOnWriteHook / PushOnWriteHook), ReadReplicaDatabase.PullFromRemote", "DoltDatabaseProvider standby flag", "remotesrv RemoteChunkStore + file handler, remotestorage client"}, sqlReal...), Stub: append([]string{"gRPC transport, HTTP/2, TLS, sockets (simulated network; protobuf codec kept)", "cluster.Controller (role transitions, control-plane service) absent"}, sqlStub...), Persistence: "not used (clean restarts of the standby server only)",
		ExpectProbes:   []string{"mode:cluster", "mode:replicate", "mode:standby", "primary_writes", "standby_root_moves", "acknowledged_writes", "ack_timed_out", "pushed_on_write", "push_on_write_failed_and_reported", "replica_caught_up", "standby_write_refused", "primary_write_ok", "partition", "standby-restart", "clock-advance"},
		Quick:          budget{Runs: 120, Chunk: 8, Wall: 150 * time.Second, PerChunkGrace: 120 * time.Second},
		Thorough:       budget{Runs: 5000, Chunk: 40, Wall: 40 * time.Minute, PerChunkGrace: 5 * time.Minute},
		MinimiseBudget: 90 * time.Second,
	},
	"C27": {
		Binary: "dsim-sql", Harness: "C27", Level: "exploration",
		Rule: "each run = 2-3 sessions (autocommit drawn per session) on main plus one session on branch b1 of a fresh on-disk repository behind the production SQL engine; one keyless table kl(a, b) with a secondary index; 20-70 seeded statements: multi-row INSERT of duplicate rows, DELETE ... LIMIT n, UPDATE ... LIMIT n, COMMIT / ROLLBACK, edits on b1, CALL dolt_merge('b1'), clean restarts. The reference model is a multiset per session (snapshot + own writes) and per branch; transaction commits and branch merges combine multiplicity changes row by row (both sides changed the multiplicity of one row differently => must be reported as a conflict). Every GROUP BY over all columns, COUNT(*) and index lookup must equal the multiset. One evaluation = one checked read.",
		Assumptions: []string{"statements are limited to forms the multiset model predicts exactly (which copies a LIMIT picks is immaterial: copies are indistinguishable)", "dolt_merge runs in an autocommit session, so a conflicting merge is rolled back and reported as an error"},
		Real:        sqlReal, Stub: sqlStub, Persistence: "not used (clean restarts only)",
		ExpectProbes:   []string{"commit_ok", "delete-with-limit", "update-with-limit", "branch-merge", "multiplicity-conflict-refused", "overlapping_transactions"},
		Quick:          budget{Runs: 160, Chunk: 10, Wall: 150 * time.Second, PerChunkGrace: 120 * time.Second},
		Thorough:       budget{Runs: 8000, Chunk: 40, Wall: 40 * time.Minute, PerChunkGrace: 5 * time.Minute},
		MinimiseBudget: 90 * time.Second,
	},
}

var sqlReal = []string{"cmd/dolt/commands/engine (production SqlEngine via NewSqlEngineForEnv)", "go-mysql-server engine, analyzer, executor", "sqle / dsess (sessions, transactions, transaction merge at commit, procedures)", "doltdb, merge, datas, prolly, nbs journaling store on the simulated OS"}
var sqlStub = []string{"MySQL wire protocol and listener (sessions are created the way the handler does: own connection id, autocommit set explicitly)", "statement-level interleaving only (S0: one statement of one session at a time)", "stats / event scheduler / binlog background threads (left idle)", "clock (testing/synctest fake clock)"}
