// prefixcoll finds dsim chunk payloads whose 20-byte addresses (sha512 truncated, as dolt's
// hash.Of) share the first 8 bytes: the prefix dolt's table-file index sorts and searches by.
// Parallel distinguished-point collision search; output is a JSON list of pairs of payloads (hex).
//
//	prefixcoll -n 6 -out /verif/fixtures/prefix_collisions.json
package main

import (
	"crypto/sha512"
	"encoding/binary"
	"encoding/hex"
	"encoding/json"
	"flag"
	"fmt"
	"os"
	"runtime"
	"sync"
	"time"
)

const dpBits = 22 // a point is distinguished when its low dpBits bits are zero

// payload builds the chunk bytes for an 8-byte state: magic 0xD5, zero kids, 8 bytes of filler.
func payload(x uint64) [11]byte {
	var b [11]byte
	b[0] = 0xD5
	binary.BigEndian.PutUint64(b[3:], x)
	return b
}

func step(x uint64) uint64 {
	p := payload(x)
	h := sha512.Sum512(p[:])
	return binary.BigEndian.Uint64(h[:8])
}

type chain struct {
	start uint64
	n     uint64
}

func main() {
	want := flag.Int("n", 4, "number of colliding pairs")
	out := flag.String("out", "", "output file")
	flag.Parse()
	var mu sync.Mutex
	dps := map[uint64]chain{}
	type pair struct{ A, B string }
	var found []pair
	seen := map[[2]uint64]bool{}
	done := make(chan struct{})
	var once sync.Once
	t0 := time.Now()
	var wg sync.WaitGroup
	for w := 0; w < runtime.NumCPU(); w++ {
		wg.Add(1)
		go func(w int) {
			defer wg.Done()
			seed := uint64(w+1)*0x9e3779b97f4a7c15 + uint64(time.Now().UnixNano())
			for {
				select {
				case <-done:
					return
				default:
				}
				seed = seed*6364136223846793005 + 1442695040888963407
				start := seed
				x := start
				var n uint64
				for n = 0; n < 1<<(dpBits+5); n++ {
					if x&(1<<dpBits-1) == 0 && n > 0 {
						break
					}
					x = step(x)
				}
				if x&(1<<dpBits-1) != 0 {
					continue // abandoned (cycle without a distinguished point)
				}
				mu.Lock()
				prev, ok := dps[x]
				if !ok {
					dps[x] = chain{start, n}
					mu.Unlock()
					continue
				}
				mu.Unlock()
				if prev.start == start {
					continue
				}
				// walk both chains to the merge point
				a, an := prev.start, prev.n
				b, bn := start, n
				for an > bn {
					a = step(a)
					an--
				}
				for bn > an {
					b = step(b)
					bn--
				}
				if a == b {
					continue // one chain is a suffix of the other: no collision
				}
				for an > 0 {
					na, nb := step(a), step(b)
					if na == nb {
						break
					}
					a, b = na, nb
					an--
				}
				if step(a) != step(b) || a == b {
					continue
				}
				k := [2]uint64{a, b}
				if a > b {
					k = [2]uint64{b, a}
				}
				mu.Lock()
				if !seen[k] {
					seen[k] = true
					pa, pb := payload(a), payload(b)
					found = append(found, pair{hex.EncodeToString(pa[:]), hex.EncodeToString(pb[:])})
					fmt.Fprintf(os.Stderr, "collision %d after %.0fs (%d distinguished points)\n", len(found), time.Since(t0).Seconds(), len(dps))
					if len(found) >= *want {
						once.Do(func() { close(done) })
					}
				}
				mu.Unlock()
			}
		}(w)
	}
	wg.Wait()
	b, _ := json.MarshalIndent(found, "", " ")
	if *out != "" {
		os.WriteFile(*out, b, 0o644)
	} else {
		fmt.Println(string(b))
	}
}
