// Package simnet is the simulated network of the dsim harnesses: gRPC calls and HTTP requests are
// delivered to the real server objects inside the process, one decision of the run's policy per
// message. The gRPC wire codec is kept (every message is marshalled and unmarshalled), the HTTP/2
// transport, TLS and sockets are absent.
package simnet

import (
	"bytes"
	"context"
	"errors"
	"fmt"
	"io"
	"net/http"
	"net/http/httptest"
	"strings"
	"sync"

	"google.golang.org/grpc"
	"google.golang.org/grpc/codes"
	"google.golang.org/grpc/metadata"
	"google.golang.org/grpc/status"
	"google.golang.org/protobuf/proto"
)

// Action is what the network does with one message exchange.
type Action int

const (
	Deliver      Action = iota // request and response arrive
	LoseRequest                // the server never sees it, the caller gets Unavailable
	LoseResponse               // the server handles it, the caller gets Unavailable
	Duplicate                  // the server handles it twice, the caller gets the second answer
	ShortBody                  // HTTP only: the response body is cut short
)

func (a Action) String() string {
	return [...]string{"deliver", "lose-request", "lose-response", "duplicate", "short-body"}[a]
}

// Net carries the per-run policy and the counters. Decide and the hooks are called on the goroutine
// of the caller of the RPC.
type Net struct {
	// Decide picks the action for one exchange; kind is "rpc", "stream" or "http", name the method or
	// "GET"/"POST"; id identifies the message by content (method + request bytes, or URL + range) and
	// nth counts the earlier exchanges with the same id, so that the decision does not depend on the
	// order in which concurrent helper goroutines of the client reach the network. nil means Deliver.
	Decide func(kind, name string, id uint64, nth int) Action
	// Before/After are called around every exchange (scheduling points of task-structured harnesses).
	Before func(kind, name string)
	After  func(kind, name string)
	// Down makes every exchange fail with Unavailable (the peer is not running).
	Down func() bool

	mu    sync.Mutex
	seen  map[uint64]int
	Count map[string]int // "rpc:deliver" ...
	Log   []string
	Keep  bool // keep Log
}

func (n *Net) note(kind, name string, a Action) {
	n.mu.Lock()
	defer n.mu.Unlock()
	if n.Count == nil {
		n.Count = map[string]int{}
	}
	n.Count[kind+":"+a.String()]++
	if n.Keep {
		n.Log = append(n.Log, kind+" "+name+" "+a.String())
	}
}

func fnv(parts ...[]byte) uint64 {
	var h uint64 = 14695981039346656037
	for _, p := range parts {
		for _, c := range p {
			h ^= uint64(c)
			h *= 1099511628211
		}
		h ^= 0xff
		h *= 1099511628211
	}
	return h
}

func (n *Net) decide(kind, name string, id uint64) Action {
	if n == nil {
		return Deliver
	}
	if n.Down != nil && n.Down() {
		n.note(kind, name, LoseRequest)
		return LoseRequest
	}
	a := Deliver
	if n.Decide != nil {
		n.mu.Lock()
		if n.seen == nil {
			n.seen = map[uint64]int{}
		}
		nth := n.seen[id]
		n.seen[id]++
		n.mu.Unlock()
		a = n.Decide(kind, name, id, nth)
	}
	n.note(kind, name, a)
	return a
}

func lost(what, name string) error {
	return status.Error(codes.Unavailable, "simnet: "+what+" lost ("+name+")")
}

// Conn is a grpc.ClientConnInterface that calls the handlers of one registered service directly.
type Conn struct {
	Net  *Net
	Desc *grpc.ServiceDesc
	Impl any
	// Intercept, when set, wraps every unary handler the way a server-side interceptor chain would.
	Intercept grpc.UnaryServerInterceptor
	// StreamIntercept likewise for streams.
	StreamIntercept grpc.StreamServerInterceptor
}

func shortName(method string) string {
	if i := strings.LastIndexByte(method, '/'); i >= 0 {
		return method[i+1:]
	}
	return method
}

func serverCtx(ctx context.Context) context.Context {
	md, _ := metadata.FromOutgoingContext(ctx)
	return metadata.NewIncomingContext(ctx, md.Copy())
}

func recode(from, to any) error {
	b, err := proto.Marshal(from.(proto.Message))
	if err != nil {
		return err
	}
	return proto.Unmarshal(b, to.(proto.Message))
}

func (c *Conn) Invoke(ctx context.Context, method string, args any, reply any, opts ...grpc.CallOption) error {
	name := shortName(method)
	var md *grpc.MethodDesc
	for i := range c.Desc.Methods {
		if c.Desc.Methods[i].MethodName == name {
			md = &c.Desc.Methods[i]
		}
	}
	if md == nil {
		return status.Error(codes.Unimplemented, "simnet: unknown method "+method)
	}
	if err := ctx.Err(); err != nil {
		return status.FromContextError(err).Err()
	}
	if c.Net != nil && c.Net.Before != nil {
		c.Net.Before("rpc", name)
	}
	defer func() {
		if c.Net != nil && c.Net.After != nil {
			c.Net.After("rpc", name)
		}
	}()
	reqBytes, _ := proto.Marshal(args.(proto.Message))
	act := c.Net.decide("rpc", name, fnv([]byte(name), reqBytes))
	if act == LoseRequest {
		return lost("request", name)
	}
	call := func() (any, error) {
		return md.Handler(c.Impl, serverCtx(ctx), func(v any) error { return recode(args, v) }, c.Intercept)
	}
	resp, err := call()
	if act == Duplicate {
		resp, err = call()
	}
	if act == LoseResponse {
		return lost("response", name)
	}
	if err != nil {
		if _, ok := status.FromError(err); ok {
			return err
		}
		return status.FromContextError(err).Err()
	}
	return recode(resp, reply)
}

type frame struct {
	b   []byte
	err error
}

type pipeStream struct {
	ctx    context.Context
	cancel context.CancelFunc
	c2s    chan []byte
	s2c    chan frame
	sendMu sync.Mutex
	closed bool
	net    *Net
	name   string
}

// client side
type clientStream struct{ *pipeStream }

func (s clientStream) Header() (metadata.MD, error) { return metadata.MD{}, nil }
func (s clientStream) Trailer() metadata.MD         { return metadata.MD{} }
func (s clientStream) Context() context.Context     { return s.ctx }
func (s clientStream) CloseSend() error {
	s.sendMu.Lock()
	defer s.sendMu.Unlock()
	if !s.closed {
		s.closed = true
		close(s.c2s)
	}
	return nil
}
func (s clientStream) SendMsg(m any) error {
	b, err := proto.Marshal(m.(proto.Message))
	if err != nil {
		return err
	}
	s.sendMu.Lock()
	defer s.sendMu.Unlock()
	if s.closed {
		return io.EOF
	}
	select {
	case s.c2s <- b:
		return nil
	case <-s.ctx.Done():
		return io.EOF
	}
}
func (s clientStream) RecvMsg(m any) error {
	select {
	case f, ok := <-s.s2c:
		if !ok {
			return io.EOF
		}
		if f.err != nil {
			return f.err
		}
		return proto.Unmarshal(f.b, m.(proto.Message))
	case <-s.ctx.Done():
		return status.FromContextError(s.ctx.Err()).Err()
	}
}

// server side
type serverStream struct{ *pipeStream }

func (s serverStream) SetHeader(metadata.MD) error  { return nil }
func (s serverStream) SendHeader(metadata.MD) error { return nil }
func (s serverStream) SetTrailer(metadata.MD)       {}
func (s serverStream) Context() context.Context     { return serverCtx(s.ctx) }
func (s serverStream) SendMsg(m any) error {
	b, err := proto.Marshal(m.(proto.Message))
	if err != nil {
		return err
	}
	select {
	case s.s2c <- frame{b: b}:
		return nil
	case <-s.ctx.Done():
		return status.FromContextError(s.ctx.Err()).Err()
	}
}
func (s serverStream) RecvMsg(m any) error {
	select {
	case b, ok := <-s.c2s:
		if !ok {
			return io.EOF
		}
		return proto.Unmarshal(b, m.(proto.Message))
	case <-s.ctx.Done():
		return status.FromContextError(s.ctx.Err()).Err()
	}
}

func (c *Conn) NewStream(ctx context.Context, desc *grpc.StreamDesc, method string, opts ...grpc.CallOption) (grpc.ClientStream, error) {
	name := shortName(method)
	var sd *grpc.StreamDesc
	for i := range c.Desc.Streams {
		if c.Desc.Streams[i].StreamName == name {
			sd = &c.Desc.Streams[i]
		}
	}
	if sd == nil {
		return nil, status.Error(codes.Unimplemented, "simnet: unknown stream "+method)
	}
	if c.Net != nil && c.Net.Before != nil {
		c.Net.Before("stream", name)
	}
	act := c.Net.decide("stream", name, fnv([]byte(name)))
	if act == LoseRequest || act == LoseResponse {
		return nil, lost("stream", name)
	}
	sctx, cancel := context.WithCancel(ctx)
	p := &pipeStream{ctx: sctx, cancel: cancel, c2s: make(chan []byte, 4096), s2c: make(chan frame, 4096), net: c.Net, name: name}
	go func() {
		var err error
		if c.StreamIntercept != nil {
			err = c.StreamIntercept(c.Impl, serverStream{p}, &grpc.StreamServerInfo{FullMethod: method, IsClientStream: sd.ClientStreams, IsServerStream: sd.ServerStreams}, sd.Handler)
		} else {
			err = sd.Handler(c.Impl, serverStream{p})
		}
		if err != nil {
			if _, ok := status.FromError(err); !ok {
				err = status.FromContextError(err).Err()
			}
			select {
			case p.s2c <- frame{err: err}:
			case <-sctx.Done():
			}
		}
		close(p.s2c)
	}()
	return clientStream{p}, nil
}

// Fetcher delivers HTTP requests to a handler in the process (remotestorage.HTTPFetcher).
type Fetcher struct {
	Net     *Net
	Handler http.Handler
}

func (f *Fetcher) Do(req *http.Request) (*http.Response, error) {
	name := req.Method
	if f.Net != nil && f.Net.Before != nil {
		f.Net.Before("http", name)
	}
	defer func() {
		if f.Net != nil && f.Net.After != nil {
			f.Net.After("http", name)
		}
	}()
	if err := req.Context().Err(); err != nil {
		return nil, err
	}
	act := f.Net.decide("http", name, fnv([]byte(name), []byte(req.URL.Path), []byte(req.Header.Get("Range"))))
	if act == LoseRequest {
		if req.Body != nil {
			req.Body.Close()
		}
		return nil, errors.New("simnet: connection reset before the request was sent")
	}
	var body []byte
	if req.Body != nil {
		var err error
		body, err = io.ReadAll(req.Body)
		req.Body.Close()
		if err != nil {
			return nil, fmt.Errorf("simnet: reading the request body: %w", err)
		}
	}
	serve := func() *http.Response {
		r2 := req.Clone(req.Context())
		u := *req.URL
		r2.URL = &u
		r2.RequestURI = req.URL.RequestURI()
		r2.Body = io.NopCloser(bytes.NewReader(body))
		rec := httptest.NewRecorder()
		f.Handler.ServeHTTP(rec, r2)
		return rec.Result()
	}
	resp := serve()
	if act == Duplicate {
		resp.Body.Close()
		resp = serve()
	}
	if act == LoseResponse {
		resp.Body.Close()
		return nil, errors.New("simnet: connection reset before the response arrived")
	}
	if act == ShortBody {
		b, _ := io.ReadAll(resp.Body)
		resp.Body.Close()
		cut := len(b) / 2
		resp.Body = io.NopCloser(io.MultiReader(bytes.NewReader(b[:cut]), errReader{}))
	}
	resp.Request = req
	return resp, nil
}

type errReader struct{}

func (errReader) Read([]byte) (int, error) { return 0, io.ErrUnexpectedEOF }
