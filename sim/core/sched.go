package core

import (
	"fmt"
	"runtime"
	"strings"
	"sync"
	"testing/synctest"
	"time"
)

// Sched is the S1 scheduler: actors are goroutines ("tasks") inside the synctest bubble; exactly
// one is released at a time and runs until it reaches a yield seam, finishes or blocks. The root
// goroutine of the bubble (the caller of Run) waits for quiescence with synctest.Wait and draws the
// next decision from the chooser: run task i, or let simulated time pass.
//
// Decision encoding (so that an all-zero schedule means "no context switch"): the candidate list is
// [task that ran last if runnable, other runnable tasks by id, advance-time options...]; a decision
// is an index into it, taken modulo its length.
type Sched struct {
	ch      *Chooser
	mu      sync.Mutex
	tasks   []*Task
	cur     *Task
	last    *Task
	steps   int
	MaxStep int
	// counters
	Switches     int // decisions that released a different task than the previous one
	TimeAdv      int
	Uncontrolled int // quiescent points at which an unparked, unfinished task was neither parked nor visibly waiting
	Trace        []string
	tail         []string
	KeepTrace    bool
	sig          *Sig
	// PCT: when PCTDepth > 0 and the run is not a replay, decisions come from a priority-based
	// strategy (probabilistic concurrency testing): every task gets a random priority, the highest
	// priority task that can make progress always runs, and at PCTDepth-1 randomly chosen steps the
	// running task's priority drops below all others (optionally with a jump of the clock). Bugs
	// that need d ordering constraints are hit with probability >= 1/(n*k^(d-1)) instead of
	// exponentially rarely. The decisions taken are recorded like any others, so replay and
	// minimisation do not depend on the strategy.
	PCTDepth  int
	PCTSteps  int
	pctPrio   map[int]int
	pctChange map[int]bool
	pctLow    int
	consecAdv int // time advances in a row
	// epoch counts the events that can change the outcome of a retried blocking request: a task
	// that ran some code other than a failed retry, and the passing of simulated time. A task parked
	// by YieldBlocked is not a candidate again before the epoch has moved: retrying at once would
	// fail the same way, and a strategy that keeps preferring retrying tasks (PCT when the lock
	// holder has the lowest priority; the all-zero tail of a replayed schedule) would spin until
	// the step budget is gone.
	epoch int
	// OnRelease, if set, runs on the scheduler goroutine just before a task is released (e.g. to
	// tell the simulated OS on whose behalf the following operations run).
	OnRelease func(t *Task)
}

type Task struct {
	s     *Sched
	Actor int // simulated process the task belongs to (set by the harness)
	// Quiet suppresses yield seams for this task until the harness clears it (used to keep the
	// bookkeeping re-read that follows a successful compare-and-swap atomic with it).
	Quiet      bool
	ID         int
	Name       string
	goid       uint64
	run        chan struct{}
	parked     bool
	blocked    bool // parked in a retry loop (YieldBlocked)
	blockedAt  int  // s.epoch when the scheduler saw that park
	wasBlocked bool // released from such a park
	label      string
	finished   bool
	started    bool
	Err        any
}

// Chooser is the numbered choice stream: PRNG-backed when generating, list-backed when replaying.
type Chooser struct {
	rng    *Rand
	replay []int
	pos    int
	Taken  []int
}

func NewChooser(seed uint64, replay []int) *Chooser {
	return &Chooser{rng: NewRand(seed), replay: replay}
}

// Intn returns the next decision in [0,n).
func (c *Chooser) Intn(n int) int {
	if n <= 0 {
		return 0
	}
	var v int
	if c.replay != nil {
		if c.pos < len(c.replay) {
			v = c.replay[c.pos] % n
			if v < 0 {
				v = -v
			}
		}
		c.pos++
	} else {
		// bias towards continuing the same task: most interleavings of interest need few switches
		if c.rng.Chance(1, 2) {
			v = 0
		} else {
			v = c.rng.Intn(n)
		}
	}
	c.Taken = append(c.Taken, v)
	return v
}

// record notes a decision produced by a strategy (so that it is part of the replay trace).
func (c *Chooser) record(v int) int {
	c.Taken = append(c.Taken, v)
	return v
}

// Rng exposes the generation-mode PRNG (nil-safe: replays never draw).
func (c *Chooser) Replaying() bool { return c.replay != nil }

func NewSched(ch *Chooser) *Sched {
	return &Sched{ch: ch, MaxStep: 20000, sig: NewSig()}
}

// Go registers a task. Its goroutine starts immediately but parks before running f.
func (s *Sched) Go(name string, f func(t *Task)) *Task {
	t := &Task{s: s, ID: len(s.tasks), Name: name, run: make(chan struct{})}
	s.tasks = append(s.tasks, t)
	go func() {
		t.goid = runtime.DsimGoid()
		t.park("start")
		defer func() {
			if r := recover(); r != nil {
				t.Err = r
			}
			s.mu.Lock()
			t.finished = true
			s.mu.Unlock()
		}()
		f(t)
	}()
	return t
}

func (t *Task) park(label string) { t.parkAs(label, false) }

func (t *Task) parkAs(label string, blocked bool) {
	t.s.mu.Lock()
	t.parked = true
	t.blocked = blocked
	t.label = label
	t.s.mu.Unlock()
	<-t.run
}

// Yield parks the calling task at a seam until the scheduler releases it again. Calls from
// goroutines other than the task's own (helpers it spawned) return immediately.
func (t *Task) Yield(label string) {
	if runtime.DsimGoid() != t.goid {
		return
	}
	t.park(label)
}

// Current returns the released task if the caller is its goroutine, else nil.
func (s *Sched) Current() *Task {
	s.mu.Lock()
	c := s.cur
	s.mu.Unlock()
	if c != nil && runtime.DsimGoid() == c.goid {
		return c
	}
	return nil
}

// YieldHere is the seam entry used by wrappers and by simos: it parks the calling goroutine iff it
// is the goroutine of the currently released task.
func (s *Sched) YieldHere(label string) bool {
	if t := s.Current(); t != nil && !t.Quiet {
		t.park(label)
		return true
	}
	return false
}

// YieldCurrent parks the calling goroutine on behalf of the currently released task even when it is
// not that task's own goroutine: dolt runs some operations of a session in a helper goroutine while
// the session's goroutine waits for it (dolt_push, dolt_fetch), and a seam reached there belongs to
// the released task. Only one goroutine may hold a task's park at a time: a second helper of the
// same task that reaches a seam meanwhile runs on.
func (s *Sched) YieldCurrent(label string) bool {
	s.mu.Lock()
	t := s.cur
	if t == nil || t.Quiet || t.parked || t.finished {
		s.mu.Unlock()
		return false
	}
	t.parked, t.blocked, t.label = true, false, label
	s.mu.Unlock()
	<-t.run
	return true
}

// YieldBlockedCurrent is YieldBlocked with YieldCurrent's notion of who is calling.
func (s *Sched) YieldBlockedCurrent(label string) bool {
	s.mu.Lock()
	t := s.cur
	if t == nil || t.Quiet || t.parked || t.finished {
		s.mu.Unlock()
		return false
	}
	t.parked, t.blocked, t.label = true, true, label
	s.mu.Unlock()
	<-t.run
	return true
}

// YieldBlocked is YieldHere for the retry loop of a blocking request that cannot be granted now (a
// flock somebody else holds): the task is parked and is not released again until another task has
// been released or simulated time has passed since its last release.
func (s *Sched) YieldBlocked(label string) bool {
	if t := s.Current(); t != nil && !t.Quiet {
		t.parkAs(label, true)
		return true
	}
	return false
}

// Regain parks the calling goroutine iff it is the goroutine of a task the scheduler has NOT
// released: a task that slept on the simulated clock (a time.Sleep in the code under test) wakes
// when the scheduler lets time pass, not when it is released, and would otherwise run on outside the
// scheduler's control, concurrently with whatever else woke at the same instant (two sleeps that
// end at the same simulated nanosecond race in real time). Called at the first seam after such a wake-up it
// puts the task back among the candidates; from there on it runs only when chosen.
func (s *Sched) Regain(label string) bool {
	g := runtime.DsimGoid()
	s.mu.Lock()
	var me *Task
	for _, t := range s.tasks {
		if t.goid == g {
			me = t
			break
		}
	}
	if me == nil || me == s.cur || me.Quiet {
		s.mu.Unlock()
		return false
	}
	s.mu.Unlock()
	me.park(label)
	return true
}

var timeSteps = []time.Duration{time.Millisecond, 20 * time.Millisecond, 150 * time.Millisecond, 2 * time.Second}

// Run drives the tasks until all have finished. It returns an error description on deadlock or
// when the step budget is exhausted ("" otherwise).
func (s *Sched) Run() string {
	for {
		synctest.Wait()
		s.mu.Lock()
		if p := s.cur; p != nil {
			// a retry that failed again changed nothing; anything else may have
			if !(p.wasBlocked && p.parked && p.blocked) {
				s.epoch++
			}
			if p.parked && p.blocked {
				p.blockedAt = s.epoch
			}
		}
		var runnable, waiting, retrying []*Task
		allDone := true
		for _, t := range s.tasks {
			switch {
			case t.finished:
			case t.parked && t.blocked && t.blockedAt == s.epoch:
				allDone = false
				retrying = append(retrying, t) // nothing has happened since its request failed
			case t.parked:
				allDone = false
				runnable = append(runnable, t)
			default:
				allDone = false
				waiting = append(waiting, t) // asleep on the fake clock, or blocked on another task
			}
		}
		s.cur = nil
		s.mu.Unlock()
		if allDone {
			return ""
		}
		s.steps++
		if s.steps > s.MaxStep {
			return fmt.Sprintf("step budget exhausted (%d) %s", s.MaxStep, s.Tail())
		}
		// candidate list
		var cands []*Task
		if s.last != nil {
			for _, t := range runnable {
				if t == s.last {
					cands = append(cands, t)
				}
			}
		}
		for _, t := range runnable {
			if t != s.last {
				cands = append(cands, t)
			}
		}
		// "let simulated time pass" is always a legal decision; when somebody sleeps on the clock
		// every step size is a candidate, otherwise a single candidate whose size is drawn next
		nTime := 1
		if len(waiting) > 0 {
			nTime = len(timeSteps)
		}
		if len(cands) == 0 && len(waiting) == 0 {
			if len(retrying) > 0 {
				return "deadlock: every unfinished task retries a blocking request nobody can grant"
			}
			return "deadlock: no runnable task and nobody waits on time"
		}
		d := s.decide(cands, waiting, nTime)
		if len(cands) == 0 {
			// only time can pass; do not waste decisions on picking the step
			d = d % nTime
			s.advance(d)
			continue
		}
		if d >= len(cands) {
			if len(waiting) > 0 {
				s.advance(d - len(cands))
			} else {
				s.advance(s.ch.Intn(len(timeSteps)))
			}
			continue
		}
		t := cands[d]
		s.consecAdv = 0
		if s.last != nil && t != s.last {
			s.Switches++
		}
		s.last = t
		s.mu.Lock()
		t.wasBlocked = t.blocked
		t.parked = false
		t.blocked = false
		s.cur = t
		lbl := t.label
		s.mu.Unlock()
		s.sig.Add("run", t.Name, lbl)
		if s.KeepTrace {
			s.Trace = append(s.Trace, fmt.Sprintf("run %s @%s", t.Name, lbl))
		} else {
			s.noteTail("run " + t.Name + " @" + lbl)
		}
		if s.OnRelease != nil {
			s.OnRelease(t)
		}
		t.run <- struct{}{}
	}
}

// decide returns the index into [cands..., time options...] for this step.
func (s *Sched) decide(cands, waiting []*Task, nTime int) int {
	n := len(cands) + nTime
	if s.PCTDepth <= 0 || s.ch.replay != nil {
		return s.ch.Intn(n)
	}
	if s.pctPrio == nil {
		s.pctPrio = map[int]int{}
		s.pctChange = map[int]bool{}
		k := s.PCTSteps
		if k <= 0 {
			k = 150
		}
		for i := 0; i < s.PCTDepth-1; i++ {
			s.pctChange[1+s.ch.rng.Intn(k)] = true
		}
		s.pctLow = -1
	}
	prio := func(t *Task) int {
		p, ok := s.pctPrio[t.ID]
		if !ok {
			p = 1000 + s.ch.rng.Intn(1000000)
			s.pctPrio[t.ID] = p
		}
		return p
	}
	// the task that ran last is a change-point victim
	if s.pctChange[s.steps] && s.last != nil {
		s.pctPrio[s.last.ID] = s.pctLow
		s.pctLow--
		if s.ch.rng.Chance(1, 2) {
			// let simulated time pass at the change point (grace periods, time-outs)
			return s.ch.record(len(cands) + s.ch.rng.Intn(nTime))
		}
	}
	best, bestIdx, bestWaiting := -1<<62, -1, false
	for i, t := range cands {
		if p := prio(t); p > best {
			best, bestIdx, bestWaiting = p, i, false
		}
	}
	for _, t := range waiting {
		if p := prio(t); p > best {
			best, bestWaiting = p, true
		}
	}
	if (bestWaiting && (s.consecAdv < 6 || bestIdx < 0)) || bestIdx < 0 {
		// the highest-priority task sleeps on the clock: time has to pass for it to go on. (It may
		// also be blocked on a lower-priority task rather than on the clock: after a few advances
		// in a row the best runnable task goes on instead.)
		return s.ch.record(len(cands) + s.ch.rng.Intn(nTime))
	}
	return s.ch.record(bestIdx)
}

func (s *Sched) advance(step int) {
	s.TimeAdv++
	s.consecAdv++
	s.mu.Lock()
	s.epoch++
	s.mu.Unlock()
	s.sig.Add("time", fmt.Sprint(step))
	if s.KeepTrace {
		s.Trace = append(s.Trace, fmt.Sprintf("advance clock %v", timeSteps[step]))
	} else {
		s.noteTail("advance clock " + timeSteps[step].String())
	}
	time.Sleep(timeSteps[step])
}

// noteTail keeps the last few scheduling events of an untraced run, so that a run that ends in a
// deadlock or out of steps can say where it was.
func (s *Sched) noteTail(e string) {
	if len(s.tail) >= 40 {
		copy(s.tail, s.tail[1:])
		s.tail = s.tail[:len(s.tail)-1]
	}
	s.tail = append(s.tail, e)
}

// Tail returns the last scheduling events and every task's state.
func (s *Sched) Tail() string {
	ev := s.tail
	if s.KeepTrace && len(s.Trace) > 40 {
		ev = s.Trace[len(s.Trace)-40:]
	} else if s.KeepTrace {
		ev = s.Trace
	}
	return fmt.Sprintf("after %d steps; tasks: %s; last events:\n%s", s.steps, s.States(), strings.Join(ev, "\n"))
}

// Hash returns the hash of the schedule actually executed.
func (s *Sched) Hash() string { return s.sig.Sum() }

// Decisions returns the decisions taken so far (for the replay file).
func (s *Sched) Decisions() []int { return append([]int(nil), s.ch.Taken...) }

// States renders every task's scheduling state (for reports of stuck runs).
func (s *Sched) States() string {
	s.mu.Lock()
	defer s.mu.Unlock()
	var out []string
	for _, t := range s.tasks {
		st := "running-or-blocked"
		switch {
		case t.finished:
			st = "finished"
		case t.parked:
			st = "parked@" + t.label
		}
		out = append(out, fmt.Sprintf("%s:%s", t.Name, st))
	}
	return strings.Join(out, " ")
}
