package core

import (
	"fmt"

	"github.com/anishathalye/porcupine"
)

// Register history checking (porcupine). Values are strings; every written value is unique.

type RegOp struct {
	Client int
	Kind   string // "read" | "cas"
	Exp    string // cas: expected
	New    string // cas: new value
	Ok     bool   // cas: reported success
	Val    string // read: value returned
	Call   int64
	Ret    int64
	// MayHaveHappened marks a cas whose outcome is unknown to the caller (error after the point of
	// no return, lost response): it may or may not have taken effect.
	Unknown bool
}

type regIn struct {
	kind, exp, nw string
	unknown       bool
}
type regOut struct {
	ok  bool
	val string
}

// RegisterModel: a single register with read and compare-and-swap. A cas that reports failure
// must not change the register (it may fail spuriously: the stores under test may refuse on a
// stale cached root); a cas that reports success requires state == exp.
func RegisterModel(init string) porcupine.Model {
	return porcupine.Model{
		Init: func() interface{} { return init },
		Step: func(state, input, output interface{}) (bool, interface{}) {
			s := state.(string)
			in := input.(regIn)
			out := output.(regOut)
			switch in.kind {
			case "read":
				return out.val == s, s
			case "cas":
				if in.unknown {
					if s == in.exp {
						// either it happened or it did not: porcupine explores one successor per
						// Step, so unknown outcomes are split into two operations by the caller
						return true, in.nw
					}
					return true, s
				}
				if out.ok {
					return s == in.exp, in.nw
				}
				return true, s
			}
			return false, s
		},
		Equal: func(a, b interface{}) bool { return a.(string) == b.(string) },
		DescribeOperation: func(input, output interface{}) string {
			in := input.(regIn)
			out := output.(regOut)
			if in.kind == "read" {
				return fmt.Sprintf("read -> %.8s", out.val)
			}
			return fmt.Sprintf("cas(%.8s -> %.8s) = %v", in.exp, in.nw, out.ok)
		},
	}
}

// CheckRegister returns "ok", "illegal" or "unknown".
func CheckRegister(init string, ops []RegOp) string {
	var h []porcupine.Operation
	for _, o := range ops {
		h = append(h, porcupine.Operation{ClientId: o.Client, Input: regIn{o.Kind, o.Exp, o.New, o.Unknown}, Output: regOut{o.Ok, o.Val}, Call: o.Call, Return: o.Ret})
	}
	switch porcupine.CheckOperationsTimeout(RegisterModel(init), h, 0) {
	case porcupine.Ok:
		return "ok"
	case porcupine.Illegal:
		return "illegal"
	}
	return "unknown"
}
