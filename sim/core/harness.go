package core

import (
	"bufio"
	"encoding/json"
	"fmt"
	"math/rand"
	"os"
	"runtime/debug"
	"sort"
	"strconv"
	"strings"
	"sync"
	"testing"
	"testing/synctest"
	"time"
)

// Scenario is one fully determined simulated execution: everything the run will do is either in
// Body (generated from Seed, editable by the minimiser) or derived deterministically from it.
type Scenario struct {
	Property string          `json:"property"`
	Harness  string          `json:"harness"`
	Seed     uint64          `json:"seed"`
	Tier     string          `json:"tier"`
	Body     json.RawMessage `json:"body"`
}

// Violation describes a property violation found by a run.
type Violation struct {
	Class  string `json:"class"`  // stable identifier of the kind of violation (used by the minimiser and known findings)
	Detail string `json:"detail"` // human readable
	Step   int    `json:"step"`   // index of the op / case at which it was detected
	Key    string `json:"key"`    // specific failing input/call site/history key for the known-findings file
	// Pinned is the scenario body that replays exactly this violation (e.g. with the crash image
	// pinned); empty means the run's own scenario.
	Pinned json.RawMessage `json:"pinned,omitempty"`
}

// Result is what one Execute reports.
type Result struct {
	Seed        uint64         `json:"seed"`
	Evaluations int            `json:"evaluations"`
	CaseHashes  []uint64       `json:"case_hashes,omitempty"` // hashes of the distinct non-trivial cases of this run
	Trivial     int            `json:"trivial"`               // cases judged trivial by the harness rule
	Faults      map[string]int `json:"faults,omitempty"`
	Probes      map[string]int `json:"probes,omitempty"`
	LogHash     string         `json:"log_hash"`
	SimTimeMS   int64          `json:"sim_ms"`
	Ops         int            `json:"ops"`
	Inconcl     int            `json:"inconclusive,omitempty"`
	Sample      any            `json:"sample,omitempty"`
	Violations  []*Violation   `json:"violations,omitempty"` // one per distinct (class,key) of this run
	Scenario    *Scenario      `json:"scenario,omitempty"`   // attached when there are violations
	Panic       string         `json:"panic,omitempty"`      // harness/machinery failure (exit 2), not a violation

	mu sync.Mutex // the recording helpers may be called from tasks woken at the same simulated instant
}

func (r *Result) Fault(k string) { r.FaultN(k, 1) }
func (r *Result) FaultN(k string, n int) {
	r.mu.Lock()
	defer r.mu.Unlock()
	if r.Faults == nil {
		r.Faults = map[string]int{}
	}
	r.Faults[k] += n
}
func (r *Result) Probe(k string) { r.ProbeN(k, 1) }
func (r *Result) ProbeN(k string, n int) {
	r.mu.Lock()
	defer r.mu.Unlock()
	if r.Probes == nil {
		r.Probes = map[string]int{}
	}
	r.Probes[k] += n
}

// Violate records a violation unless one with the same (class,key) was already recorded in this
// run; it returns the new record (to attach Pinned) or nil.
func (r *Result) Violate(class, key string, step int, format string, a ...any) *Violation {
	r.mu.Lock()
	defer r.mu.Unlock()
	for _, v := range r.Violations {
		if v.Class == class && v.Key == key {
			return nil
		}
	}
	v := &Violation{Class: class, Key: key, Step: step, Detail: fmt.Sprintf(format, a...)}
	r.Violations = append(r.Violations, v)
	return v
}

// Violated reports whether any violation was recorded.
func (r *Result) Violated() bool { return len(r.Violations) > 0 }

// Harness is one property's simulation.
type Harness interface {
	// Generate derives a scenario from the seed. Pure.
	Generate(seed uint64, tier string) *Scenario
	// Execute runs it inside a synctest bubble. Must be deterministic in the scenario.
	Execute(t *testing.T, sc *Scenario) *Result
	// Shrinks proposes smaller scenarios (may return nil).
	Shrinks(sc *Scenario) []*Scenario
}

// RunInBubble executes f inside a fresh synctest bubble and converts a panic into Result.Panic.
func RunInBubble(t *testing.T, name string, f func(t *testing.T) *Result) (res *Result) {
	done := false
	func() {
		defer func() {
			if r := recover(); r != nil {
				msg := fmt.Sprint(r)
				if res != nil && strings.Contains(msg, "deadlock: main bubble goroutine has exited") {
					return // leftover parked background goroutines: expected for some harnesses
				}
				res = &Result{Panic: msg + "\n" + string(debug.Stack())}
			}
		}()
		t.Run(name, func(t *testing.T) {
			// synctest.Test panics on this goroutine when the bubble's main function has returned
			// while background goroutines of the code under test are still parked (binlog streamer,
			// branch activity tracker): expected for the SQL engine, recovered here
			defer func() {
				if r := recover(); r != nil {
					msg := fmt.Sprint(r)
					if res != nil && strings.Contains(msg, "deadlock: main bubble goroutine has exited") {
						return
					}
					res = &Result{Panic: msg + "\n" + string(debug.Stack())}
				}
			}()
			synctest.Test(t, func(t *testing.T) {
				defer func() {
					if r := recover(); r != nil {
						res = &Result{Panic: fmt.Sprint(r) + "\n" + string(debug.Stack())}
					}
				}()
				// the package-level generator of math/rand (retry back-off jitter in dolt's dependencies)
				// is part of the run: same run, same sequence
				rand.Seed(int64(curRunSeed))
				res = f(t)
				done = true
			})
		})
	}()
	if res == nil {
		res = &Result{Panic: "run produced no result (done=" + strconv.FormatBool(done) + ")"}
	}
	return res
}

// WorkerMain is the body of the single Test function of every dsim test binary.
//
//	DSIM_MODE=run     DSIM_HARNESS=C03 DSIM_TIER=quick VERIF_SEED=1 DSIM_RANGE=a:b DSIM_OUT=file
//	DSIM_MODE=replay  DSIM_SCENARIO=file DSIM_OUT=file
//	DSIM_MODE=shrinks DSIM_SCENARIO=file DSIM_OUT=file   (one candidate scenario per line)
func WorkerMain(t *testing.T, reg map[string]Harness) {
	mode := os.Getenv("DSIM_MODE")
	if mode == "" {
		t.Skip("dsim worker: DSIM_MODE not set")
	}
	// The coordinator runs every worker under an address-space limit (4 GB). What is alive at any
	// moment is small, but some checks turn over large buffers quickly (reading a table file costs a
	// 4 MB buffer; a crash phase reads hundreds), buffers allocated while a collection is marking count
	// as live for that cycle, and on a machine whose cores are all busy marking takes long: the next
	// heap goal then doubles a gigabyte and the process dies of the limit, not of its data. A soft
	// memory limit makes the collector work harder long before that.
	debug.SetMemoryLimit(1200 << 20)
	outPath := os.Getenv("DSIM_OUT")
	out, err := os.Create(outPath)
	if err != nil {
		t.Fatalf("dsim worker: %v", err)
	}
	w := bufio.NewWriterSize(out, 1<<20)
	defer func() { w.Flush(); out.Close() }()
	enc := json.NewEncoder(w)

	switch mode {
	case "run":
		h := reg[os.Getenv("DSIM_HARNESS")]
		if h == nil {
			t.Fatalf("dsim worker: unknown harness %q", os.Getenv("DSIM_HARNESS"))
		}
		tier := os.Getenv("DSIM_TIER")
		vs, _ := strconv.ParseUint(os.Getenv("VERIF_SEED"), 10, 64)
		a, b, _ := strings.Cut(os.Getenv("DSIM_RANGE"), ":")
		from, _ := strconv.ParseUint(a, 10, 64)
		to, _ := strconv.ParseUint(b, 10, 64)
		deadline := time.Time{}
		if s := os.Getenv("DSIM_DEADLINE_UNIX"); s != "" {
			u, _ := strconv.ParseInt(s, 10, 64)
			deadline = time.Unix(u, 0)
		}
		for i := from; i < to; i++ {
			if !deadline.IsZero() && time.Now().After(deadline) {
				break
			}
			seed := RunSeed(vs, os.Getenv("DSIM_HARNESS"), i)
			if only := os.Getenv("DSIM_ONLY_SEED"); only != "" && only != strconv.FormatUint(seed, 10) {
				continue // debugging aid: execute one run seed of the range
			}
			curRunIndex = i
			sc := h.Generate(seed, tier)
			curRunSeed = seed
			res := RunInBubble(t, "r", func(t *testing.T) *Result { return h.Execute(t, sc) })
			res.Seed = seed
			if res.Violated() || res.Panic != "" {
				res.Scenario = sc
			}
			if err := enc.Encode(res); err != nil {
				t.Fatalf("dsim worker: %v", err)
			}
			w.Flush()
			SkipCases = 0 // a resume offset applies to the first run of the range only
		}
	case "replay", "shrinks":
		b, err := os.ReadFile(os.Getenv("DSIM_SCENARIO"))
		if err != nil {
			t.Fatalf("dsim worker: %v", err)
		}
		var rf struct {
			Scenario *Scenario `json:"scenario"`
		}
		if err := json.Unmarshal(b, &rf); err != nil || rf.Scenario == nil {
			t.Fatalf("dsim worker: bad scenario file: %v", err)
		}
		sc := rf.Scenario
		h := reg[sc.Harness]
		if h == nil {
			t.Fatalf("dsim worker: unknown harness %q", sc.Harness)
		}
		if mode == "shrinks" {
			for _, c := range h.Shrinks(sc) {
				enc.Encode(map[string]any{"scenario": c})
			}
			return
		}
		curRunSeed = sc.Seed
		res := RunInBubble(t, "r", func(t *testing.T) *Result { return h.Execute(t, sc) })
		res.Seed = sc.Seed
		res.Scenario = sc
		enc.Encode(res)
	default:
		t.Fatalf("dsim worker: unknown mode %q", mode)
	}
}

// ---- crash sentinel -----------------------------------------------------------------------------
//
// dolt runs some work in helper goroutines (errgroup); a panic there kills the whole OS process and
// cannot be recovered by the harness. Before a step that may do so the harness arms a sentinel
// describing the case in flight; if the worker dies, the coordinator turns the sentinel plus the
// panic trace into a violation ("the process crashed") and replays it to confirm.

type Sentinel struct {
	RunIndex uint64    `json:"run_index"`
	Seed     uint64    `json:"seed"`
	Class    string    `json:"class"`
	Key      string    `json:"key"`
	Detail   string    `json:"detail"`
	Scenario *Scenario `json:"scenario"`
	Case     int       `json:"case"` // index of the case in flight within the run (for resuming after it)
}

// SkipCases is set by the coordinator when it resumes a run after a crash of the process: the
// harness skips that many leading cases of its enumeration.
var SkipCases = func() int { n, _ := strconv.Atoi(os.Getenv("DSIM_SKIP")); return n }()

var sentinelPath = os.Getenv("DSIM_SENTINEL")
var curRunIndex uint64
var curRunSeed uint64 = 1

// ArmSentinel records the case about to run. pinned is the scenario body that replays it.
func ArmSentinel(sc *Scenario, pinned []byte, caseIdx int, class, key, detail string) {
	if sentinelPath == "" {
		return
	}
	c := *sc
	if pinned != nil {
		c.Body = pinned
	}
	b, _ := json.Marshal(Sentinel{RunIndex: curRunIndex, Seed: sc.Seed, Case: caseIdx, Class: class, Key: key, Detail: detail, Scenario: &c})
	os.WriteFile(sentinelPath, b, 0o644)
}

// DisarmSentinel removes the sentinel.
func DisarmSentinel() {
	if sentinelPath != "" {
		os.Remove(sentinelPath)
	}
}

// SortedKeys returns the keys of m in sorted order (harness code never ranges over a map directly).
func SortedKeys[V any](m map[string]V) []string {
	ks := make([]string, 0, len(m))
	for k := range m {
		ks = append(ks, k)
	}
	sort.Strings(ks)
	return ks
}

// Hash64 hashes strings to a 64-bit case identity.
func Hash64(parts ...string) uint64 {
	var h uint64 = 14695981039346656037
	for _, p := range parts {
		for i := 0; i < len(p); i++ {
			h ^= uint64(p[i])
			h *= 1099511628211
		}
		h ^= 0xff
		h *= 1099511628211
	}
	return h
}
