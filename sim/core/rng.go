// Package core holds what every dsim harness shares: the single choice stream, result records,
// signatures and the per-run bubble.
package core

import (
	"crypto/sha256"
	"encoding/binary"
	"encoding/hex"
	"hash"
)

// Rand is a splitmix64 generator: the only source of pseudo-randomness in a run.
type Rand struct {
	s uint64
	N uint64 // draws so far
}

func NewRand(seed uint64) *Rand { return &Rand{s: seed} }

func (r *Rand) Uint64() uint64 {
	r.N++
	r.s += 0x9e3779b97f4a7c15
	z := r.s
	z = (z ^ (z >> 30)) * 0xbf58476d1ce4e5b9
	z = (z ^ (z >> 27)) * 0x94d049bb133111eb
	return z ^ (z >> 31)
}

func (r *Rand) Intn(n int) int {
	if n <= 1 {
		return 0
	}
	return int(r.Uint64() % uint64(n))
}

func (r *Rand) Int63n(n int64) int64 {
	if n <= 1 {
		return 0
	}
	return int64(r.Uint64() % uint64(n))
}

func (r *Rand) Range(lo, hi int) int { return lo + r.Intn(hi-lo+1) }
func (r *Rand) Chance(num, den int) bool { return r.Intn(den) < num }
func (r *Rand) Float() float64       { return float64(r.Uint64()>>11) / (1 << 53) }

func (r *Rand) Bytes(n int) []byte {
	b := make([]byte, n)
	for i := 0; i < n; i += 8 {
		v := r.Uint64()
		for j := 0; j < 8 && i+j < n; j++ {
			b[i+j] = byte(v >> (8 * j))
		}
	}
	return b
}

// Fork derives an independent stream (used so that adding draws in one component does not shift
// another component's draws).
func (r *Rand) Fork(label string) *Rand {
	h := sha256.Sum256(append(binary.LittleEndian.AppendUint64(nil, r.Uint64()), label...))
	return NewRand(binary.LittleEndian.Uint64(h[:8]))
}

// RunSeed derives the seed of run i of a property from VERIF_SEED.
func RunSeed(verifSeed uint64, prop string, i uint64) uint64 {
	b := binary.LittleEndian.AppendUint64(nil, verifSeed)
	b = append(b, prop...)
	b = binary.LittleEndian.AppendUint64(b, i)
	h := sha256.Sum256(b)
	return binary.LittleEndian.Uint64(h[:8])
}

// Sig accumulates a run signature / event-log hash.
type Sig struct{ h hash.Hash }

func NewSig() *Sig { return &Sig{h: sha256.New()} }
func (s *Sig) Add(parts ...string) {
	for _, p := range parts {
		s.h.Write([]byte(p))
		s.h.Write([]byte{0})
	}
	s.h.Write([]byte{1})
}
func (s *Sig) AddBytes(b []byte) { s.h.Write(b); s.h.Write([]byte{2}) }
func (s *Sig) Sum() string      { return hex.EncodeToString(s.h.Sum(nil)[:12]) }

// Perm returns a pseudo-random permutation of 0..n-1.
func (r *Rand) Perm(n int) []int {
	p := make([]int, n)
	for i := range p {
		p[i] = i
	}
	for i := n - 1; i > 0; i-- {
		j := r.Intn(i + 1)
		p[i], p[j] = p[j], p[i]
	}
	return p
}
