#!/usr/bin/env python3
"""mkcanary.py <name> [<repo-relative file>] <<< JSON  -> /verif/canaries/<name>.patch

JSON is {"old": "...", "new": "..."} (with the file on the command line) or a list of
{"file": "...", "old": "...", "new": "..."} (several replacements, possibly in several files).
Builds a unified diff against the CURRENT /repo files by exact text replacement (fails if an old
text is absent or ambiguous)."""
import sys, json, subprocess, tempfile, os
name = sys.argv[1]
spec = json.load(sys.stdin)
if isinstance(spec, dict):
    spec = [dict(spec, file=sys.argv[2])]
files = {}
for s in spec:
    rel = s['file']
    src = files.get(rel) or open('/repo/' + rel).read()
    assert src.count(s['old']) == 1, "%s: old text must occur exactly once (found %d): %r" % (rel, src.count(s['old']), s['old'][:60])
    files[rel] = src.replace(s['old'], s['new'])
out = ''
with tempfile.TemporaryDirectory() as d:
    for rel, new in sorted(files.items()):
        os.makedirs(os.path.join(d, 'a', os.path.dirname(rel)), exist_ok=True)
        os.makedirs(os.path.join(d, 'b', os.path.dirname(rel)), exist_ok=True)
        open(os.path.join(d, 'a', rel), 'w').write(open('/repo/' + rel).read())
        open(os.path.join(d, 'b', rel), 'w').write(new)
        out += subprocess.run(['diff', '-u', 'a/' + rel, 'b/' + rel], cwd=d, capture_output=True, text=True).stdout
open('/verif/canaries/%s.patch' % name, 'w').write(out)
print(out[:600])
