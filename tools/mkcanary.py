#!/usr/bin/env python3
"""mkcanary.py <name> <repo-relative file> <<< JSON {"old": "...", "new": "..."}  -> /verif/canaries/<name>.patch
Builds a unified diff against the CURRENT /repo file by exact text replacement (fails if old is absent)."""
import sys, json, subprocess, tempfile, os
name, rel = sys.argv[1], sys.argv[2]
spec = json.load(sys.stdin)
src = open('/repo/' + rel).read()
assert src.count(spec['old']) == 1, "old text must occur exactly once (found %d)" % src.count(spec['old'])
new = src.replace(spec['old'], spec['new'])
with tempfile.TemporaryDirectory() as d:
    os.makedirs(os.path.join(d, 'a', os.path.dirname(rel))); os.makedirs(os.path.join(d, 'b', os.path.dirname(rel)))
    open(os.path.join(d, 'a', rel), 'w').write(src); open(os.path.join(d, 'b', rel), 'w').write(new)
    out = subprocess.run(['diff', '-u', 'a/' + rel, 'b/' + rel], cwd=d, capture_output=True, text=True).stdout
open('/verif/canaries/%s.patch' % name, 'w').write(out)
print(out[:400])
