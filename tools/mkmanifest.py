#!/usr/bin/env python3
"""Regenerates /verif/MANIFEST.json from the tables below (single source of truth for the interface)."""
import json, sys

NA = {
 "C09": "pure function: walker output vs. addresses read while loading an object; no schedule, fault, clock or peer to simulate (consequences of an omission are decided by C08/C35 workloads)",
 "C11": "sequential in-memory data structure checked against a sorted map; nothing a simulator could vary",
 "C12": "history independence of tree shape: a deterministic builder as a function of content; no seam",
 "C13": "diff of two immutable maps: pure function",
 "C14": "three-way merge of immutable maps: pure function",
 "C15": "codec round trip and ordering: pure function",
 "C16": "value in -> value out through a deterministic chunker; no seam (durability across crash/GC is C03/C08)",
 "C17": "stored-JSON operations vs. in-memory JSON: pure function",
 "C18": "commit height/closure is a function of the commit DAG; no seam",
 "C19": "merge base / ancestor spec resolution is a function of the commit DAG; no seam",
 "C26": "differential query results against the in-memory engine: pure function of (data, query)",
 "C29": "dolt_merge result as a function of (base, ours, theirs): pure (the merge at transaction commit is decided under C23/C24/C25/C27)",
 "C30": "agreement of two merge code paths on the same inputs: pure differential",
 "C31": "algebraic identities of cherry-pick/revert/rebase on a given history: pure",
 "C32": "diff tables / patch round trip between two given commits: pure",
 "C34": "stash/reset/checkout postconditions on a single session's state: sequential, no seam varies them",
 "C36": "dump -> import round trip: pure function of the table contents",
 "C37": "schema serialisation and tag assignment: pure",
 "C38": "rule matching vs. LIKE evaluation: pure",
 "C40": "binlog encoding vs. a decoder: pure",
 "C43": "conflict table contents and resolution for a given conflicted merge: pure",
 "C44": "name / revision-spec parsing: pure",
 "C46": "ignore-pattern resolution and dolt_clean on a given working set: pure",
}

# property -> (level, text, note, technique, design_ref, engine)
CHECKS = {
 "C01": ("exploration",
         "Seeded operation histories on every local store configuration (memory view, file-manifest store, journaling store, generational old+new+ghost; GC into table files and archives; conjoin; clean reopen), including genuine 8-byte-prefix collision pairs and absent addresses adjacent to stored ones; after every read step the five read paths are compared with a chunk model and with each other, full iteration with the model; a fault-injecting configuration adds EIO on file reads (errors allowed, wrong bytes never).",
         "Sampling of histories (seeded search). Background conjoin is awaited after each operation so that a run is deterministic. Two known findings (16-byte address prefix of index-loaded journal chunks) are listed in known_findings.txt.",
         "deterministic simulation: seeded stateful histories over real stores vs. reference chunk model, read-fault injection at the OS seam", "DESIGN.md §6.1 C01", "dsim-store"),
 "C04": ("fault_enumeration",
         "For each seeded journal history the index file is replaced by every variant of a catalogue (missing, empty, valid, every truncation point, every byte flipped, random bytes, stale index of each earlier clean close, index of another journal, checksum-valid-but-wrong ranges, EIO on read); the store is opened read-write and read-only and must show the same root and the same readable chunks (byte for byte) as with no index; the read-only open must issue no mutating file operation (observed at the simulated OS).",
         "Forged indexes (checksums recomputed over altered contents) are probes only. Two known findings (lookup offset/length not covered by the batch CRC) are listed in known_findings.txt.",
         "deterministic simulation: at-rest fault enumeration of the index file against the no-index reference, OS-level write observation", "DESIGN.md §6.1 C04", "dsim-store"),
 "C05": ("exploration",
         "Seeded search over interleavings of writer, conjoiner, GC and grace-period-pruner processes (own store objects, one file-manifest directory, real flock, simulated clock and mtimes) at file-operation granularity: after every namespace-changing file-system event the on-disk manifest must be a complete version naming only existing files. Plus, per recorded execution, crash images at every op-log position touching manifest, temp manifests, table files or directory fsyncs under four persistence variants: the persisted manifest must be byte-identical to a completely written version and every file it names must be present and read back completely.",
         "Sampling of schedules; crash-image positions are enumerated per execution up to a per-run cap (evenly sampled above it). The non-grace PruneTableFiles is single-process by design and is not raced against foreign writers (DESIGN §11). Persistence model as stated in the evidence.",
         "deterministic simulation: seeded S1 scheduler at file-operation granularity + live invariant after every OS event + crash-image enumeration", "DESIGN.md §6.1 C05", "dsim-store"),
 "C06": ("exploration",
         "Claimed for the I/O surface. Seeded histories drive the real table-file and archive writers (memtable persist, conjoin, GC copier, archive stream writer) on a simulated disk; half of the runs inject ENOSPC, EIO, short writes, fsync, rename and create errors into table/archive file operations. After every operation each file under a final table or archive name is opened on its own and must read back completely and report the right count; an independent instance must read every committed chunk byte for byte and report adjacent absent addresses absent. In the fault-free configuration any error is a violation; with faults an operation may fail but may never leave a short or damaged file under a final name or lose committed chunks.",
         "The chunk multiset itself is input-quantified and rides along as workload (incl. duplicates, empty, compressible/incompressible, genuine 8-byte-prefix collisions). Dictionary-grouped archives cannot be produced by this tree's GC and are not exercised. Manifest faults are C05's subject.",
         "deterministic simulation: write-fault injection at the OS seam under the real writers, per-file read-back oracle", "DESIGN.md §6.1 C06", "dsim-store"),
 "C07": ("exploration",
         "Seeded histories of puts whose child lists point to committed, pending or never-written chunks, commits (right/stale expectation, arbitrary roots), table files handed over through WriteTableFile + AddTableFilesToManifest, rebase and clean reopen on file-manifest and journaling stores with tiny memtables; after every state-changing step an independent second instance opens the directory and walks the persisted root over the store's own bytes: every reachable address must be present; a rejected commit must leave the persisted root alone and the store usable.",
         "The arbiter is the reachability walk on persisted state, not the model's prediction (the store may be stricter than the model). Three known findings about AddTableFilesToManifest are listed in known_findings.txt. Ghost (shallow clone) commits are not exercised.",
         "deterministic simulation: seeded stateful histories, independent second opener + reachability walk after every step", "DESIGN.md §6.1 C07", "dsim-store"),
 "C10": ("fault_enumeration",
         "Small valid store directories (journal, table files, GC output, archives, manifests) built by the real writers; every byte of one storage file flipped and every truncation point applied (exhaustive for small files), plus multi-byte and 4KiB-block damage; every read path of the real store is driven over stored and mask-adjacent addresses; a panic (also in helper goroutines, detected through a crash sentinel + process restart), a multi-GB allocation, or a chunk whose bytes do not hash to its address is a violation.",
         "A stored chunk reported absent is a probe. Misreads that the undamaged store produces too (16-byte journal prefix) are excluded here and decided under C01. 15 known findings (call sites) are listed in known_findings.txt; RLIMIT_AS 4 GB turns runaway allocations into detectable crashes.",
         "deterministic simulation: exhaustive single-byte at-rest corruption of real store files, all read paths, crash sentinel", "DESIGN.md §6.1 C10", "dsim-store"),
 "C02": ("exploration",
         "Seeded search over interleavings: 2-4 committer tasks and fresh-instance reader tasks run under the S1 scheduler either on one shared store object (parked before Root/Rebase/Put/Commit) or as separate store instances on one shared directory (parked at file-operation granularity inside manifest updates, real flock, fake clock for lock time-outs); the recorded history of linearizable reads and commits is checked with porcupine against a compare-and-swap register, and every root a fresh instance shows must have all chunks written before its commit readable.",
         "Sampling of schedules; histories <= 80 operations; a commit error other than a lock time-out makes that run's register check inconclusive (counted). Interleavings inside one mutex-protected operation of a shared store object are not explored (DESIGN §10).",
         "deterministic simulation: seeded S1 scheduler over real stores + porcupine linearizability check against a CAS register", "DESIGN.md §6.1 C02", "dsim-store"),
 "C03": ("fault_enumeration",
         "For each seeded write history executed on the real journaling store over the simulated OS, every op-log position x crash variant (unsynced tail lost / kept / cut at every record boundary and at sampled mid-record bytes, zero-filled, garbage, 4KiB hole; directory operations cut at their durable point) is materialised and re-opened by the real recovery code; the recovered root must be the last acknowledged or an in-flight one, its closure readable byte-for-byte, and the store must accept and persist a further commit. Plus at-rest single-bit damage of records proven acknowledged (must be reported as data loss, never silently truncated) and of the final record (must roll back silently). Enumeration is complete per history up to the stated sampling; histories are sampled.",
         "Trusts the persistence model stated in the evidence file (what a crash may do to unsynced data and directory operations) and that op-log positions are the only crash points; the file system's own behaviour is simulated, fsync is recorded not issued; built with go1.26.8 (repo tests use 1.26.2).",
         "deterministic simulation: recorded op log -> crash-image enumeration -> real recovery + reference model", "DESIGN.md §6.1 C03", "dsim-store"),
 "C41": ("exploration",
         "Seeded orders of open (default / fail-fast / skip-timeout), write+commit, read, close and kill among 2-4 simulated processes on one journaled directory (separate object graphs and descriptors, real flock on tmpfs, fake clock for the lock time-out), with torn journal tails and stale indexes planted between writers; invariants after every operation: at most one exclusive instance, contended opens are read-only or ErrDatabaseLocked as requested, commits through read-only instances fail, instances only show roots some writer wrote, and the simulated OS's op log attributes no create/write/truncate/rename/unlink to a process holding a read-only instance.",
         "Processes share one address space; a kill falls between operations and releases descriptors and locks (crash points inside an operation are C03's subject). LOCK-file creation and fsync are not counted as modifications. dbfactory's singleton cache is not in the loop (stores are constructed directly).",
         "deterministic simulation: multi-process S0 schedules over the real store with real flock, OS-level write attribution", "DESIGN.md §6.1 C41", "dsim-store"),
 "C42": ("exploration",
         "Seeded search over interleavings of 2-4 clients on LocalBlobstore (separate instances on one directory, file-operation granularity, emulated blocking flock, simulated nanosecond mtimes as versions) and InMemoryBlobstore (call granularity): Get / CheckAndPutManifest histories are checked with porcupine against a versioned register and every version must read back with the contents written under it; byte ranges (prefix, inner, suffix, negative offsets) and Concatenate ride along against a byte-slice model; a third of the runs put NewNoConjoinBSStore on top and run the C02 committer + fresh-reader workload with the C02 oracle.",
         "The git-backed blobstore is covered in one run of sixteen (quick) / seven (thorough): 2-3 GitBlobstore clients with local repositories of their own on one bare remote, real git subprocesses, the scheduler parks a client before its fetch / push / update-ref / commit-tree / write-tree subprocess; its read-side fetch de-duplication window is switched off. Cloud blobstores are not covered (network service outside the simulator). mtime-as-version is asserted for a monotone clock with nanosecond stamps only. Sampling of schedules.",
         "deterministic simulation: seeded S1 scheduler over real blobstores + porcupine linearizability check against a versioned register", "DESIGN.md §6.1 C42", "dsim-store"),
 "C20": ("exploration",
         "Seeded search over interleavings of 2-4 sessions issuing Commit, CommitWithWorkingSet, FastForward, SetHead, Tag, Delete, UpdateWorkingSet and atomic whole-map reads through the real datas.Database, either sharing one database object (parked in the window between reading the store root and the compare-and-swap) or as separate processes on one directory (parked at file operations); the history is checked with porcupine against a map dataset-id -> address whose conditional operations require the state the caller observed and whose refusals change nothing; non-forcing moves must go to descendants.",
         "Histories <= 70 operations; all commits share one root value (addresses are what is checked). Sampling of schedules.",
         "deterministic simulation: seeded S1 scheduler at the ChunkStore / file-operation seams + porcupine against a conditional-update map model", "DESIGN.md §6.2 C20", "dsim-refs"),
 "C21": ("exploration",
         "(1) The C20 interleaving harness with the combined commit+working-set update, its competitors and atomic reads always enabled: no read may show the head of one update with the working set of another. (2) Crash images of single-session update sequences on a journaling store: at every op-log position on the journal/manifest, with the unsynced tail lost, kept, cut at record boundaries or turned to garbage, the reopened dataset map must be exactly the last acknowledged or the in-flight one.",
         "Persistence model as stated in the evidence; SQL-level dolt_commit is decided in the SQL harnesses.",
         "deterministic simulation: S1 interleavings + porcupine, and op-log crash-image enumeration with real recovery", "DESIGN.md §6.2 C21", "dsim-refs"),
 "C22": ("exploration",
         "2-4 sessions (autocommit on/off) on one branch behind the production SQL engine, statement-level seeded interleaving with clean restarts; a row-level reference model (snapshot at transaction start + own writes per session; branch = cell-wise three-way merge of acknowledged transactions in commit order) predicts every SELECT (full scan, by key, through each secondary index): uncommitted writes of others never appear, committed ones only in a new transaction.",
         "Statement forms are limited to what the model predicts exactly; sub-statement interleaving is not explored (S0). One branch; cross-branch and AS OF reads are C33's subject.",
         "deterministic simulation: seeded statement-level interleaving of real sessions vs. row-level snapshot model", "DESIGN.md §6.3 C22", "dsim-sql"),
 "C23": ("exploration",
         "Same world as C22 with more overlapping commits: each COMMIT outcome is compared with the cell-wise conflict rule, a success must leave merge(start, branch, mine), a refusal must leave nothing of the session's changes, and the table must equal the fold of all acknowledged transactions in commit order at the end and after every clean restart (no committed write lost).",
         "A refusal the model does not predict is counted, not reported (the property forbids lost writes, not refusals). S0 interleaving. A third of the runs end with a crash phase: the server dies at a structural file-system event of one more COMMIT or right after it (three persistence variants); a fresh engine on each crash image must show the table without or with the whole transaction - with it if the COMMIT had been acknowledged before the crash - and stay usable.",
         "deterministic simulation: seeded statement-level interleaving vs. cell-wise three-way merge model + crash images of a COMMIT re-opened by a fresh engine", "DESIGN.md §6.3 C23", "dsim-sql"),
 "C25": ("exploration",
         "Same world with index-heavy statements, UPDATE through an index and ADD/DROP INDEX: after every write statement (inside the writer's own transaction) and at the end through a fresh session, every lookup through index ia and a covering range scan over index ibc are compared entry for entry with the table scan of the same session - in particular after transaction-commit merges rebuilt the secondary indexes and after clean restarts.",
         "Index contents are observed through index-driven queries of the engine (lookup and covering range scan), not by reading the index maps directly. A third of the runs end with the crash phase of C23; the index-vs-table comparison is repeated on every recovered crash image.",
         "deterministic simulation: seeded interleaving + index-vs-table direct evaluator after every write and after crash recovery", "DESIGN.md §6.3 C25", "dsim-sql"),
 "C24": ("exploration",
         "2-4 sessions on main plus one on branch b1 behind the production SQL engine; parent/child tables with primary key, UNIQUE, FOREIGN KEY, NOT NULL and a two-column CHECK; seeded statements over tiny domains that are legal in each session's snapshot and illegal in combination, COMMIT/ROLLBACK, dolt_commit, dolt_merge under autocommit, clean restarts; after every acknowledged commit of any kind (SQL COMMIT, autocommit statement, dolt_commit incl. AS OF the new commit, merge, on both branches, after restart) an independent evaluator re-checks all constraints over full scans of the committed tables; a final forced merge (@@dolt_force_transaction_commit) must list every violating row in dolt_constraint_violations_child.",
         "Constraint checks are never disabled by the workload; schema changes are not generated. Whether a refusal was necessary is not judged (the property forbids committed violations, not refusals).",
         "deterministic simulation: seeded statement-level interleaving + branch merges, independent constraint evaluator over committed state", "DESIGN.md §6.3 C24", "dsim-sql"),
 "C28": ("exploration",
         "2-4 sessions spread over three branches of one production SQL engine, two AUTO_INCREMENT tables; seeded INSERT forms (NULL / 0 / omitted id, multi-row, mixed explicit+generated, explicit above and below the sequence), START TRANSACTION / COMMIT / ROLLBACK, dolt_checkout to another branch, dolt_branch, DELETE of the newest rows, clean restarts (which end the server lifetime and reset the oracle); every generated id is read back through its row's unique tag and must be distinct from and larger than every id generated before by any session on any branch, and larger than every explicit value accepted before on any branch.",
         "Three quarters of the runs interleave at statement level (S0). A quarter are a race mode: 2-3 inserting sessions are tasks of the S1 scheduler with scheduling points inside SequenceTracker.Next (after the per-table lock, before each store of the sequence; overlay hook, nil outside a simulation; waiters of the keyed mutex park) - interleavings elsewhere inside an INSERT are not explored. TRUNCATE / ALTER ... AUTO_INCREMENT / branch deletion are not generated.",
         "deterministic simulation: seeded statement-level interleaving across sessions and branches + seeded S1 scheduler with scheduling points inside SequenceTracker.Next, history oracle over generated values", "DESIGN.md §6.3 C28", "dsim-sql"),
 "C33": ("exploration",
         "Two branches edited by their own sessions behind the production SQL engine: seeded row DML, ADD/DROP COLUMN, RENAME TABLE, DROP/CREATE TABLE, dolt_commit (recorded in the reference model with the table's name, schema and rows), tags and branches created at randomly chosen old commits, uncommitted changes, dolt_gc and clean restarts; every recorded commit is later read AS OF its hash / a tag / a branch, through the revision database name, and through dolt_history_<table> filtered to the commit, and must return exactly the recorded rows, or be refused where the table was absent.",
         "History-table reads are limited to commits of the reader's branch in which the table had its present name. AS OF timestamps are not generated.",
         "deterministic simulation: seeded histories with GC / restart / process-death events (crash images of a dolt_commit re-opened by a fresh engine), recorded-state oracle over three historical read paths", "DESIGN.md §6.3 C33", "dsim-sql"),
 "C47": ("exploration",
         "One server directory with the root database and up to two nested databases behind the production SQL engine; seeded CREATE DATABASE, filling (tables, rows, commits, branches, tags, checkouts, staged and unstaged changes), DROP DATABASE, re-creation under the same name, CALL dolt_undrop (also with another letter case), CALL dolt_purge_dropped_databases and clean restarts; a logical fingerprint taken through SQL just before each DROP (branches, tags, logs, status and every row of every table of every branch) must be what dolt_undrop brings back; an undrop onto a live name must fail and leave the live database unchanged; after a purge nothing may come back. Half of the runs end with a DROP DATABASE / dolt_undrop whose server dies at structural file-system events of the statement: on every crash image a fresh engine must show every other database unchanged, the moved database still there or restorable with its fingerprint, and everything that was in the trash still restorable.",
         "The trash is modelled by exact spelling (d1 and D1 lie side by side; an older database of the same spelling is pushed aside and not expected back). Crash model: the rename of a directory is one journal transaction (old place or new place, never both or neither).",
         "deterministic simulation: seeded drop/create/undrop/purge/restart orders with crash images inside the directory moves, SQL-level fingerprint oracle", "DESIGN.md §6.3 C47, §11 2026-09-22", "dsim-sql"),
 "C08": ("exploration",
         "A repository history is built through SQL behind the production engine (commits, second table, branch with working-set-only rows, tag, deleted branch, stash, in-progress conflicted merge / cherry-pick / revert, an interactive rebase left unfinished, staged and unstaged rows, data kept alive only by a tag or only by the staged root after an earlier collection; drawn per run); then CALL dolt_gc (default / --full / --archive-level 0, once or twice, session-aware safepoint controller) runs as one task of the seeded S1 scheduler, parked before BeginGC, every MarkAndSweepChunks, every SaveHashes, Finalize, AddChunksToStore, SwapChunksInStore, EndGC and PruneTableFiles, while 1-3 writer sessions (transactions opened before the collection and committed during or after it) run statements in between. Afterwards and again after a clean restart: the SQL fingerprint of everything the writers do not touch is unchanged; every row whose commit was acknowledged is present; no writer statement failed for a non-transactional reason; a walk from the store root over every reference reads every chunk with bytes that hash to its address.",
         "Writers run whole statements between scheduling points (a statement blocked by the collection lets the collector go on). The statistics ref lives in the separate statistics store, which dolt_gc of the database does not collect; it is not part of the histories. In a quarter of the runs the collection runs alone and the server dies in it (crash images). The yield points sit in a wrapper around the ValueStore's chunk store installed through the overlay's white-box accessor; no dolt code is changed.",
         "deterministic simulation: seeded S1 scheduler over GC phases x writer statements, fingerprint + acknowledged-write + reference-walk oracles, clean restart", "DESIGN.md §6.3 C08", "dsim-sql"),
 "C35": ("exploration",
         "Two databases of one production SQL engine (the second a clone of the first) exchange commits through one remote: a file remote (file-manifest store) or an HTTP remote (the real remotesrv gRPC service + HTTP file handler + sealer behind the simulated network, the real remotestorage client). Part 1, seeded step sequences: commits on several branches of both sides (divergent histories, same-key edits, destinations that already hold part of the data), dolt_push (also --force, of tags, deleting a remote branch), dolt_fetch, dolt_pull, dolt_clone, dolt_backup sync / restore, engine and remote-server restarts, table-file size drawn per run so that a transfer is one or many files; transfers are disturbed by EIO at a chosen file operation on the destination, a disk that stays dead, lost / duplicated / truncated network exchanges, and process death at structural file-operation positions inside the transfer (crash images of the destination under three persistence variants, re-opened by the real code). After every step a walk from the root of every store must read every chunk with bytes that hash to its address; the remote's branches must be exactly where the acknowledged pushes put them; a non-fast-forward push without --force must be refused; fetched / cloned tracking refs equal the remote's heads; a pulled branch contains the remote's head and its own old head. Part 2, seeded S1 schedules: 2-3 sessions commit and push main without --force concurrently, parked before the remote store's Root / Rebase / Commit / AddTableFilesToManifest (file remote) or before every unary RPC and upload (HTTP remote): every acknowledged push must be contained in the remote's final head.",
         "Sampling of histories, fault placements and schedules. The puller's and the chunk fetcher's helper goroutines are not scheduled by the simulator: which file operation a disk fault hits and which crash images are taken can differ between executions of one seed, so a violating run may not replay; the check then tries the other violating runs and reports only one that reproduces (DESIGN §11). Shallow clones, fetch --prune, git-backed and cloud remotes are not covered; the gRPC/HTTP transports are replaced by in-process delivery (protobuf codec kept).",
         "deterministic simulation: seeded transfer histories with disk / network / crash faults + seeded S1 scheduler over concurrent pushers, reference-walk and ref-model oracles", "DESIGN.md §6.2 C35", "dsim-sql"),
 "C45": ("exploration",
         "Three seeded modes behind the production SQL engine. (a) Cluster data plane: the real cluster commit hook (replicate loop, retry back-off, ticker, heartbeat, wait functions, circuit breaker) is installed on the primary's database as the controller installs it; its destination is a standby store (file-manifest or journaling) served by the real remotesrv gRPC service and HTTP file handler behind the simulated network, every exchange passing a gate the run controls; steps interleave primary writes (working-set DML, commits, branches; replication acknowledgement switched on and off) with 'n exchanges may pass', partitions, lossy delivery (lost before/after delivery, duplicated), standby-server restarts and simulated time. At every quiescent point the standby's store, re-opened from disk, shows a root the primary's store has committed (recorded at the store's Commit), never an older one than before, closed under references; a write acknowledged without a replication warning is on the standby; after faults stop the hook is caught up and the standby is at the primary's root within 40 simulated seconds. (b) Push-on-write + read replica over a file or HTTP remote with remote disk faults, network faults and remote restarts: a head-moving statement that returned with nothing reported has its head on the remote; the replica never shows a head the remote has not had; without faults a new replica transaction shows exactly the remote's heads. (c) Standby flag of the database provider toggled: 22 kinds of write through fresh sessions must change nothing while it is a standby.",
         "Not covered: the graceful role-transition protocol of cluster.Controller (control-plane gRPC service, JWT interceptors and process-global system variables do not fit two controllers into one address space) - the clause on writes acknowledged before a graceful transition is decided only as far as the hook's acknowledgement / catch-up logic the transition waits on; asynchronous push-on-write; users/grants and branch-control replication. The hook's goroutines run freely between gate passages (the run waits for quiescence after each step). Six known findings (version-control procedures accepted on a standby) are listed in known_findings.txt.",
         "deterministic simulation: real commit hook + remotesrv over a gated simulated network with partitions, loss, duplication, restarts and a fake clock; root-history, reference-walk, acknowledgement and bounded-liveness oracles", "DESIGN.md §6.2 C45", "dsim-sql"),
 "C39": ("exploration",
         "Claimed for the clock and the file-access parts. The real singleSymmetricKeySealer, the real HTTP file handler and the real LocalCSCache of the stand-alone remote server (its source file compiled into the harness through the overlay) run on the simulated OS with the sealer's clock under the run's control. Seeded cases: a generated URL is sealed at sealer time S and unsealed at unsealer time U placed at, just inside, just outside and far from both ends of the window the sealed URL carries (skew and jumps in both directions): it must unseal to the original path and query and be accepted iff nbf <= U <= exp; single-field mutations (path, sealed payload, nonce, nbf, exp, dropped field) inside the window must be refused. Sealed GET / POST / PUT requests whose inner paths try to leave the configured root (dot segments, percent-encoded separators, doubled slashes, via the repository part or the file part), and unsealed or outer-path-tampered ones, are served while every file operation is observed at the OS seam: nothing outside the root may be touched, a 200 to a GET carries bytes of a file inside the root (never of decoy files beside and above it), unsealed or tampered requests are refused.",
         "The URL generator and field mutations are input generation and ride along as workload; what the simulator adds is the two clocks and the observation of file accesses. Two genuine defects found by this check were repaired by fix: commits (upload path traversal bab105f, double escaping in the sealer be64daa); one harmless finding (paths beginning with '//') is listed in known_findings.txt. The sql-server's own database cache (names -> open databases) is not the subject: it derives no path from the request.",
         "deterministic simulation: injected sealer/unsealer clocks (skew, forward and backward jumps), OS-level observation of every file operation of the real handler, decoy-file and window oracles", "DESIGN.md §6.2 C39", "dsim-sql"),
 "C27": ("exploration",
         "2-3 sessions on main plus one on branch b1 behind the production SQL engine, one keyless table with a secondary index; seeded multi-row INSERT of duplicates, DELETE/UPDATE ... LIMIT n, COMMIT/ROLLBACK, edits on b1, CALL dolt_merge('b1'), clean restarts; a multiset reference model per session and branch predicts every GROUP BY over all columns, COUNT(*) and index lookup; transaction commits and branch merges must combine multiplicity changes row by row and must refuse/report when both sides changed the multiplicity of one row differently.",
         "Refusals for convergent changes (both sides made the same change) are dolt being conservative and are counted, not reported. dolt_merge runs under autocommit (conflicts => rolled back + error); the dolt_conflicts table contents are C43 (pure).",
         "deterministic simulation: seeded statement-level interleaving + branch merges vs. multiset model", "DESIGN.md §6.3 C27", "dsim-sql"),
}

def main():
    props = [json.loads(l) for l in open('/verif/properties.jsonl')]
    ids = [p['id'] for p in props]
    checks = []
    for pid in ids:
        if pid in CHECKS:
            lvl, text, note, tech, ref, eng = CHECKS[pid]
            checks.append({
                "property_id": pid,
                "quick_cmd": f"./check {pid} quick",
                "thorough_cmd": f"./check {pid} thorough",
                "evidence_file": f"/verif/evidence/{pid}.json",
                "replay_cmd_template": "./check replay {path}",
                "engine": eng,
                "level_claimed": {"category": lvl, "text": text, "design_ref": ref},
                "level_note": note,
                "technique": tech,
            })
    na = []
    for pid in ids:
        if pid in CHECKS:
            continue
        if pid in NA:
            na.append({"property_id": pid, "reason": "not applicable to deterministic simulation: " + NA[pid]})
        else:
            na.append({"property_id": pid, "reason": "simulation check designed (DESIGN.md §6) but not built yet; not claimed until it runs"})
    engines = [
        {"name": "dsim-sql", "path": "/verif/sim/sql", "serves_properties": [p for p, c in CHECKS.items() if c[5] == "dsim-sql"],
         "kind_free_text": "deterministic simulator: production SqlEngine over an on-disk journaling environment on the simulated OS, several sessions, seeded statement-level interleaving, row-level reference model"},
        {"name": "dsim-refs", "path": "/verif/sim/refs", "serves_properties": [p for p, c in CHECKS.items() if c[5] == "dsim-refs"],
         "kind_free_text": "deterministic simulator: real datas / doltdb / remotesrv / remotestorage over the simulated OS, seeded S1 scheduler, porcupine"},
        {"name": "dsim-store", "path": "/verif/sim/store", "serves_properties": [p for p, c in CHECKS.items() if c[5] == "dsim-store"],
         "kind_free_text": "deterministic simulator: real go/store/** over a simulated OS (overlay-patched package os), synctest fake clock, seeded scheduler, op-log crash images"},
    ]
    m = {
        "version": 1,
        "setup_cmd": "./check setup",
        "hooks": {
            "guard": "dsim build-time overlay (go build -overlay regenerated from the current /repo tree by every check; no tagged or hooked source is committed in /repo)",
            "enable": "GOTOOLCHAIN=local go1.26.8 test -c -vet=off -overlay /verif/build/overlay/overlay.json (overlay: hooked copies of package os, white-box export files injected into dolt packages, const->var rewrites; see /verif/sim/gen)",
            "baseline_off_cmd": json.load(open('/root/.vp/BASELINE.json'))['cmd'],
            "source_commits": [],
            "add_only": True,
        },
        "engines": engines,
        "checks": checks,
        "not_applicable": na,
        "notes": "Every check: exit 0 held / 1 with 'VIOLATION property=<id> replay=<path>' / 2 machinery trouble (never a violation). VERIF_SEED offsets the run-seed derivation, VERIF_TIER overrides the tier. Known findings: /verif/known_findings.txt. A 'fix:' commit in /repo (679fc8c) repairs a genuine C03 defect found by the check.",
    }
    json.dump(m, open('/verif/MANIFEST.json', 'w'), indent=1)
    print("checks:", len(checks), "not_applicable:", len(na))

main()
