#!/usr/bin/env python3
"""Prints the prompt given to an independent sub-agent that seeds a defect for one property."""
import json, sys
pid, wt = sys.argv[1], sys.argv[2]
extra = sys.argv[3] if len(sys.argv) > 3 else ""
p = next(json.loads(l) for l in open('/verif/properties.jsonl') if json.loads(l)['id'] == pid)
print(f"""You are helping test a verification effort by writing a *realistic bug* (a seeded defect) into a scratch copy of the dolthub/dolt repository (Go). Work ONLY inside the git worktree at {wt} (a checkout of the repository; the Go module is in {wt}/go). Do NOT read or touch /verif or /repo. The machine is offline: for every go command use `cd {wt}/go && TMPDIR={wt}/.tmp GOFLAGS=-mod=mod GOPROXY=off go test -vet=off -count=1 <packages> -run <Regex>` style invocations (create {wt}/.tmp first; the default `go` on PATH works; the first build takes a few minutes; the machine is shared, so be patient with slow builds). Keep scratch files inside {wt} only.

Property that your change must BREAK:

"{p['title']}. {p['statement']}"
Quantified over: {p['quantifier']['text']}

Relevant code (anchors): {', '.join(p['anchors']['files'])}
Mechanisms: {'; '.join(m['name'] + ' (' + m.get('where','') + ')' for m in p['anchors'].get('mechanism', []))}
{extra}
Task: make ONE small, realistic source change (the kind of mistake a maintainer could plausibly make in a refactor or optimisation) such that:
1. the repository still compiles (at least `go build ./store/... ./libraries/... ./cmd/...` in {wt}/go),
2. the existing tests of the packages you touch and their closest dependants still pass with your change (run them and confirm),
3. the property above is violated, but ONLY under something specific: a particular interleaving, a crash or fault at a particular point, a multi-step sequence of operations, an unusual input, a particular configuration, or two cooperating sites that each look fine alone — NOT something that ordinary use or the simplest test would expose at once. Prefer subtle over blatant.

Deliver, inside {wt}:
- the source change left applied in the worktree (uncommitted is fine), and also saved as {wt}/patch.diff (`git diff` output, excluding your demo files),
- a demonstration: a NEW Go test file (name it zz_seeded_demo_test.go in the relevant package) with a test that FAILS with your change and PASSES without it (verify both, e.g. with `git apply -R patch.diff` and back). The demo may use package-internal functions, goroutines with explicit synchronisation, manipulated files — whatever shows the violation concretely and deterministically,
- {wt}/NOTES.md: what you changed, why it breaks the property, exactly what is needed for it to manifest, and the exact commands you ran with their results.

Report back a short summary (what changed, what triggers it, test results). Do not make more than one logical change.""")
