#!/usr/bin/env python3
"""Rewrites the table of DESIGN.md §13 (between the seeded-table markers) from seeded/*/meta.json."""
import json, glob, re
p = '/verif/DESIGN.md'
s = open(p).read()
rows, caught, missed = [], 0, 0
for d in sorted(glob.glob('/verif/seeded/*/meta.json')):
    m = json.load(open(d))
    det = m.get('detected_by', '')
    low = det.lower()
    first = not (low.startswith('missed') or 'missed at first' in low or low.startswith('out of reach') or 'missed before' in low)
    caught += first
    missed += (not first)
    summ = m.get('summary', '').replace('|', '/').replace('\n', ' ')
    if len(summ) > 170:
        summ = summ[:167] + '...'
    which = []
    for c in re.findall(r'\./check (C\d\d)', det):
        if c not in which:
            which.append(c)
    rows.append('| %s | %s | %s | %s |' % (m['id'], summ, ', '.join(which) or m['property'],
                'caught as the check stood' if first else 'missed first; check strengthened, then caught'))
table = ('| id | change | caught by `./check` | |\n|---|---|---|---|\n' + '\n'.join(rows) +
         '\n\nOf the %d changes, %d were caught by the checks as they stood and %d were missed first' % (len(rows), caught, missed))
b, e = '<!-- seeded-table-begin -->\n', '\n<!-- seeded-table-end -->'
i, j = s.index(b) + len(b), s.index(e)
s = s[:i] + table + s[j:]
open(p, 'w').write(s)
print(len(rows), caught, missed)
