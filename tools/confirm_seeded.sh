#!/bin/bash
# confirm_seeded.sh <worktree> <go package dir relative to go/> <demo test regex> [extra packages...]
# TESTPKGS="./a/... ./b/" overrides the packages whose existing tests are run (default: the demo package).
# Confirms a seeded change: builds, existing package tests pass with the change, demo fails with
# it and passes without it. Writes <worktree>/CONFIRM.txt.
set -u
WT=$1; PKG=$2; DEMO=$3; shift 3
export GOFLAGS=-mod=mod GOPROXY=off TMPDIR=$WT/.tmp; mkdir -p $TMPDIR
cd $WT/go || exit 2
OUT=$WT/CONFIRM.txt; : > $OUT
echo "== build" >> $OUT
go build ./store/... ./libraries/... >> $OUT 2>&1 && echo "build ok" >> $OUT || echo "BUILD FAILED" >> $OUT
echo "== existing tests with the change (demo skipped)" >> $OUT
go test -vet=off -count=1 ${TESTPKGS:-$PKG} "$@" -skip "$DEMO" 2>&1 | tail -15 >> $OUT
echo "== demo with the change (must FAIL)" >> $OUT
go test -vet=off -count=1 $PKG -run "$DEMO" 2>&1 | tail -8 >> $OUT
echo "== demo without the change (must PASS)" >> $OUT
git -C $WT apply -R $WT/patch.diff && go test -vet=off -count=1 $PKG -run "$DEMO" 2>&1 | tail -5 >> $OUT
git -C $WT apply $WT/patch.diff
echo "== done" >> $OUT
